import AndaVerif.Model.Collection
import AndaVerif.Model.RangeQuery
/-
The public filter path of a collection over one B-tree index (`Filter::Field((name, RangeQuery))`
through `filter_by_field_with`), on top of `Model/Collection.lean`, and the *branch tag* of an
operation (which control-flow branch of the model an operation takes — counted by the harness to
show which branches the generated histories visit).

`RQ Int` is the shared `RangeQuery` model of `Model/RangeQuery.lean` (its `matches` is
`range_key_matches_query`, proved by C10 to be what the real scan returns).
-/
namespace AndaVerif.Collection

mutual
/-- the query carries at least one key value (which the index has to convert to its own key type) -/
def hasValue : RQ Int → Bool
  | .incl ks => !ks.isEmpty
  | .or qs => hasValueList qs
  | .and qs => hasValueList qs
  | .not q => hasValue q
  | _ => true
def hasValueList : List (RQ Int) → Bool
  | [] => false
  | q :: qs => hasValue q || hasValueList qs
end

/-- a `RangeQuery` over integer keys as a predicate on the model's keys. A tuple key belongs to a
multi-field index (byte keys): an integer value does not convert to its key type (the filter is
refused, see `fieldFilter`); a query without any value (`Include([])`, `Not(Include([]))`, …) is
decided by its structure alone -/
def liftQ (q : RQ Int) : Key → Bool
  | .s k => q.matches k
  | .t _ => !hasValue q && q.matches 0

/-- `filter_by_field_with`, `Field` arm: an unknown index name is `DBError::Index`, and so is a value
that does not convert to the index's key type (an integer against the byte keys of a multi-field
index); otherwise the ids of all matching keys, de-duplicated (`UniqueVec`) -/
def fieldFilter (s : State) (name : Nat) (q : RQ Int) : Option (List Nat) :=
  match s.ix.bt.find? (fun x => x.1.name == name) with
  | none => none
  | some x => if x.1.fields.length ≥ 2 && hasValue q then none else some (btQuery x.2 (liftQ q)).eraseDups

-- ------------------------------------------------------------------------------------------------
-- branch tags
-- ------------------------------------------------------------------------------------------------

/-- position of the first index of a family whose forward step fails, with the number of indexes of
that family that had already been changed (and are rolled back) -/
def firstFail {α : Type} (fwd : α → Fwd α) (changed : α → Bool) : List α → Nat → Nat → Option (Nat × Nat)
  | [], _, _ => none
  | x :: rest, pos, done =>
    match (fwd x).err with
    | some _ => some (pos, done)
    | none => firstFail fwd changed rest (pos + 1) (if changed x then done + 1 else done)

def uniqueTouched (s : State) (ch : List Nat) : Nat :=
  (s.ix.bt.filter (fun x => x.1.unique && touches x.1.fields ch)).length

def showFail (fam : String) (r : Nat × Nat) (earlier : Nat) : String :=
  s!"{fam}-rejects@{min r.1 3}:undo{min (r.2 + earlier) 4}"

/-- which branch of `add` -/
def tagAdd (s : State) (d : List (Nat × FVal)) : String :=
  if s.poisoned then "add:poisoned"
  else if !validate s.schema d then "add:invalid"
  else
    let id := s.maxId + 1
    let nb := (s.ix.bt.filter (fun x => (valueOf x.1 d) != .null)).length
    let nt := (s.ix.tx.filter (fun t => (textOf t.fields d).isSome)).length
    match firstFail (addBtF id d) (fun x => (valueOf x.1 d) != .null) s.ix.bt 0 0 with
    | some r => "add:" ++ showFail "bt" r 0
    | none =>
      match firstFail (addTxF id d) (fun t => (textOf t.fields d).isSome) s.ix.tx 0 0 with
      | some r => "add:" ++ showFail "tx" r nb
      | none =>
        match firstFail (addHnF id d) (fun _ => true) s.ix.hn 0 0 with
        | some r => "add:" ++ showFail "hn" r (nb + nt)
        | none => if (lookupD s.docs id).isSome then "add:create-exists" else
            s!"add:ok:null-unique{if s.ix.bt.any (fun x => x.1.unique && valueOf x.1 d == .null) then 1 else 0}:reuse{if s.maxId < s.savedMax then 1 else 0}"

def shapeOf : IVal → String
  | .null => "n" | .one _ => "1" | .many _ => "m"

/-- which branch of `update` (and which `BTree::update` dispatch shapes it drives) -/
def tagUpd (s : State) (id : Nat) (fs : List (Nat × FVal)) : String :=
  if s.poisoned then "upd:poisoned"
  else if !s.ids.contains id then "upd:notfound"
  else if fs.isEmpty then "upd:nofields"
  else
    match lookupD s.docs id with
    | none => "upd:object-gone"
    | some o =>
      match applyFields s.schema o fs with
      | none => "upd:set-field-refused"
      | some n =>
        if !validate s.schema n then "upd:invalid"
        else
          let ch := fs.map (fun p => p.1)
          let chB := fun (x : BtDef × List (Key × Nat)) => touches x.1.fields ch && valueOf x.1 o != valueOf x.1 n
          let nb := (s.ix.bt.filter chB).length
          let nt := (s.ix.tx.filter (fun t => touches t.fields ch)).length
          match firstFail (updBtF id o n ch) chB s.ix.bt 0 0 with
          | some r => s!"upd:{showFail "bt" r 0}:uniq-touched{min (uniqueTouched s ch) 3}"
          | none =>
            match firstFail (updTxF id o n ch) (fun t => touches t.fields ch) s.ix.tx 0 0 with
            | some r => "upd:" ++ showFail "tx" r nb
            | none =>
              match firstFail (updHnF id o n ch) (fun h => ch.contains h.field) s.ix.hn 0 0 with
              | some r => "upd:" ++ showFail "hn" r (nb + nt)
              | none =>
                let shapes := (s.ix.bt.filter chB).map (fun x => shapeOf (valueOf x.1 o) ++ ">" ++ shapeOf (valueOf x.1 n))
                let shapes := shapes.eraseDups
                s!"upd:ok:uniq-touched{min (uniqueTouched s ch) 3}:" ++ (if shapes.isEmpty then "same" else ",".intercalate shapes)

def tagRm (s : State) (id : Nat) : String :=
  if s.poisoned then "rm:poisoned"
  else if !s.ids.contains id then "rm:absent"
  else if (lookupD s.docs id).isNone then "rm:object-gone" else "rm:removed"

def tagCreateBt (s : State) (name : Nat) (fields : List Nat) : String :=
  let out := (createBt s name fields).2
  match out with
  | .ok => s!"mkbt:ok:fields{min fields.length 2}:backfill{min s.ids.length 3}"
  | .err .exists =>
    if s.ix.bt.any (fun x => x.1.name == name) then "mkbt:already-registered" else s!"mkbt:backfill-conflict:fields{min fields.length 2}"
  | .err .invalid => "mkbt:invalid"
  | .err .index => "mkbt:not-keyable"
  | _ => "mkbt:other"

def tagOf (s : State) : Op → String
  | .add d => tagAdd s d
  | .update id fs => tagUpd s id fs
  | .remove id => tagRm s id
  | .createBt name fields => tagCreateBt s name fields
  | .createTx fields => match (createTx s fields).2 with
    | .ok => s!"mktx:ok:backfill{min s.ids.length 3}" | .err .exists => "mktx:exists" | .err .invalid => "mktx:invalid" | _ => "mktx:other"
  | .createHn field dim => match (createHn s field dim).2 with
    | .ok => s!"mkhn:ok:backfill{min s.ids.length 3}" | .err .exists => "mkhn:exists" | .err .invalid => "mkhn:invalid"
    | .err .notFound => "mkhn:notfound" | .err .index => "mkhn:backfill-dimension" | _ => "mkhn:other"
  | .removeBt name => s!"rmbt:{if s.ix.bt.any (fun x => x.1.name == name) then 1 else 0}"
  | .removeTx fields => s!"rmtx:{if s.ix.tx.any (fun t => t.fields == fields) then 1 else 0}"
  | .removeHn field => s!"rmhn:{if s.ix.hn.any (fun h => h.field == field) then 1 else 0}"
  | .flush => s!"flush:dirty{if s.dirty then 1 else 0}"
  | .reopen => s!"reopen:dirty{if s.dirty then 1 else 0}:id-rewind{if (flush s).savedMax < s.maxId then 1 else 0}"

end AndaVerif.Collection
