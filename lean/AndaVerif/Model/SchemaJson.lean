import AndaVerif.Model.Schema
/-
The human-readable (JSON) serde branch of `value_serde.rs`:

* `impl Serialize for FieldValue` / `FieldKey` with `is_human_readable()`, `JsonEscaped`,
  `needs_txt_escape`                                                    → `toJ`, `keyToJ`, `jescape`
* `impl Deserialize for FieldValue` / `FieldKey` (prefix interpretation after the visitor),
  duplicate-key refusal                                                 → `fromJ`, `keyFromJ`

The JSON document is the `Json` carrier of `Model/Schema.lean` (what `serde_json` parses the emitted
text into: a non-negative integer literal is a `uint`, a negative one a `nint`, anything with a
fraction / exponent a `float`; `serde_json` writes a non-finite float as `null`).

Strings are opaque: the reserved prefixes (`b64:`, `i64:`, `txt:`), Base64 and decimal rendering are
the fields of `TextModel` (instantiated with real string code in the driver only), exactly as float
facts are fields of `FloatModel`.
-/
namespace AndaVerif.Schema

/-- what the deserializer sees in a string -/
inductive StrClass
  | plain
  /-- `b64:` + payload (`none`: invalid Base64 → hard error) -/
  | b64 (payload : Option (List Nat))
  /-- `i64:` + payload (`none`: not an integer → hard error in key position) -/
  | i64 (payload : Option Int)
  /-- `txt:` + rest -/
  | txt (rest : String)
  deriving Repr, Inhabited

structure TextModel where
  /-- `needs_txt_escape` -/
  needsEscape : String → Bool
  /-- `format!("txt:{s}")` -/
  esc : String → String
  /-- `format!("b64:{}", BASE64_URL_SAFE.encode(b))` -/
  b64 : List Nat → String
  /-- `format!("i64:{i}")` -/
  i64s : Int → String
  /-- `strip_prefix` cascade of the deserializers -/
  classify : String → StrClass

def TextModel.encText (tm : TextModel) (s : String) : String :=
  if tm.needsEscape s then tm.esc s else s

/-- serializer side, key position -/
def keyToJ (tm : TextModel) : FieldKey → String
  | .text s => tm.encText s
  | .i64 i => tm.i64s i
  | .bytes b => tm.b64 b

/-- `impl Deserialize for FieldKey`, human-readable (the key arrives as a string) -/
def keyFromJ (tm : TextModel) (s : String) : Option FieldKey :=
  match tm.classify s with
  | .plain => some (.text s)
  | .i64 (some i) => if i64Min ≤ i ∧ i ≤ i64Max then some (.i64 i) else none
  | .i64 none => none
  | .b64 (some b) => some (.bytes b)
  | .b64 none => none
  | .txt r => some (.text r)

mutual
/-- `JsonEscaped`: strings and object keys of a `Json` payload are escaped like text -/
def jescape (tm : TextModel) : Json → Json
  | .str s => .str (tm.encText s)
  | .arr xs => .arr (jescapeL tm xs)
  | .obj kvs => .obj (jescapeO tm kvs)
  | j => j
def jescapeL (tm : TextModel) : List Json → List Json
  | [] => []
  | x :: xs => jescape tm x :: jescapeL tm xs
def jescapeO (tm : TextModel) : List (String × Json) → List (String × Json)
  | [] => []
  | (k, x) :: xs => (tm.encText k, jescape tm x) :: jescapeO tm xs
end

mutual
/-- `impl Serialize for FieldValue`, human-readable, as the JSON document the text parses to.
`none`: serialization error (NaN). -/
def toJ (fm : FloatModel) (tm : TextModel) (jw : Nat → Nat) : FieldValue → Option Json
  | .bool b => some (.bool b)
  | .i64 i => some (if 0 ≤ i then .uint i.toNat else .nint i)
  | .u64 n => some (.uint n)
  | .f64 d => if fm.isNaN64 d then none else some (if fm.isFinite64 d then .float d else .null)
  | .f32 x => if fm.isNaN32 x then none else some (if fm.isInf32 x then .null else .float (jw x))
  | .bytes b => some (.str (tm.b64 b))
  | .text s => some (.str (tm.encText s))
  | .json j => some (jescape tm j)
  | .vector bs => some (.arr (bs.map Json.uint))
  | .array vs => match toJL fm tm jw vs with
    | some xs => some (.arr xs)
    | none => none
  | .map kvs => match toJM fm tm jw kvs with
    | some xs => some (.obj xs)
    | none => none
  | .null => some .null
def toJL (fm : FloatModel) (tm : TextModel) (jw : Nat → Nat) : List FieldValue → Option (List Json)
  | [] => some []
  | v :: vs => match toJ fm tm jw v, toJL fm tm jw vs with
    | some x, some xs => some (x :: xs)
    | _, _ => none
def toJM (fm : FloatModel) (tm : TextModel) (jw : Nat → Nat) : List (FieldKey × FieldValue) → Option (List (String × Json))
  | [] => some []
  | (k, v) :: vs => match toJ fm tm jw v, toJM fm tm jw vs with
    | some x, some xs => some ((keyToJ tm k, x) :: xs)
    | _, _ => none
end

mutual
/-- `impl Deserialize for FieldValue`, human-readable: shape-driven, then the prefix cascade on
strings (`b64:` → bytes, `txt:` → text; `i64:` is only interpreted in key position). -/
def fromJ (tm : TextModel) : Json → Option FieldValue
  | .null => some .null
  | .bool b => some (.bool b)
  | .uint n => if n ≤ u64Max then some (.u64 n) else none
  | .nint i => if i64Min ≤ i then some (.i64 i) else none
  | .float d => some (.f64 d)
  | .str s => match tm.classify s with
    | .b64 (some b) => some (.bytes b)
    | .b64 none => none
    | .txt r => some (.text r)
    | _ => some (.text s)
  | .arr xs => match fromJL tm xs with
    | some vs => some (.array vs)
    | none => none
  | .obj kvs => match fromJO tm kvs with
    | some vs => some (.map vs)
    | none => none
def fromJL (tm : TextModel) : List Json → Option (List FieldValue)
  | [] => some []
  | x :: xs => match fromJ tm x, fromJL tm xs with
    | some v, some vs => some (v :: vs)
    | _, _ => none
def fromJO (tm : TextModel) : List (String × Json) → Option (List (FieldKey × FieldValue))
  | [] => some []
  | (k, x) :: xs => match keyFromJ tm k, fromJ tm x, fromJO tm xs with
    | some k', some v, some vs => if vs.any (fun kv => kv.1 == k') then none else some ((k', v) :: vs)
    | _, _, _ => none
end

/-- JSON rendering, parse, schema-less read, then the read path of `try_from_doc` -/
def jsonLoad (fm : FloatModel) (tm : TextModel) (jw : Nat → Nat) (ft : FieldType) (v : FieldValue) : Option FieldValue :=
  match toJ fm tm jw v with
  | none => none
  | some j => match fromJ tm j with
    | none => none
    | some r => readPath fm ft r

end AndaVerif.Schema
