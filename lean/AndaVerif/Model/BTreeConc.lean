import AndaVerif.Model.Sched
/-
L3 of property C10: concurrent mutations of `BTreeIndex` (rs/anda_db_btree/src/btree.rs) as threads of
atomic actions **at exactly the granularity of the `verif::point("btree.<fn>.<n>")` hooks** (H2).

Shared state = the three coordinated maps, each behind its own lock in the code:
  `post`    `postings: DashMap<FV, (bucket_id, version, UniqueVec<PK>)>` (an entry may be *empty*
            between `remove`'s `get_mut` and its `remove_if`),
  `btree`   `btree: RwLock<BTreeSet<FV>>` (membership only; the order is immaterial here),
  `listed`  `buckets: DashMap<u32, (size, dirty, UniqueVec<FV>, ver)>` as the relation "bucket b
            lists key k" (sizes and dirty marks are not represented),
  `maxBucket` the `max_bucket_id` watermark,
and the mutation gate, *derived* from the program counters: a mutator holds the shared side exactly
while it is inside an operation, `compact_buckets` the exclusive side exactly while it is at
`cmp1…cmp3`.

One action = the code between two consecutive hook points of one thread. What is assumed atomic is
therefore: one DashMap `entry` / `get_mut` / `remove_if` closure; one `btree` write-lock section
(including the `postings.contains_key` test made inside it); one bucket-shard section (including the
nested `postings.get`/`get_mut` made inside it); gate acquisition together with the first section
of the operation; gate release together with the last.

Not decided by the model (inputs, quantified over by the theorems): whether an insert spills into a
fresh bucket (`spill`, driven by the CBOR size estimator), whether a compaction returns early
(`skip`: `old_count <= 1`) and where first-fit-decreasing puts each key (`assign`).
The model over-approximates in one place: a spill may also happen from an empty bucket.

Ghost state `hist`: one event per *element operation* at its linearisation action (`insert`: the
`postings.entry` section; `remove`: the `get_mut` section) with the effect it had there.
-/
namespace AndaVerif
namespace BTreeConc

structure Posting where
  bucket : Nat
  ids : List Nat

abbrev PMap := List (Int × Posting)

def pget : PMap → Int → Option Posting
  | [], _ => none
  | (k', p) :: r, k => if k' = k then some p else pget r k

def perase (m : PMap) (k : Int) : PMap := m.filter (fun e => !(e.1 == k))
def pset (m : PMap) (k : Int) (p : Posting) : PMap := (k, p) :: perase m k

structure Shared where
  unique : Bool
  post : PMap
  btree : List Int
  listed : List (Nat × Int)
  maxBucket : Nat

inductive Op where
  | insert (d : Nat) (k : Int) (spill : Bool)
  | remove (d : Nat) (k : Int)
  | compact (skip : Bool) (assign : Int → Nat)

inductive Res where
  | okB (b : Bool)
  | errExists
  | removed (b : Bool)
  | compacted
  deriving DecidableEq, Repr

/-- where a thread is parked; the locals the code carries across the hook point -/
inductive PC where
  /-- at the `.0` point of the next operation (or finished, if the program is empty) -/
  | idle
  /-- `btree.insert.1`: `is_new`, `size_increase > 0`, `target_bucket` -/
  | ins1 (isNew size : Bool) (target : Nat)
  /-- `btree.insert.2` -/
  | ins2 (size : Bool) (target : Nat)
  /-- `btree.insert.3`: `new_bucket` (`none` = 0) -/
  | ins3 (size : Bool) (newBucket : Option Nat)
  /-- `btree.insert.4` -/
  | ins4 (size : Bool)
  /-- `btree.remove.1`: `removed`, `posting_empty`, `bucket_id` -/
  | rem1 (removed empty : Bool) (bucket : Nat)
  /-- `btree.remove.2`: `entry_removed` -/
  | rem2 (entryRemoved : Bool) (bucket : Nat)
  /-- `btree.remove.3` -/
  | rem3 (entryRemoved : Bool) (bucket : Nat)
  /-- `btree.compact_buckets.1 / .2 / .3` (exclusive gate held) -/
  | cmp1 | cmp2 | cmp3

def PC.isIdle : PC → Bool
  | .idle => true
  | _ => false

def PC.isCmp : PC → Bool
  | .cmp1 => true | .cmp2 => true | .cmp3 => true
  | _ => false

structure Thread where
  /-- operations still to run; the head is the current one -/
  prog : List Op
  pc : PC
  /-- what the completed operations returned, oldest first -/
  results : List Res

/-- ghost: an element operation at its linearisation action -/
structure Ev where
  tid : Nat
  isInsert : Bool
  d : Nat
  k : Int
  /-- `insert`: the pair was added; `remove`: the pair was removed -/
  effect : Bool

structure Cfg where
  sh : Shared
  threads : List Thread
  /-- newest first -/
  hist : List Ev

def noCompactor (c : Cfg) : Bool := c.threads.all (fun th => !th.pc.isCmp)
def allIdle (c : Cfg) : Bool := c.threads.all (fun th => th.pc.isIdle)

def finish (th : Thread) (r : Res) : Thread :=
  { prog := th.prog.tail, pc := .idle, results := th.results ++ [r] }

def setTh (c : Cfg) (t : Nat) (th : Thread) : Cfg := { c with threads := c.threads.set t th }

def unlist (l : List (Nat × Int)) (b : Nat) (k : Int) : List (Nat × Int) :=
  l.filter (fun e => !(e.1 == b && e.2 == k))

/-- thread `t`'s next atomic action, when enabled -/
def step (t : Nat) (c : Cfg) : Option Cfg :=
  match c.threads[t]? with
  | none => none
  | some th =>
    match th.pc, th.prog with
    | .idle, [] => none
    -- ---------------------------------------------------------------- insert
    | .idle, .insert d k _ :: _ =>
      -- `mutation_gate.read()`, then the `postings.entry(k)` section
      if !noCompactor c then none
      else
        match pget c.sh.post k with
        | some p =>
          if c.sh.unique && !p.ids.contains d then
            some { setTh c t (finish th .errExists) with hist := ⟨t, true, d, k, false⟩ :: c.hist }
          else if p.ids.contains d then
            some { setTh c t { th with pc := .ins1 false false p.bucket } with hist := ⟨t, true, d, k, false⟩ :: c.hist }
          else
            some { setTh c t { th with pc := .ins1 false true p.bucket } with
                   sh := { c.sh with post := pset c.sh.post k { p with ids := p.ids ++ [d] } },
                   hist := ⟨t, true, d, k, true⟩ :: c.hist }
        | none =>
          some { setTh c t { th with pc := .ins1 true true c.sh.maxBucket } with
                 sh := { c.sh with post := pset c.sh.post k ⟨c.sh.maxBucket, [d]⟩ },
                 hist := ⟨t, true, d, k, true⟩ :: c.hist }
    | .ins1 isNew size target, .insert _ k _ :: _ =>
      -- the `btree.write()` section with the phantom-key guard
      let sh' := if isNew && (pget c.sh.post k).isSome && !c.sh.btree.contains k
                 then { c.sh with btree := k :: c.sh.btree } else c.sh
      some { setTh c t { th with pc := .ins2 size target } with sh := sh' }
    | .ins2 size target, .insert _ k spill :: _ =>
      -- the bucket section of `target_bucket`
      if !size then some (setTh c t { th with pc := .ins3 false none })
      else if !spill then
        some { setTh c t { th with pc := .ins3 true none } with
               sh := { c.sh with listed := (target, k) :: c.sh.listed } }
      else
        let n := c.sh.maxBucket + 1
        match pget c.sh.post k with
        | some p =>
          some { setTh c t { th with pc := .ins3 true (some n) } with
                 sh := { c.sh with maxBucket := n, post := pset c.sh.post k { p with bucket := n },
                                   listed := unlist c.sh.listed target k } }
        | none =>
          some { setTh c t { th with pc := .ins3 false none } with
                 sh := { c.sh with maxBucket := n, listed := unlist c.sh.listed target k } }
    | .ins3 size nb, .insert _ k _ :: _ =>
      -- the bucket section of the fresh bucket
      match nb with
      | some n => some { setTh c t { th with pc := .ins4 size } with sh := { c.sh with listed := (n, k) :: c.sh.listed } }
      | none => some (setTh c t { th with pc := .ins4 size })
    | .ins4 size, .insert _ _ _ :: _ =>
      -- `update_metadata`, return `Ok(size_increase > 0)`, gate released
      some (setTh c t (finish th (.okB size)))
    -- ---------------------------------------------------------------- remove
    | .idle, .remove d k :: _ =>
      if !noCompactor c then none
      else
        match pget c.sh.post k with
        | some p =>
          if p.ids.contains d then
            let ids' := p.ids.filter (fun x => !(x == d))
            some { setTh c t { th with pc := .rem1 true ids'.isEmpty p.bucket } with
                   sh := { c.sh with post := pset c.sh.post k { p with ids := ids' } },
                   hist := ⟨t, false, d, k, true⟩ :: c.hist }
          else
            some { setTh c t { th with pc := .rem1 false false p.bucket } with hist := ⟨t, false, d, k, false⟩ :: c.hist }
        | none =>
          some { setTh c t { th with pc := .rem1 false false 0 } with hist := ⟨t, false, d, k, false⟩ :: c.hist }
    | .rem1 removed empty bucket, .remove _ k :: _ =>
      if !removed then some (setTh c t (finish th (.removed false)))
      else if empty then
        -- `postings.remove_if(k, |p| p.is_empty())`
        match pget c.sh.post k with
        | some p =>
          if p.ids.isEmpty then
            some { setTh c t { th with pc := .rem2 true bucket } with sh := { c.sh with post := perase c.sh.post k } }
          else some (setTh c t { th with pc := .rem2 false bucket })
        | none => some (setTh c t { th with pc := .rem2 false bucket })
      else some (setTh c t { th with pc := .rem3 false bucket })
    | .rem2 entryRemoved bucket, .remove _ k :: _ =>
      -- `remove_btree_key_if_posting_absent`
      let sh' := if entryRemoved && (pget c.sh.post k).isNone
                 then { c.sh with btree := c.sh.btree.filter (fun x => !(x == k)) } else c.sh
      some { setTh c t { th with pc := .rem3 entryRemoved bucket } with sh := sh' }
    | .rem3 entryRemoved bucket, .remove _ k :: _ =>
      -- the bucket section of `bucket_id`; `update_metadata`; return `true`; gate released
      let drop := entryRemoved &&
        (match pget c.sh.post k with
         | some p => !(p.bucket == bucket)
         | none => true)
      let sh' := if drop then { c.sh with listed := unlist c.sh.listed bucket k } else c.sh
      some { setTh c t (finish th (.removed true)) with sh := sh' }
    -- ---------------------------------------------------------------- compact_buckets
    | .idle, .compact skip _ :: _ =>
      -- `mutation_gate.write()`: nobody is inside an operation
      if !allIdle c then none
      else if skip then some (setTh c t (finish th .compacted))
      else some (setTh c t { th with pc := .cmp1 })
    | .cmp1, .compact _ _ :: _ =>
      if c.sh.post.isEmpty then
        -- `fv_sizes.is_empty()`: one empty dirty bucket 0
        some { setTh c t (finish th .compacted) with sh := { c.sh with listed := [], maxBucket := 0 } }
      else
        -- bins computed locally, then `self.buckets.clear()`
        some { setTh c t { th with pc := .cmp2 } with sh := { c.sh with listed := [] } }
    | .cmp2, .compact _ assign :: _ =>
      -- every posting re-bound to its bin, every bin inserted with its keys
      some { setTh c t { th with pc := .cmp3 } with
             sh := { c.sh with post := c.sh.post.map (fun e => (e.1, { e.2 with bucket := assign e.1 })),
                               listed := c.sh.post.map (fun e => (assign e.1, e.1)) } }
    | .cmp3, .compact _ assign :: _ =>
      -- `max_bucket_id.store(max_id)`; gate released
      some { setTh c t (finish th .compacted) with
             sh := { c.sh with maxBucket := (c.sh.post.map (fun e => assign e.1)).foldl max 0 } }
    | _, _ => none

-- ------------------------------------------------------------------------------------------------
-- what a parked thread still owes the shared maps (used in the statements of the invariants)
-- ------------------------------------------------------------------------------------------------

/-- the key of the element operation a thread is inside of -/
def curKey (th : Thread) : Option Int :=
  match th.prog with
  | .insert _ k _ :: _ => some k
  | .remove _ k :: _ => some k
  | _ => none

/-- between `insert`'s posting creation and its btree section: will add the btree key -/
def willKey (th : Thread) (k : Int) : Prop := curKey th = some k ∧ ∃ s b, th.pc = .ins1 true s b
/-- between `remove`'s successful `remove_if` and its btree section: will drop the btree key if the
posting is still absent -/
def willUnkey (th : Thread) (k : Int) : Prop := curKey th = some k ∧ ∃ b, th.pc = .rem2 true b
/-- between `remove`'s `get_mut` that emptied the posting and its `remove_if` -/
def willErase (th : Thread) (k : Int) : Prop := curKey th = some k ∧ ∃ b, th.pc = .rem1 true true b
/-- between `insert`'s posting section and the bucket section that lists the key in bucket `b` -/
def willList (th : Thread) (k : Int) (b : Nat) : Prop :=
  curKey th = some k ∧ ((∃ n, th.pc = .ins1 n true b) ∨ th.pc = .ins2 true b ∨ ∃ s, th.pc = .ins3 s (some b))

/-- some thread satisfies `W` -/
def Any (c : Cfg) (W : Thread → Prop) : Prop := ∃ (i : Nat) (th : Thread), c.threads[i]? = some th ∧ W th

/-- the pair set the shared maps denote -/
def Pairs (sh : Shared) (k : Int) (d : Nat) : Prop := ∃ p, pget sh.post k = some p ∧ d ∈ p.ids

-- ------------------------------------------------------------------------------------------------
-- the sequential reading of a history (used by `conc_result_is_sequential`)
-- ------------------------------------------------------------------------------------------------

/-- apply an element operation's recorded effect to a pair set -/
def applyEv (r : List (Int × Nat)) (e : Ev) : List (Int × Nat) :=
  if e.effect then (if e.isInsert then (e.k, e.d) :: r else r.filter (fun x => !(x == (e.k, e.d)))) else r

/-- the pair set after a history (newest event first) -/
def applyHist (r0 : List (Int × Nat)) : List Ev → List (Int × Nat)
  | [] => r0
  | e :: older => applyEv (applyHist r0 older) e

/-- what the *sequential* element operation does on pair set `r` (non-unique index): an insert adds
the pair iff it is absent, a remove drops it iff it is present -/
def specEffect (r : List (Int × Nat)) (e : Ev) : Bool :=
  if e.isInsert then !(r.contains (e.k, e.d)) else r.contains (e.k, e.d)

/-- every recorded effect is the sequential one, at its place in the history -/
def EffectsSeq (r0 : List (Int × Nat)) : List Ev → Prop
  | [] => True
  | e :: older => EffectsSeq r0 older ∧ e.effect = specEffect (applyHist r0 older) e

/-- a clean starting state: what a quiescent index looks like -/
structure Clean (sh : Shared) : Prop where
  keyed : ∀ k p, pget sh.post k = some p → k ∈ sh.btree
  posted : ∀ k, k ∈ sh.btree → ∃ p, pget sh.post k = some p
  nonempty : ∀ k p, pget sh.post k = some p → p.ids ≠ []
  listed : ∀ k p, pget sh.post k = some p → (p.bucket, k) ∈ sh.listed
  nodup : ∀ k p, pget sh.post k = some p → p.ids.Nodup
  uniq : sh.unique = true → ∀ k p, pget sh.post k = some p → p.ids.length ≤ 1

/-- every thread parked between operations (or finished) -/
def Quiescent (c : Cfg) : Prop := allIdle c = true

/-- start: every thread at the `.0` point of its first operation, empty history -/
def initCfg (sh : Shared) (progs : List (List Op)) : Cfg :=
  { sh, threads := progs.map (fun p => { prog := p, pc := .idle, results := [] }), hist := [] }

end BTreeConc
end AndaVerif
