import AndaVerif.Gen.HnswOrder
/-
Model of the search side of `anda_db_hnsw::HnswIndex` (rs/anda_db_hnsw/src/hnsw.rs):
`search_f32` / `search` → `search_inner` → `search_attempt` → `search_layer`.

The graph is whatever is in the node map at the time of the call: an association list
`id ↦ (layer, per-layer neighbour lists)`, **not** assumed well formed (edges may dangle, the entry
point may dangle, layers may be inconsistent, an id may even occur twice in the list — the first
occurrence wins, as in a map).  Distances are a parameter `dist : id → Option key`:
`some key` is the metric between the query and the stored vector mapped into `Nat` by an
order-preserving encoding of `f32` (harness: sign-aware bit pattern, `-0.0` merged with `+0.0`;
for the non-negative metrics this is just the IEEE bit pattern, which is monotone for non-negative
floats), `none` is the defensive "distance computation failed" branch of the code.

The two `BinaryHeap`s of `search_layer` are modelled as sorted lists.  This is exact, not an
abstraction: an id enters either heap at most once (guarded by `visited`), so the heap keys
`(distance, id, layer)` are pairwise different in the first two components and the heap's
behaviour is determined by the total order alone.
  * `results`  : max-heap on `(d, id)`  → list kept in DEscending order, head = `peek()`;
  * `candidates`: max-heap on `(Reverse d, id)` → list kept in pop order: smaller `d` first, on equal
    `d` the LARGER id first.
The `u8` layer tag that the code carries through both heaps is only used by `insert`; it never
influences a search result and is dropped here.
-/
namespace AndaVerif.Hnsw

structure Node where
  layer : Nat
  nbrs : List (List Nat)
deriving Repr, DecidableEq

abbrev NodeMap := List (Nat × Node)

/-- `nodes.get(&id)` -/
def getNode : NodeMap → Nat → Option Node
  | [], _ => none
  | (j, n) :: r, i => if j = i then some n else getNode r i

def keys (m : NodeMap) : List Nat := m.map (·.1)

/-- heap entry: (distance key, id) -/
abbrev Ent := Nat × Nat

inductive Err where
  | notFound (id : Nat)     -- HnswError::NotFound (dangling entry point)
  | distance                -- `?` on the entry point's distance computation
  | invalid                 -- non-finite query
  | dimension               -- DimensionMismatch
  | fuel                    -- model artefact: loop fuel exhausted (proved unreachable)
deriving Repr, DecidableEq

/-- strict order of the `results` max-heap: `(OrderedFloat d, id)` lexicographic -/
def entLt (a b : Ent) : Bool := a.1 < b.1 || (a.1 == b.1 && a.2 < b.2)

/-- pop order of the `candidates` heap `(Reverse d, id)`: smaller distance first, then larger id -/
def candBefore (a b : Ent) : Bool := a.1 < b.1 || (a.1 == b.1 && b.2 < a.2)

/-- `results.push(e)` on the descending list -/
def insDesc (e : Ent) : List Ent → List Ent
  | [] => [e]
  | x :: r => if entLt x e then e :: x :: r else x :: insDesc e r

/-- `candidates.push(e)` on the pop-ordered list -/
def insCand (e : Ent) : List Ent → List Ent
  | [] => [e]
  | x :: r => if candBefore e x then e :: x :: r else x :: insCand e r

structure LState where
  visited : List Nat
  cands : List Ent
  results : List Ent
deriving Repr

/-- body of `for &(neighbor, _) in neighbors` -/
def visitNbr (get : Nat → Option Node) (dist : Nat → Option Nat) (ef : Nat) (s : LState) (v : Nat) : LState :=
  if s.visited.contains v then s
  else
    let s : LState := { s with visited := v :: s.visited }
    match get v with
    | none => s                       -- dangling edge: skipped (but now marked visited)
    | some _ =>
      match dist v with
      | none => s                     -- distance error: logged, neighbour skipped
      | some d =>
        match s.results with
        | [] => s                     -- `results.peek()` is `None`: kept as in the code
        | top :: _ =>
          if d < top.1 || s.results.length < ef then
            let res := insDesc (d, v) s.results
            { s with cands := insCand (d, v) s.cands,
                     results := if res.length > ef then res.tail else res }
          else s

/-- `node.neighbors.get(layer)` of `nodes.get(&point)`; both `None`s mean "nothing to expand" -/
def nbrsAt (get : Nat → Option Node) (p layer : Nat) : List Nat :=
  match get p with
  | none => []
  | some n =>
    match n.nbrs[layer]? with
    | none => []
    | some l => l

/-- the `break` test after a pop: `dist > results.peek().0 && results.len() >= ef` -/
def stopNow (results : List Ent) (d ef : Nat) : Bool :=
  match results with
  | top :: _ => decide (top.1 < d) && decide (ef ≤ results.length)
  | [] => false

/-- `while let Some(..) = candidates.pop()`; `none` = fuel exhausted -/
def layerLoop (get : Nat → Option Node) (dist : Nat → Option Nat) (layer ef : Nat) :
    Nat → LState → Option LState
  | 0, _ => none
  | fuel + 1, s =>
    match s.cands with
    | [] => some s
    | (d, p) :: cs =>
      if stopNow s.results d ef then some { s with cands := cs }
      else
        layerLoop get dist layer ef fuel
          ((nbrsAt get p layer).foldl (visitNbr get dist ef) { s with cands := cs })

/-- `search_layer`; result ascending by `(distance, id)` (`into_sorted_vec`) -/
def searchLayer (m : NodeMap) (dist : Nat → Option Nat) (ep layer ef : Nat) : Except Err (List Ent) :=
  let ef := max ef 1
  match getNode m ep with
  | none => .error (.notFound ep)
  | some _ =>
    match dist ep with
    | none => .error .distance
    | some d0 =>
      match layerLoop (getNode m) dist layer ef (m.length + 1) ⟨[ep], [(d0, ep)], [(d0, ep)]⟩ with
      | none => .error .fuel
      | some s => .ok s.results.reverse

/-- key of `f32::MAX` under the harness's order-preserving encoding (`bits | 0x8000_0000`) -/
def f32MaxKey : Nat := 4286578687

/-- `HnswConfig::MAX_EF_SEARCH` -/
def maxEfSearch : Nat := Gen.HnswOrder.maxEfSearch

/-- `HnswIndex::SEARCH_MAX_ATTEMPTS` -/
def searchMaxAttempts : Nat := Gen.HnswOrder.searchMaxAttempts

/-- `(1..=n).rev()` -/
def layersDown : Nat → List Nat
  | 0 => []
  | n + 1 => (n + 1) :: layersDown n

/-- greedy descent of `search_attempt` (beam 1 per layer, strict improvement only) -/
def descend (m : NodeMap) (dist : Nat → Option Nat) : List Nat → Nat → Nat → Except Err (Nat × Nat)
  | [], cur, cd => .ok (cur, cd)
  | l :: ls, cur, cd =>
    match searchLayer m dist cur l 1 with
    | .error e => .error e
    | .ok near =>
      match near with
      | (d, id) :: _ => if d < cd then descend m dist ls id d else descend m dist ls cur cd
      | [] => descend m dist ls cur cd

def searchAttempt (m : NodeMap) (entry : Nat × Nat) (dist : Nat → Option Nat) (k efSearch : Nat) :
    Except Err (List Ent) :=
  match descend m dist (layersDown entry.2) entry.1 f32MaxKey with
  | .error e => .error e
  | .ok (cur, _) =>
    match searchLayer m dist cur 0 (max efSearch (min k maxEfSearch)) with
    | .error e => .error e
    | .ok res => .ok (res.take k)

/-- `search_inner`: up to `SEARCH_MAX_ATTEMPTS` attempts, retrying on `NotFound` only.
`more` = attempts still allowed after this one. -/
def searchTry (m : NodeMap) (entry : Nat × Nat) (dist : Nat → Option Nat) (k efSearch : Nat) :
    Nat → Except Err (List Ent)
  | 0 => if m.isEmpty then .ok [] else searchAttempt m entry dist k efSearch
  | more + 1 =>
    if m.isEmpty then .ok []
    else
      match searchAttempt m entry dist k efSearch with
      | .error (.notFound _) => searchTry m entry dist k efSearch more
      | r => r

def searchInner (m : NodeMap) (entry : Nat × Nat) (dist : Nat → Option Nat) (k efSearch : Nat) :
    Except Err (List Ent) :=
  searchTry m entry dist k efSearch (searchMaxAttempts - 1)

/-- `search_f32`: `top_k == 0` first, then finiteness, then dimension. -/
def searchF32 (m : NodeMap) (entry : Nat × Nat) (dist : Nat → Option Nat) (k efSearch : Nat)
    (finite dimOk : Bool) : Except Err (List Ent) :=
  if k = 0 then .ok []
  else if !finite then .error .invalid
  else if !dimOk then .error .dimension
  else searchInner m entry dist k efSearch

/-- `search` (bf16 query): dimension first, then finiteness, then `top_k == 0`. -/
def searchBf16 (m : NodeMap) (entry : Nat × Nat) (dist : Nat → Option Nat) (k efSearch : Nat)
    (finite dimOk : Bool) : Except Err (List Ent) :=
  if !dimOk then .error .dimension
  else if !finite then .error .invalid
  else if k = 0 then .ok []
  else searchInner m entry dist k efSearch

end AndaVerif.Hnsw
