import AndaVerif.Model.RangeQuery
/-
The ordered multimap that `BTreeIndex<PK, FV>` (rs/anda_db_btree/src/btree.rs) implements with its
three coordinated maps (`postings`, `btree`, `buckets`): keys ascending, one posting list per key.

`OMap := List (Int × List Nat)`; well-formedness (`OMap.WF`: keys strictly ascending, postings
non-empty and duplicate-free) is a separate predicate with preservation theorems, not a subtype.

Mirrored from the code:
* `pushUnique` / `swapRemoveVal`  = `UniqueVec::push` / `UniqueVec::swap_remove_if(|x| x == d)`
  (posting order is the code's: append, swap-remove);
* `sortDedup`                     = `BTreeSet::from_iter(..).into_iter()`;
* `OMap.rangeKeys`                = `BTreeIndex::range_keys` incl. the seed selection of `And`
  (`min_by_key(seed_rank)` = first minimum, `Vec::swap_remove(seed)`, `retain` per remaining
  conjunct with the `Include` fast path, early `return vec![]`);
* `OMap.scan`                     = `BTreeIndex::range_query_inner` with its `walk!` macro (both
  directions, stop when the callback says so, group-level reversal, empty groups dropped in the
  descending arm, `Eq` ignoring the continue flag, the empty-index and depth-cap early returns).
Import-free apart from `Model.RangeQuery`.
-/
namespace AndaVerif

abbrev OMap := List (Int × List Nat)

/-- `UniqueVec::push`: append unless present. -/
def pushUnique (p : List Nat) (d : Nat) : List Nat := if p.contains d then p else p ++ [d]

/-- `Vec::swap_remove(i)`: the last element takes the place of the removed one. -/
def swapRemove {α : Type} (l : List α) (i : Nat) : List α :=
  match (l.drop (i + 1)).getLast? with
  | none => l.take i
  | some z => l.take i ++ z :: (l.drop (i + 1)).dropLast

/-- `UniqueVec::swap_remove_if(|x| x == d)`: first position of `d`, if any. -/
def swapRemoveVal (p : List Nat) (d : Nat) : List Nat :=
  if p.contains d then swapRemove p (p.idxOf d) else p

def insertSorted (x : Int) : List Int → List Int
  | [] => [x]
  | y :: ys => if x < y then x :: y :: ys else if x = y then y :: ys else y :: insertSorted x ys

/-- `BTreeSet::from_iter(xs)` iterated: ascending, duplicate-free. -/
def sortDedup (xs : List Int) : List Int := xs.foldr insertSorted []

namespace OMap

def keys (m : OMap) : List Int := m.map (·.1)

/-- `postings.get(k)` -/
def lookup (m : OMap) (k : Int) : Option (List Nat) :=
  match m with
  | [] => none
  | (k', p) :: m => if k = k' then some p else lookup m k

/-- add the pair `(k, d)`: new key in order, or `push` onto the existing posting -/
def ins (k : Int) (d : Nat) : OMap → OMap
  | [] => [(k, [d])]
  | (k', p) :: m =>
    if k < k' then (k, [d]) :: (k', p) :: m
    else if k = k' then (k', pushUnique p d) :: m
    else (k', p) :: ins k d m

/-- remove the pair `(k, d)`: swap-remove from the posting; an emptied posting goes with its key -/
def del (k : Int) (d : Nat) : OMap → OMap
  | [] => []
  | (k', p) :: m =>
    if k = k' then
      (if p.contains d then
        (let p' := swapRemoveVal p d
         if p'.isEmpty then m else (k', p') :: m)
       else (k', p) :: m)
    else (k', p) :: del k d m

/-- keys strictly ascending, postings non-empty and duplicate-free -/
def WF (m : OMap) : Prop :=
  m.keys.Pairwise (· < ·) ∧ ∀ e ∈ m, e.2 ≠ [] ∧ e.2.Nodup

instance (m : OMap) : Decidable (WF m) := by unfold WF; exact inferInstance

-- ------------------------------------------------------------------------------------------
-- range_keys
-- ------------------------------------------------------------------------------------------

/-- index of the first minimum (`Iterator::min_by_key` returns the first of equal minima) -/
def argminAux (best bestIdx cur : Nat) : List Nat → Nat
  | [] => bestIdx
  | x :: xs => if x < best then argminAux x cur (cur + 1) xs else argminAux best bestIdx (cur + 1) xs

def firstMinIdx : List Nat → Nat
  | [] => 0
  | x :: xs => argminAux x 0 1 xs

/-- the `retain` predicate of the `And` arm: hash-set probe for `Include`, else the denotation -/
def retainPred (q : RQ Int) (k : Int) : Bool :=
  match q with
  | .incl ks => ks.contains k
  | q => q.matches k

/-- `for query in queries { intersection.retain(..); if intersection.is_empty() { return vec![] } }` -/
def retainAll (ks : List Int) : List (RQ Int) → List Int
  | [] => ks
  | q :: qs =>
    let ks' := ks.filter (retainPred q)
    if ks'.isEmpty then [] else retainAll ks' qs

mutual
/-- `BTreeIndex::range_keys`; `btree.range(..)` of the ordered key set is `keys.filter (bound)`. -/
def rangeKeys (m : OMap) : RQ Int → List Int
  | .eq v => if m.keys.contains v then [v] else []
  | .gt v => m.keys.filter (fun k => decide (v < k))
  | .ge v => m.keys.filter (fun k => decide (v ≤ k))
  | .lt v => m.keys.filter (fun k => decide (k < v))
  | .le v => m.keys.filter (fun k => decide (k ≤ v))
  | .between a b => if a ≤ b then m.keys.filter (fun k => decide (a ≤ k) && decide (k ≤ b)) else []
  | .incl ks => (sortDedup ks).filter (fun k => m.keys.contains k)
  | .and qs =>
    if qs.isEmpty then []
    else
      let i := firstMinIdx (qs.map RQ.seedRank)
      retainAll (sortDedup (seedKeys m qs i)) (swapRemove qs i)
  | .or qs => sortDedup (unionKeys m qs)
  | .not q =>
    let exclude := rangeKeys m q
    m.keys.filter (fun k => !exclude.contains k)
/-- `range_keys(queries[i])` -/
def seedKeys (m : OMap) : List (RQ Int) → Nat → List Int
  | [], _ => []
  | q :: _, 0 => rangeKeys m q
  | _ :: qs, i + 1 => seedKeys m qs i
/-- the keys `merged.extend(range_keys(q))` sees, before ordering -/
def unionKeys (m : OMap) : List (RQ Int) → List Int
  | [] => []
  | q :: qs => rangeKeys m q ++ unionKeys m qs
end

-- ------------------------------------------------------------------------------------------
-- range_query_inner
-- ------------------------------------------------------------------------------------------

/-- The callback `f: FnMut(&FV, &Vec<PK>) -> (bool, Vec<R>)` with its captured state made explicit. -/
abbrev Callback (σ ρ : Type) := σ → Int → List Nat → σ × Bool × List ρ

/-- The loop of `walk!`: visit `ks` in the given order, skip keys without a posting, call `f`,
collect the group, stop after the first group whose continue flag is `false`. -/
def walkGroups {σ ρ : Type} (m : OMap) (f : Callback σ ρ) : List Int → σ → List (List ρ)
  | [], _ => []
  | k :: ks, s =>
    match m.lookup k with
    | none => walkGroups m f ks s
    | some p =>
      match f s k p with
      | (s', conti, rt) => if conti then rt :: walkGroups m f ks s' else [rt]

/-- `walk!(keys)` -/
def walk {σ ρ : Type} (m : OMap) (f : Callback σ ρ) (ks : List Int) (desc : Bool) (s : σ) : List ρ :=
  if desc then
    (((walkGroups m f ks.reverse s).filter (fun g => !g.isEmpty)).reverse).flatten
  else (walkGroups m f ks s).flatten

/-- `range_query_inner(query, descending, f)` -/
def scan {σ ρ : Type} (m : OMap) (q : RQ Int) (desc : Bool) (f : Callback σ ρ) (s : σ) : List ρ :=
  if m.isEmpty then []
  else if q.depth > RQ.maxDepth then []
  else
    match q with
    | .eq v =>
      (match m.lookup v with
       | some p => (f s v p).2.2
       | none => [])
    | .gt v => walk m f (m.keys.filter (fun k => decide (v < k))) desc s
    | .ge v => walk m f (m.keys.filter (fun k => decide (v ≤ k))) desc s
    | .lt v => walk m f (m.keys.filter (fun k => decide (k < v))) desc s
    | .le v => walk m f (m.keys.filter (fun k => decide (k ≤ v))) desc s
    | .between a b =>
      if b < a then [] else walk m f (m.keys.filter (fun k => decide (a ≤ k) && decide (k ≤ b))) desc s
    | .incl ks => walk m f (sortDedup ks) desc s
    | .and qs => walk m f (rangeKeys m (.and qs)) desc s
    | .or qs => walk m f (rangeKeys m (.or qs)) desc s
    | .not q' =>
      let exclude := rangeKeys m q'
      walk m f (m.keys.filter (fun k => !exclude.contains k)) desc s

/-- `keys(cursor, limit)` -/
def keysFrom (m : OMap) (cursor : Option Int) (limit : Option Nat) : List Int :=
  let ks := match cursor with
    | some c => m.keys.filter (fun k => decide (c < k))
    | none => m.keys
  match limit with
  | some l => ks.take l
  | none => ks

end OMap
end AndaVerif
