import AndaVerif.Gen.BeliefPolicy
/-
Model of the epistemic projection of `anda_cognitive_nexus`
(rs/anda_cognitive_nexus/src/projection/mod.rs and projection/policy.rs).

What is mirrored, in the order the code runs it:
* `eligible` – (its tables and comparison operators are the generated ones) stage 4 lifecycle (`status`, then `state`), stage 5 validity window, stage 6 mode
  admission, the `anonymous:{id}` actor of an unattributed Assertion, the replacement of an
  unstated (negative) confidence by `policy.unstated_confidence`;
* `collect_candidates` – the ledger pushes of the target's Assertions (support / reject / anything
  else = uncertain; excluded with reason) and the conflict-set expansion over the functional
  rivals (only eligible `support` rows, flagged `opposes_target`, pushed on `opposing`; ineligible
  rival rows are *not* listed as excluded – that is what the code does);
* `aggregate` – the side filter, the **incremental merge loop as written** (`scan`: a zipper
  `done`/`todo` stands for `groups[..index]`/`groups[index..]`; first overlapping group absorbs the
  candidate, later overlapping groups are removed and folded into it, including the dead
  `target > index` index correction; an out-of-range target index – a Rust panic – is `none`),
  `max` of raw confidences, clamp to `[0,1]` at scoring time, `score = 1 − Π (1 − c)`;
* `classify` – engaged / accept / reject / contested / uncertain, in that order;
* `Policy::baseline`, `forecast`, `from_settings` (identity changes on any override), `admits`,
  `mode_exclusion`.

What is abstracted: confidences and thresholds are integers in units of `1/den` (`den` is a field
of the policy: any finite set of rationals has a common denominator); scores are exact fractions
`num/den`; timestamps are natural numbers (the code compares RFC 3339 strings lexicographically;
the harness maps numbers to fixed-width strings order-preservingly); actors, Evidence ids and
Propositions are numbers; the store query that yields the rows of a Proposition in id order is an
input (`rows` in recording order). Floating point is not modelled (see notes/C20.md, *partial*).
The baseline / forecast constants are not written here: they are regenerated from policy.rs into
`Gen/BeliefPolicy.lean` on every check and used below as the model's `Policy.baseline`.
Imports only generated data: linked into `drv_c20`.
-/
namespace AndaVerif.Belief

/-- The union-find keys of `aggregate`: `actor:{key}`, `actor:anonymous:{assertion id}`,
`evidence:{id}`. -/
inductive Key where
  | actor (n : Nat)
  | anon (assertion : Nat)
  | evidence (n : Nat)
  deriving DecidableEq, Repr

/-- `row.stance`; `uncertain` stands for every string other than `support` / `reject`. -/
inductive Stance where
  | support | reject | uncertain
  deriving DecidableEq, Repr

/-- `row.status`; `other` stands for every unknown string. -/
inductive Status where
  | active | retracted | superseded | expired | other
  deriving DecidableEq, Repr

/-- `anda_kip::AssertionMode`. -/
inductive Mode where
  | observed | stated | inferred | predicted | hypothetical | imported
  deriving DecidableEq, Repr

/-- Exclusion reasons of `eligible`. -/
inductive Reason where
  | retracted | superseded | expired | invalidSchema | notVisible | outsideValidTime
  | hypotheticalNotRequested | predictionNotRequested | policyExcluded
  deriving DecidableEq, Repr

/-- `anda_kip::BeliefStatus`. -/
inductive Verdict where
  | accepted | rejected | contested | uncertain | insufficient
  deriving DecidableEq, Repr

/-- One stored Assertion (`AssertionRow`), reduced to what the projection reads. -/
structure Row where
  id : Nat
  /-- `proposition_id` -/
  prop : Nat
  /-- `asserted_by_key`; `none` = empty -/
  actor : Option Nat
  /-- `evidence_ids` -/
  evidence : List Nat
  stance : Stance
  /-- numerator over `Policy.den`; negative = the actor stated none (`-1` in the store) -/
  conf : Int
  /-- `serde_json::from_value::<AssertionMode>(mode).ok()` -/
  mode : Option Mode
  status : Status
  /-- `state == "active"` -/
  visible : Bool
  /-- `valid_from`; `none` = empty string -/
  validFrom : Option Nat
  /-- `valid_until`; `none` = empty string -/
  validUntil : Option Nat
  deriving Repr

inductive PolicyBase where
  | baseline | forecast
  deriving DecidableEq, Repr

/-- `Policy.id`: `kip:policy:baseline`, `kip:policy:forecast`, each possibly `+custom`. -/
structure PolicyId where
  base : PolicyBase
  custom : Bool
  deriving DecidableEq, Repr

/-- `projection::policy::Policy`; thresholds are numerators over `den`. -/
structure Policy where
  id : PolicyId
  version : Nat
  modes : List Mode
  den : Nat
  accept : Int
  material : Int
  unstated : Int
  expand : Bool
  deriving Repr

/-- serde's lowercase names of `AssertionMode`. -/
def Mode.ofName : String → Option Mode
  | "observed" => some .observed
  | "stated" => some .stated
  | "inferred" => some .inferred
  | "predicted" => some .predicted
  | "hypothetical" => some .hypothetical
  | "imported" => some .imported
  | _ => none

def baselineModes : List Mode := Gen.BeliefPolicy.baselineModes.filterMap Mode.ofName
def forecastModes : List Mode := Gen.BeliefPolicy.forecastModes.filterMap Mode.ofName

/-- `Policy::baseline()`, from the generated constants (today: resolution 10, accept 7, material 3,
unstated 5, modes observed/stated/inferred/imported, conflicts expanded, version 1). -/
def Policy.baseline : Policy :=
  { id := ⟨.baseline, false⟩, version := Gen.BeliefPolicy.baselineVersion, modes := baselineModes,
    den := Gen.BeliefPolicy.baselineDen, accept := Gen.BeliefPolicy.baselineAccept,
    material := Gen.BeliefPolicy.baselineMaterial, unstated := Gen.BeliefPolicy.baselineUnstated,
    expand := Gen.BeliefPolicy.baselineExpand }

/-- `Policy::forecast()`. -/
def Policy.forecast : Policy :=
  { Policy.baseline with id := ⟨.forecast, false⟩, modes := forecastModes }

/-- The same policy at a finer resolution (`k` times the denominator). -/
def Policy.rescale (p : Policy) (k : Nat) : Policy :=
  { p with den := p.den * k, accept := p.accept * k, material := p.material * k, unstated := p.unstated * k }

/-- `Policy::admits`. -/
def Policy.admits (p : Policy) : Option Mode → Bool
  | none => false
  | some m => p.modes.contains m

-- ------------------------------------------------------------------------------------------
-- the eligibility tables, taken from the generated file (regenerated from mod.rs / policy.rs)
-- ------------------------------------------------------------------------------------------

/-- The code's reason strings. -/
def Reason.ofName : String → Option Reason
  | "retracted" => some .retracted
  | "superseded" => some .superseded
  | "expired" => some .expired
  | "invalid_schema" => some .invalidSchema
  | "not_visible" => some .notVisible
  | "outside_valid_time" => some .outsideValidTime
  | "hypothetical_not_requested" => some .hypotheticalNotRequested
  | "prediction_not_requested" => some .predictionNotRequested
  | "policy_excluded" => some .policyExcluded
  | _ => none

/-- `row.status` as the string the code matches on (`other` = a string no arm names). -/
def Status.name : Status → String
  | .active => "active" | .retracted => "retracted" | .superseded => "superseded"
  | .expired => "expired" | .other => "?"

def Mode.name : Mode → String
  | .observed => "observed" | .stated => "stated" | .inferred => "inferred"
  | .predicted => "predicted" | .hypothetical => "hypothetical" | .imported => "imported"

/-- A `match` on string literals with a catch-all arm `_`, as a table lookup. -/
def lookupArm (table : List (String × String)) (key : String) : String :=
  match table.find? (fun p => p.1 == key) with
  | some p => p.2
  | none =>
    match table.find? (fun p => p.1 == "_") with
    | some p => p.2
    | none => ""

/-- Stage 4 of `eligible`, lifecycle: the generated `statusArms` table (`""` = passes). -/
def lifecycleExclusion (st : Status) : Option Reason :=
  let name := lookupArm Gen.BeliefPolicy.statusArms st.name
  if name == "" then none else some ((Reason.ofName name).getD .invalidSchema)

/-- A comparison operator of the source, on instants. -/
def evalCmp (op : String) (a b : Nat) : Bool :=
  if op == ">" then decide (b < a)
  else if op == ">=" then decide (b ≤ a)
  else if op == "<" then decide (a < b)
  else if op == "<=" then decide (a ≤ b)
  else false

/-- Stage 5: `row.valid_from <op> at` with the generated operator. -/
def notYetValid (validFrom now : Nat) : Bool := evalCmp Gen.BeliefPolicy.validFromExcludedWhen validFrom now

/-- Stage 5: `row.valid_until <op> at` with the generated operator. -/
def noLongerValid (validUntil now : Nat) : Bool := evalCmp Gen.BeliefPolicy.validUntilExcludedWhen validUntil now

def windowReason : Reason :=
  match Gen.BeliefPolicy.windowReasons with
  | [name] => (Reason.ofName name).getD .outsideValidTime
  | _ => .outsideValidTime

def notVisibleReason : Reason := (Reason.ofName Gen.BeliefPolicy.notVisibleReason).getD .notVisible

/-- `row.confidence <op> 0.0`: the actor stated no confidence. -/
def isUnstated (c : Int) : Bool :=
  if Gen.BeliefPolicy.unstatedWhenConfidence == "< 0" then decide (c < 0)
  else if Gen.BeliefPolicy.unstatedWhenConfidence == "<= 0" then decide (c ≤ 0)
  else false

/-- `Policy::mode_exclusion`: the generated table. -/
def modeExclusion (m : Option Mode) : Reason :=
  let key := match m with | none => "none" | some m => m.name
  (Reason.ofName (lookupArm Gen.BeliefPolicy.modeExclusion key)).getD .policyExcluded

-- ------------------------------------------------------------------------------------------
-- `Policy::from_settings`
-- ------------------------------------------------------------------------------------------

/-- The `policy` setting. -/
inductive PolicyName where
  | absent | baseline | forecast | unknown | notAString
  deriving DecidableEq, Repr

/-- A threshold setting: absent/null, a number (numerator over `den`; out of `[0,den]` = outside
`[0,1]`), or some other JSON value. -/
inductive ThresholdSetting where
  | absent | num (n : Int) | notANumber
  deriving DecidableEq, Repr

structure Settings where
  policy : PolicyName
  accept : ThresholdSetting
  material : ThresholdSetting
  /-- `none` = absent; an element `none` = a value that is not an Assertion mode -/
  modes : Option (List (Option Mode))
  deriving Repr

inductive PolicyErr where
  | unavailable | typeMismatch | invalidSyntax
  deriving DecidableEq, Repr

/-- `threshold(settings, key)` at resolution `den`. -/
def threshold (den : Nat) : ThresholdSetting → Except PolicyErr (Option Int)
  | .absent => .ok none
  | .notANumber => .error .typeMismatch
  | .num n => if 0 ≤ n ∧ n ≤ den then .ok (some n) else .error .invalidSyntax

/-- `parse_modes`. -/
def parseModes : List (Option Mode) → Except PolicyErr (List Mode)
  | [] => .ok []
  | none :: _ => .error .typeMismatch
  | some m :: rest =>
    match parseModes rest with
    | .ok ms => .ok (m :: ms)
    | .error e => .error e

/-- The optional `modes` setting. -/
def parseModesOpt : Option (List (Option Mode)) → Except PolicyErr (Option (List Mode))
  | none => .ok none
  | some ms =>
    match parseModes ms with
    | .ok l => .ok (some l)
    | .error e => .error e

/-- `Policy::from_settings`, with the baseline expressed at resolution `10 * k`. -/
def Policy.fromSettings (k : Nat) (s : Settings) : Except PolicyErr Policy :=
  let base : Except PolicyErr Policy :=
    match s.policy with
    | .absent | .baseline => .ok (Policy.baseline.rescale k)
    | .forecast => .ok (Policy.forecast.rescale k)
    | .unknown => .error .unavailable
    | .notAString => .error .typeMismatch
  match base with
  | .error e => .error e
  | .ok p0 =>
    match threshold p0.den s.accept with
    | .error e => .error e
    | .ok acc =>
      let p1 := match acc with | some v => { p0 with accept := v } | none => p0
      match threshold p0.den s.material with
      | .error e => .error e
      | .ok mat =>
        let p2 := match mat with | some v => { p1 with material := v } | none => p1
        match parseModesOpt s.modes with
        | .error e => .error e
        | .ok ms =>
          let p3 := match ms with | some l => { p2 with modes := l } | none => p2
          if p3.material > p3.accept then .error .invalidSyntax
          else
            let overridden := acc.isSome || mat.isSome || ms.isSome
            .ok (if overridden then { p3 with id := { p3.id with custom := true } } else p3)

-- ------------------------------------------------------------------------------------------
-- eligibility (stages 4–6)
-- ------------------------------------------------------------------------------------------

/-- `Candidate`. -/
structure Cand where
  id : Nat
  actor : Key
  evidence : List Nat
  stance : Stance
  conf : Int
  opposes : Bool
  deriving Repr

/-- `Context::eligible`, stage by stage in the generated order
(`eligibleStageOrder = [status, state, valid_from, valid_until, mode, unstated]`), each stage driven
by its generated table / operator. -/
def eligible (pol : Policy) (now : Nat) (r : Row) : Except Reason Cand :=
  match lifecycleExclusion r.status with
  | some reason => .error reason
  | none =>
    if !r.visible then .error notVisibleReason
    else if (match r.validFrom with | some f => notYetValid f now | none => false) then .error windowReason
    else if (match r.validUntil with | some u => noLongerValid u now | none => false) then .error windowReason
    else if !pol.admits r.mode then .error (modeExclusion r.mode)
    else .ok {
      id := r.id
      actor := match r.actor with | some a => .actor a | none => .anon r.id
      evidence := r.evidence
      stance := r.stance
      conf := if isUnstated r.conf then pol.unstated else r.conf
      opposes := false }

-- ------------------------------------------------------------------------------------------
-- collect_candidates
-- ------------------------------------------------------------------------------------------

/-- `Ledger` (the group counts are added by `project`). -/
structure Ledger where
  supporting : List Nat := []
  opposing : List Nat := []
  uncertain : List Nat := []
  excluded : List (Nat × Reason) := []
  deriving Repr

/-- One iteration of the first loop of `collect_candidates` (rows about the target). -/
def stepTarget (pol : Policy) (now : Nat) (acc : Ledger × List Cand) (r : Row) : Ledger × List Cand :=
  match eligible pol now r with
  | .ok c =>
    let l := acc.1
    let l' := match c.stance with
      | .support => { l with supporting := l.supporting ++ [c.id] }
      | .reject => { l with opposing := l.opposing ++ [c.id] }
      | .uncertain => { l with uncertain := l.uncertain ++ [c.id] }
    (l', acc.2 ++ [c])
  | .error reason =>
    ({ acc.1 with excluded := acc.1.excluded ++ [(r.id, reason)] }, acc.2)

/-- One iteration of the conflict-set expansion loop (rows about one rival). -/
def stepRival (pol : Policy) (now : Nat) (acc : Ledger × List Cand) (r : Row) : Ledger × List Cand :=
  match eligible pol now r with
  | .ok c =>
    if c.stance = .support then
      ({ acc.1 with opposing := acc.1.opposing ++ [c.id] }, acc.2 ++ [{ c with opposes := true }])
    else acc
  | .error _ => acc

/-- `assertions_about(p)`: the stored rows whose `proposition_id` is `p`, in id order. -/
def rowsAbout (rows : List Row) (p : Nat) : List Row := rows.filter (fun r => r.prop == p)

/-- `functional_rivals`: the other Propositions of the slot when the predicate is functional. -/
def rivalsOf (functional : Bool) (slot : List Nat) (target : Nat) : List Nat :=
  if functional then slot.filter (fun p => p != target) else []

/-- `collect_candidates`. -/
def collect (pol : Policy) (now : Nat) (rows : List Row) (target : Nat) (rivals : List Nat) :
    Ledger × List Cand :=
  let acc := (rowsAbout rows target).foldl (stepTarget pol now) ({}, [])
  if pol.expand then
    rivals.foldl (fun acc rival => (rowsAbout rows rival).foldl (stepRival pol now) acc) acc
  else acc

-- ------------------------------------------------------------------------------------------
-- aggregate
-- ------------------------------------------------------------------------------------------

/-- One corroboration group: its keys (as pushed, duplicates and all) and its strongest raw
confidence. -/
abbrev Group := List Key × Int

/-- `groups[index].0.iter().any(|key| keys.contains(key))`. -/
def overlaps (g : List Key) (keys : List Key) : Bool := g.any (fun k => keys.contains k)

/-- The `while index < groups.len()` loop of `aggregate` for one candidate.
`done` is `groups[..index]`, `todo` is `groups[index..]`, `merged` the index of the group that
absorbed the candidate. `none` = the indexing `groups[target]` would be out of range (panic). -/
def scan (keys : List Key) (conf : Int) :
    (done todo : List Group) → (merged : Option Nat) → Option (List Group × Option Nat)
  | done, [], merged => some (done, merged)
  | done, g :: todo, merged =>
    if overlaps g.1 keys then
      match merged with
      | none => scan keys conf (done ++ [(g.1 ++ keys, max g.2 conf)]) todo (some done.length)
      | some target =>
        -- `groups.remove(index)`; `let target = if target > index { target - 1 } else { target }`
        let target' := if target > done.length then target - 1 else target
        match done[target']? with
        | none => none
        | some tg => scan keys conf (done.set target' (tg.1 ++ g.1, max tg.2 g.2)) todo (some target')
    else scan keys conf (done ++ [g]) todo merged

/-- The keys of one candidate: `actor:{actor}` then `evidence:{id}` for each cited Evidence. -/
def Cand.keys (c : Cand) : List Key := c.actor :: c.evidence.map Key.evidence

/-- The body of `for candidate in side`. -/
def addCand (groups : List Group) (keys : List Key) (conf : Int) : Option (List Group) :=
  match scan keys conf [] groups none with
  | none => none
  | some (gs, some _) => some gs
  | some (gs, none) => some (gs ++ [(keys, conf)])

/-- The side filter of `aggregate`. -/
def onSide (opposing : Bool) (c : Cand) : Bool :=
  if opposing then c.opposes || c.stance == .reject
  else !c.opposes && c.stance == .support

/-- The grouping loop over one side. -/
def groupsOf : List Group → List Cand → Option (List Group)
  | gs, [] => some gs
  | gs, c :: rest =>
    match addCand gs c.keys c.conf with
    | none => none
    | some gs' => groupsOf gs' rest

/-- `c.clamp(0.0, 1.0)` in units of `1/den`. -/
def clampConf (den : Nat) (c : Int) : Int :=
  if c < 0 then 0 else if c > den then den else c

/-- `Π (1 − clamp c)` scaled by `den ^ #groups`. -/
def compProd (den : Nat) : List Group → Int
  | [] => 1
  | g :: gs => ((den : Int) - clampConf den g.2) * compProd den gs

/-- An exact score `num / den`. -/
structure Frac where
  num : Int
  den : Nat
  deriving DecidableEq, Repr

/-- `1 − Π (1 − clamp c)`. -/
def scoreOf (den : Nat) (gs : List Group) : Frac :=
  { num := ((den ^ gs.length : Nat) : Int) - compProd den gs, den := den ^ gs.length }

/-- `aggregate(candidates, opposing)`; `none` = panic. -/
def aggregate (den : Nat) (cands : List Cand) (opposing : Bool) : Option (Frac × Nat) :=
  let side := cands.filter (onSide opposing)
  if side.isEmpty then some ({ num := 0, den := 1 }, 0)
  else
    match groupsOf [] side with
    | none => none
    | some gs => some (scoreOf den gs, gs.length)

-- ------------------------------------------------------------------------------------------
-- classify
-- ------------------------------------------------------------------------------------------

/-- `score >= threshold` for `score = s.num/s.den`, `threshold = t/den`. -/
def Frac.ge (s : Frac) (t : Int) (den : Nat) : Bool := decide (t * (s.den : Int) ≤ s.num * (den : Int))

/-- `score < threshold`. -/
def Frac.lt (s : Frac) (t : Int) (den : Nat) : Bool := !s.ge t den

/-- `classify`. -/
def classify (support opposition : Frac) (supportGroups oppositionGroups : Nat) (uncertain : List Nat)
    (pol : Policy) : Verdict :=
  let engaged := supportGroups > 0 || oppositionGroups > 0 || !uncertain.isEmpty
  if !engaged then .insufficient
  else if support.ge pol.accept pol.den && opposition.lt pol.material pol.den then .accepted
  else if opposition.ge pol.accept pol.den && support.lt pol.material pol.den then .rejected
  else if support.ge pol.material pol.den && opposition.ge pol.material pol.den then .contested
  else .uncertain

-- ------------------------------------------------------------------------------------------
-- project_belief
-- ------------------------------------------------------------------------------------------

/-- `Belief` (what `to_json` exposes of it). -/
structure Answer where
  status : Verdict
  support : Frac
  supportGroups : Nat
  opposition : Frac
  oppositionGroups : Nat
  ledger : Ledger
  policyId : PolicyId
  policyVersion : Nat
  validAt : Nat
  deriving Repr

/-- `project_belief` on already collected candidates. -/
def projectCands (pol : Policy) (now : Nat) (ledger : Ledger) (cands : List Cand) : Option Answer :=
  match aggregate pol.den cands false, aggregate pol.den cands true with
  | some (sup, sg), some (opp, og) =>
    some { status := classify sup opp sg og ledger.uncertain pol
           support := sup, supportGroups := sg, opposition := opp, oppositionGroups := og
           ledger := ledger, policyId := pol.id, policyVersion := pol.version, validAt := now }
  | _, _ => none

/-- `Context::project_belief`. `rows` are all stored Assertions in id order, `slot` the active
Propositions of the target's `(subject, predicate)` slot in id order, `functional` the predicate's
declaration. `none` = the code would panic. -/
def project (pol : Policy) (now : Nat) (rows : List Row) (functional : Bool) (slot : List Nat)
    (target : Nat) : Option Answer :=
  let (ledger, cands) := collect pol now rows target (rivalsOf functional slot target)
  projectCands pol now ledger cands

/-- `project_slot`: every Proposition of the slot, projected. -/
def projectSlot (pol : Policy) (now : Nat) (rows : List Row) (functional : Bool) (slot : List Nat) :
    List (Nat × Option Answer) :=
  slot.map (fun p => (p, project pol now rows functional slot p))

/-- What `slot_to_json` adds to the candidate projections: the accepted values (a list on purpose:
two accepted candidates of a functional slot are a contradiction the caller has to see) and whether
the slot is contested (more than one accepted value, or some candidate contested). `leading` is a
maximum over f64 scores and is not modelled. -/
structure SlotSummary where
  accepted : List Nat
  contested : Bool
  deriving Repr, DecidableEq

def slotSummary (rs : List (Nat × Option Answer)) : SlotSummary :=
  let accepted := rs.filterMap (fun r => match r.2 with
    | some a => if a.status = .accepted then some r.1 else none
    | none => none)
  { accepted := accepted
    contested := decide (accepted.length > 1) || rs.any (fun r => match r.2 with
      | some a => a.status == .contested
      | none => false) }

end AndaVerif.Belief
