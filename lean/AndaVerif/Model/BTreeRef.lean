import AndaVerif.Model.BTree
/-
The reference the index is measured against in `api_refines_omap`: "an ordered map from key to
id-set", written with no structure at all — a bag of `(key, id)` pairs. Mutations add / drop a pair,
answers are computed from the pair set by set comprehension (`keysOf` = the distinct first
components in ascending order, `idsOf k` = the ids paired with `k`), a range query filters the keys
by the denotation and takes the first / last groups. Nothing here mirrors the code's data structures
(no posting lists, no ordered insert, no seed selection, no walk).
-/
namespace AndaVerif
namespace BTree
namespace Ref

structure RState where
  unique : Bool
  rel : List (Int × Nat)
  insertCount : Nat
  deleteCount : Nat
  queryCount : Nat

def rinit (unique : Bool) : RState := { unique, rel := [], insertCount := 0, deleteCount := 0, queryCount := 0 }

def has (r : List (Int × Nat)) (k : Int) (d : Nat) : Bool := r.contains (k, d)
def occupied (r : List (Int × Nat)) (k : Int) : Bool := r.any (fun e => e.1 == k)
/-- the unique-index conflict: the key is taken and `d` is not among its ids -/
def conflict (r : List (Int × Nat)) (d : Nat) (k : Int) : Bool := occupied r k && !has r k d
def idsOf (r : List (Int × Nat)) (k : Int) : List Nat := (r.filter (fun e => e.1 == k)).map (·.2)
def keysOf (r : List (Int × Nat)) : List Int := sortDedup (r.map (·.1))

def add (r : List (Int × Nat)) (k : Int) (d : Nat) : List (Int × Nat) := if has r k d then r else (k, d) :: r
def drop (r : List (Int × Nat)) (k : Int) (d : Nat) : List (Int × Nat) := r.filter (fun e => !(e == (k, d)))

def addMany (d : Nat) : List Int → List (Int × Nat) → Nat → List (Int × Nat) × Nat
  | [], r, n => (r, n)
  | k :: ks, r, n => if has r k d then addMany d ks r n else addMany d ks ((k, d) :: r) (n + 1)

def dropMany (d : Nat) : List Int → List (Int × Nat) → Nat → List (Int × Nat) × Nat
  | [], r, n => (r, n)
  | k :: ks, r, n => if has r k d then dropMany d ks (drop r k d) (n + 1) else dropMany d ks r n

def insertArray (s : RState) (d : Nat) (ks : List Int) : RState × Out :=
  if ks.isEmpty then (s, .okN 0)
  else if s.unique && ks.any (conflict s.rel d) then (s, .errExists)
  else
    let r := addMany d ks s.rel 0
    ({ s with rel := r.1, insertCount := s.insertCount + r.2 }, .okN r.2)

def removeArrayCore (s : RState) (d : Nat) (ks : List Int) : RState × Nat :=
  let r := dropMany d ks s.rel 0
  ({ s with rel := r.1, deleteCount := s.deleteCount + r.2 }, r.2)

/-- the groups a range query selects: matching keys ascending, each with its ids -/
def groups (r : List (Int × Nat)) (q : RQ Int) : List (Int × List Nat) :=
  ((keysOf r).filter q.matches).map (fun k => (k, idsOf r k))

def cut (desc : Bool) (stop : Option Nat) (gs : List (Int × List Nat)) : List (Int × List Nat) :=
  match stop with
  | none => gs
  | some n => if desc then gs.drop (gs.length - max n 1) else gs.take (max n 1)

def step (s : RState) : Op → RState × Out
  | .insert d k =>
    if s.unique && conflict s.rel d k then (s, .errExists)
    else if has s.rel k d then (s, .ok false)
    else ({ s with rel := (k, d) :: s.rel, insertCount := s.insertCount + 1 }, .ok true)
  | .remove d k =>
    if has s.rel k d then ({ s with rel := drop s.rel k d, deleteCount := s.deleteCount + 1 }, .removed true)
    else (s, .removed false)
  | .insertArray d ks => insertArray s d ks
  | .removeArray d ks => let r := removeArrayCore s d ks; (r.1, .n r.2)
  | .batchUpdate d old new =>
    let toInsert := new.eraseDups.filter (fun k => !old.contains k)
    let toRemove := old.eraseDups.filter (fun k => !new.contains k)
    let r₁ := if toInsert.isEmpty then (s, Out.okN 0) else insertArray s d toInsert
    (match r₁.2 with
     | .okN inserted =>
       let r₂ := if toRemove.isEmpty then (r₁.1, 0) else removeArrayCore r₁.1 d toRemove
       (r₂.1, .okPair r₂.2 inserted)
     | out => (r₁.1, out))
  | .get k =>
    ({ s with queryCount := s.queryCount + 1 },
     .posting (if occupied s.rel k then some (idsOf s.rel k) else none))
  | .len => (s, .n (keysOf s.rel).length)
  | .keys c l =>
    let ks := match c with
      | some c => (keysOf s.rel).filter (fun k => decide (c < k))
      | none => keysOf s.rel
    (s, .keys (match l with | some l => ks.take l | none => ks))
  | .range desc stop mode q =>
    ({ s with queryCount := s.queryCount + (if !s.rel.isEmpty && !(q.depth > RQ.maxDepth) then 1 else 0) },
     .pairs (((cut desc stop (groups s.rel q)).map (fun g => emit mode g.1 g.2)).flatten))
  | .stats => (s, .stats s.insertCount s.deleteCount s.queryCount (keysOf s.rel).length)

/-- within the documented depth cap (`RangeQuery::MAX_DEPTH`) -/
def depthOk : Op → Prop
  | .range _ _ _ q => q.depth ≤ RQ.maxDepth
  | _ => True

def run (s : RState) : List Op → RState × List Out
  | [] => (s, [])
  | op :: ops =>
    let r := step s op
    let r' := run r.1 ops
    (r'.1, r.2 :: r'.2)

/-- same keys in the same order, each group's ids equal as sets (both sides duplicate-free) -/
def groupsEquiv : List (Int × List Nat) → List (Int × List Nat) → Prop
  | [], [] => True
  | g :: gs, g' :: gs' => g.1 = g'.1 ∧ g.2.Perm g'.2 ∧ groupsEquiv gs gs'
  | _, _ => False

/-- two flat range answers agree up to the order of ids inside one key's group: they are the
emissions of two equivalent group lists -/
def pairsEquiv (a b : List (Int × Nat)) : Prop :=
  ∃ (mode : EmitMode) (gs gs' : List (Int × List Nat)), groupsEquiv gs gs'
    ∧ a = (gs.map (fun g => emit mode g.1 g.2)).flatten
    ∧ b = (gs'.map (fun g => emit mode g.1 g.2)).flatten

def OutEquiv : Out → Out → Prop
  | .posting (some p), .posting (some p') => p.Perm p'
  | .pairs a, .pairs b => pairsEquiv a b
  | o, o' => o = o'

def outsEquiv : List Out → List Out → Prop
  | [], [] => True
  | o :: os, o' :: os' => OutEquiv o o' ∧ outsEquiv os os'
  | _, _ => False

end Ref
end BTree
end AndaVerif
