/-
Model of the value layer of `anda_db_schema` (property C13).

Mirrors, function by function (file `rs/anda_db_schema/src/field.rs` unless stated):

* `FieldValue::validate_complexity_with`      → `complexityOk`
* `FieldType::validate` / `validate_inner`    → `validate` / `validateInner`
* `validate_map_fields`, `as_wildcard_map`,
  `check_wildcard_key`                        → `validateMap`, `asWildcard`, `FieldKey.sameVariant`
* `is_f32_read_back`                          → `isF32ReadBack` (over an opaque `FloatModel`)
* `FieldType::normalize`                      → `normalize`
* `FieldType::prune_undeclared`               → `prune`
* `field_value_to_cbor` (strict), `json_to_cbor_at`
                                              → `toCbor`, `jsonToDM`
* `FieldValue::json_from` (`Cbor::deserialized::<serde_json::Value>`)
                                              → `jsonFrom`
* `impl Serialize for FieldValue` (value_serde.rs, binary / CBOR branch)
                                              → `toDM`
* `impl Deserialize for FieldValue` / `FieldKey` (value_serde.rs `Visitor`, `KeyVisitor`,
  binary branch, fed by `cbor2`'s `deserialize_any`)
                                              → `readBack`, `readKey`
* `FieldEntry::validate`                      → `fieldValidate`
* `Document::set_field` (value part)          → `setField`
* `Document::try_from_doc` / `normalize_fields` (value part)
                                              → `readPath`

Floats are opaque: a value carries the IEEE bit pattern as a `Nat`; every float *fact* the code
uses (`is_nan`, `as f32`, `f64::from`, finiteness, the JSON shortest-decimal clause) is a field of
`FloatModel`. Nothing is proved about Lean's `Float`; the driver instantiates `FloatModel`.

Integers are unbounded here; the Rust types' ranges are the explicit predicate `FieldValue.WF`.
Maps are association lists in the order given (the harness presents `BTreeMap` order; the model
never reorders: it only maps, filters and looks up).

Not modelled in this file: `MAX_CONVERSION_DEPTH` cut-offs (128 > the validation budget 64, see
`Proofs`), CBOR tags / simple values, the human-readable (JSON) serde branch.
-/
namespace AndaVerif.Schema

/-! ## Carriers -/

inductive FieldKey
  | text (s : String)
  | i64 (i : Int)
  | bytes (b : List Nat)
  deriving DecidableEq, Repr, Inhabited

/-- `serde_json::Value` without `arbitrary_precision`: a number is `PosInt(u64)`, `NegInt(i64<0)`
or `Float(finite f64)`; an object is a `BTreeMap<String, Value>` (no `preserve_order`). -/
inductive Json
  | null
  | bool (b : Bool)
  | uint (n : Nat)
  | nint (i : Int)
  | float (bits : Nat)
  | str (s : String)
  | arr (xs : List Json)
  | obj (kvs : List (String × Json))
  deriving Repr, Inhabited

inductive FieldType
  | bool | i64 | u64 | f64 | f32 | bytes | text | json | vector
  | array (ts : List FieldType)
  | map (kts : List (FieldKey × FieldType))
  | option (t : FieldType)
  deriving Repr, Inhabited

inductive FieldValue
  | bool (b : Bool)
  | i64 (i : Int)
  | u64 (n : Nat)
  | f64 (bits : Nat)
  | f32 (bits : Nat)
  | bytes (b : List Nat)
  | text (s : String)
  | json (j : Json)
  | vector (bits : List Nat)
  | array (vs : List FieldValue)
  | map (kvs : List (FieldKey × FieldValue))
  | null
  deriving Repr, Inhabited

/-- The CBOR data model as `cbor2` presents it to serde (`cbor2::Value` without tags / simple
values / undefined). One integer kind (`cbor2::value::Integer`), one float kind (`serialize_f32`
widens to f64 before encoding; `deserialize_any` always calls `visit_f64`). -/
inductive DM
  | bool (b : Bool)
  | int (i : Int)
  | float (bits : Nat)
  | bytes (b : List Nat)
  | text (s : String)
  | array (xs : List DM)
  | map (kvs : List (DM × DM))
  | null
  deriving Repr, Inhabited

/-- Every float fact the code relies on, over bit patterns. -/
structure FloatModel where
  isNaN64 : Nat → Bool
  isNaN32 : Nat → Bool
  /-- `f64::is_finite` -/
  isFinite64 : Nat → Bool
  /-- `f32::is_infinite` -/
  isInf32 : Nat → Bool
  /-- `f64::from(f32)` / `f as f64` / `cbor2::core::f32_to_f64` -/
  widen : Nat → Nat
  /-- `v as f32` -/
  narrow : Nat → Nat
  /-- second clause of `is_f32_read_back`: `format!("{f}").parse::<f64>() == Ok(v)` for `f = v as f32` -/
  jsonReadBack : Nat → Bool

def i64Min : Int := -9223372036854775808
def i64Max : Int := 9223372036854775807
def u64Max : Nat := 18446744073709551615
def u16Max : Nat := 65535

structure Budget where
  maxDepth : Nat
  maxNodes : Nat
  maxArrayLen : Nat
  maxMapEntries : Nat
  deriving Repr

/-- `FieldValueBudget::default()` -/
def Budget.default : Budget := ⟨64, 16384, 4096, 4096⟩

/-! ## `validate_complexity_with`

The code walks the tree with an explicit stack, counting every popped item and failing on the
first of: node count > `max_nodes`, item depth > `max_depth`, array length > `max_array_len`,
map / object entries > `max_map_entries`. All four failures are the same error class, and when none
fires every node has been popped exactly once, so the outcome equals the conjunction below
(`Json` payloads start one level below their `FieldValue::Json` node; `Vector` and `Bytes` are
single nodes). -/

mutual
def Json.nodes : Json → Nat
  | .arr xs => 1 + Json.nodesL xs
  | .obj kvs => 1 + Json.nodesO kvs
  | _ => 1
def Json.nodesL : List Json → Nat
  | [] => 0
  | x :: xs => Json.nodes x + Json.nodesL xs
def Json.nodesO : List (String × Json) → Nat
  | [] => 0
  | (_, x) :: xs => Json.nodes x + Json.nodesO xs
end

mutual
def Json.shapeOk (b : Budget) (d : Nat) : Json → Bool
  | .arr xs => decide (d ≤ b.maxDepth) && decide (xs.length ≤ b.maxArrayLen) && Json.shapeOkL b (d + 1) xs
  | .obj kvs => decide (d ≤ b.maxDepth) && decide (kvs.length ≤ b.maxMapEntries) && Json.shapeOkO b (d + 1) kvs
  | _ => decide (d ≤ b.maxDepth)
def Json.shapeOkL (b : Budget) (d : Nat) : List Json → Bool
  | [] => true
  | x :: xs => Json.shapeOk b d x && Json.shapeOkL b d xs
def Json.shapeOkO (b : Budget) (d : Nat) : List (String × Json) → Bool
  | [] => true
  | (_, x) :: xs => Json.shapeOk b d x && Json.shapeOkO b d xs
end

mutual
def FieldValue.nodes : FieldValue → Nat
  | .array vs => 1 + FieldValue.nodesL vs
  | .map kvs => 1 + FieldValue.nodesM kvs
  | .json j => 1 + j.nodes
  | _ => 1
def FieldValue.nodesL : List FieldValue → Nat
  | [] => 0
  | v :: vs => FieldValue.nodes v + FieldValue.nodesL vs
def FieldValue.nodesM : List (FieldKey × FieldValue) → Nat
  | [] => 0
  | (_, v) :: vs => FieldValue.nodes v + FieldValue.nodesM vs
end

mutual
def FieldValue.shapeOk (b : Budget) (d : Nat) : FieldValue → Bool
  | .array vs => decide (d ≤ b.maxDepth) && decide (vs.length ≤ b.maxArrayLen) && FieldValue.shapeOkL b (d + 1) vs
  | .map kvs => decide (d ≤ b.maxDepth) && decide (kvs.length ≤ b.maxMapEntries) && FieldValue.shapeOkM b (d + 1) kvs
  | .json j => decide (d ≤ b.maxDepth) && j.shapeOk b (d + 1)
  | _ => decide (d ≤ b.maxDepth)
def FieldValue.shapeOkL (b : Budget) (d : Nat) : List FieldValue → Bool
  | [] => true
  | v :: vs => FieldValue.shapeOk b d v && FieldValue.shapeOkL b d vs
def FieldValue.shapeOkM (b : Budget) (d : Nat) : List (FieldKey × FieldValue) → Bool
  | [] => true
  | (_, v) :: vs => FieldValue.shapeOk b d v && FieldValue.shapeOkM b d vs
end

def complexityOk (b : Budget) (v : FieldValue) : Bool :=
  v.shapeOk b 0 && decide (v.nodes ≤ b.maxNodes)

/-! ## `validate` -/

def isF32ReadBack (fm : FloatModel) (v : Nat) : Bool :=
  if fm.isNaN64 v then false
  else
    let f := fm.narrow v
    if fm.isInf32 f && fm.isFinite64 v then false
    else if fm.widen f == v then true
    else fm.jsonReadBack v

def FieldKey.sameVariant : FieldKey → FieldKey → Bool
  | .text _, .text _ => true
  | .i64 _, .i64 _ => true
  | .bytes _, .bytes _ => true
  | _, _ => false

def isWildcardKey (k : FieldKey) : Bool :=
  k == .text "*" || k == .bytes [42] || k == .i64 i64Min

/-- `as_wildcard_map`: exactly one entry whose key is one of the three sentinels. -/
def asWildcard {α : Type} : List (FieldKey × α) → Option (FieldKey × α)
  | [(k, t)] => if isWildcardKey k then some (k, t) else none
  | _ => none

def isBf16Bits : FieldValue → Bool
  | .u64 n => decide (n ≤ u16Max)
  | _ => false

/-- `validate_map_fields`, over the already "compiled" per-key checkers. -/
def validateMap (cs : List (FieldKey × (FieldValue → Bool))) (kvs : List (FieldKey × FieldValue)) : Bool :=
  if cs.isEmpty then true
  else match asWildcard cs with
    | some (w, c) => kvs.all (fun kv => kv.1.sameVariant w && c kv.2)
    | none =>
      kvs.all (fun kv => cs.any (fun c => c.1 == kv.1)) &&
      cs.all (fun c => match kvs.lookup c.1 with
        | none => c.2 .null
        | some v => c.2 v)

/-- tuple-like arrays: same length, pairwise. -/
def zipAll : List (FieldValue → Bool) → List FieldValue → Bool
  | [], [] => true
  | f :: fs, v :: vs => f v && zipAll fs vs
  | _, _ => false

mutual
/-- `FieldType::validate_inner`. Structural in the type; the match arms are in the code's order. -/
def validateInner (fm : FloatModel) : FieldType → FieldValue → Bool
  | .bool, v => match v with | .bool _ => true | _ => false
  | .i64, v => match v with
    | .i64 _ => true
    | .u64 n => decide ((n : Int) ≤ i64Max)
    | _ => false
  | .u64, v => match v with | .u64 _ => true | _ => false
  | .f64, v => match v with | .f64 d => !fm.isNaN64 d | _ => false
  | .f32, v => match v with
    | .f32 x => !fm.isNaN32 x
    | .f64 d => isF32ReadBack fm d
    | _ => false
  | .bytes, v => match v with | .bytes _ => true | _ => false
  | .text, v => match v with | .text _ => true | _ => false
  | .json, _ => true
  | .vector, v => match v with
    | .vector _ => true
    | .array vs => vs.all isBf16Bits
    | _ => false
  | .array ts, v => match v with
    | .array vs => match ts with
      | [] => true
      | [t] => vs.all (validateInner fm t)
      | ts => zipAll (validators fm ts) vs
    | _ => false
  | .map kts, v => match v with
    | .map kvs => validateMap (keyValidators fm kts) kvs
    | _ => false
  | .option t, v => match v with
    | .null => true
    | v => validateInner fm t v
def validators (fm : FloatModel) : List FieldType → List (FieldValue → Bool)
  | [] => []
  | t :: ts => validateInner fm t :: validators fm ts
def keyValidators (fm : FloatModel) : List (FieldKey × FieldType) → List (FieldKey × (FieldValue → Bool))
  | [] => []
  | (k, t) :: rest => (k, validateInner fm t) :: keyValidators fm rest
end

/-- `FieldType::validate` with an explicit budget (`validate_complexity` then `validate_inner`). -/
def validateWith (fm : FloatModel) (b : Budget) (ft : FieldType) (v : FieldValue) : Bool :=
  complexityOk b v && validateInner fm ft v

def validate (fm : FloatModel) (ft : FieldType) (v : FieldValue) : Bool :=
  validateWith fm Budget.default ft v

/-! ## `FieldValue` → CBOR (`try_into_cbor`, `json_to_cbor_at`) and `json_from` -/

mutual
def jsonToDM : Json → DM
  | .null => .null
  | .bool b => .bool b
  | .uint n => .int n
  | .nint i => .int i
  | .float d => .float d
  | .str s => .text s
  | .arr xs => .array (jsonToDML xs)
  | .obj kvs => .map (jsonToDMO kvs)
def jsonToDML : List Json → List DM
  | [] => []
  | x :: xs => jsonToDM x :: jsonToDML xs
def jsonToDMO : List (String × Json) → List (DM × DM)
  | [] => []
  | (k, x) :: xs => (.text k, jsonToDM x) :: jsonToDMO xs
end

def keyToDM : FieldKey → DM
  | .text s => .text s
  | .i64 i => .int i
  | .bytes b => .bytes b

mutual
/-- `field_value_to_cbor` (no NaN check here: `F32 as f64` of a NaN is a NaN). -/
def toCbor (fm : FloatModel) : FieldValue → DM
  | .bool b => .bool b
  | .i64 i => .int i
  | .u64 n => .int n
  | .f64 d => .float d
  | .f32 x => .float (fm.widen x)
  | .bytes b => .bytes b
  | .text s => .text s
  | .json j => jsonToDM j
  | .vector bs => .array (bs.map (fun (b : Nat) => DM.int (b : Int)))
  | .array vs => .array (toCborL fm vs)
  | .map kvs => .map (toCborM fm kvs)
  | .null => .null
def toCborL (fm : FloatModel) : List FieldValue → List DM
  | [] => []
  | v :: vs => toCbor fm v :: toCborL fm vs
def toCborM (fm : FloatModel) : List (FieldKey × FieldValue) → List (DM × DM)
  | [] => []
  | (k, v) :: vs => (keyToDM k, toCbor fm v) :: toCborM fm vs
end

mutual
/-- `Cbor::deserialized::<serde_json::Value>()`: integers must fit u64 / i64, a non-finite float
becomes `Null` (`Number::from_f64` is `None`), byte strings and non-text map keys are errors. -/
def jsonFrom (fm : FloatModel) : DM → Option Json
  | .null => some .null
  | .bool b => some (.bool b)
  | .int i =>
    if 0 ≤ i then (if i ≤ (u64Max : Int) then some (.uint i.toNat) else none)
    else (if i64Min ≤ i then some (.nint i) else none)
  | .float d => if fm.isFinite64 d then some (.float d) else some .null
  | .bytes _ => none
  | .text s => some (.str s)
  | .array xs => match jsonFromL fm xs with
    | some ys => some (.arr ys)
    | none => none
  | .map kvs => match jsonFromO fm kvs with
    | some ys => some (.obj ys)
    | none => none
def jsonFromL (fm : FloatModel) : List DM → Option (List Json)
  | [] => some []
  | x :: xs => match jsonFrom fm x, jsonFromL fm xs with
    | some y, some ys => some (y :: ys)
    | _, _ => none
def jsonFromO (fm : FloatModel) : List (DM × DM) → Option (List (String × Json))
  | [] => some []
  | (k, x) :: xs => match k, jsonFrom fm x, jsonFromO fm xs with
    -- `serde_json::Map` is a `BTreeMap`: of two entries with one key the later one wins
    | .text s, some y, some ys => if ys.any (fun kv => kv.1 == s) then some ys else some ((s, y) :: ys)
    | _, _, _ => none
end

/-! ## `normalize` -/

def bf16Bits? : List FieldValue → Option (List Nat)
  | [] => some []
  | .u64 n :: vs => if n ≤ u16Max then (match bf16Bits? vs with | some bs => some (n :: bs) | none => none) else none
  | _ :: _ => none

/-- `types.iter().zip(values.iter_mut())`: the common prefix is rewritten, the rest is kept. -/
def zipApply : List (FieldValue → FieldValue) → List FieldValue → List FieldValue
  | f :: fs, v :: vs => f v :: zipApply fs vs
  | _, vs => vs

def mapValues (f : FieldValue → FieldValue) (kvs : List (FieldKey × FieldValue)) : List (FieldKey × FieldValue) :=
  kvs.map (fun kv => (kv.1, f kv.2))

/-- keyed map: `if let Some(ft) = types.get(k) { ft.normalize(v) }` -/
def mapKeyed (fs : List (FieldKey × (FieldValue → FieldValue))) (kvs : List (FieldKey × FieldValue)) : List (FieldKey × FieldValue) :=
  kvs.map (fun kv => match fs.lookup kv.1 with
    | some f => (kv.1, f kv.2)
    | none => kv)

def normalizeJson (fm : FloatModel) (v : FieldValue) : FieldValue :=
  match v with
  | .json _ => v
  | v => match jsonFrom fm (toCbor fm v) with
    | some j => .json j
    | none => v

mutual
def normalize (fm : FloatModel) : FieldType → FieldValue → FieldValue
  | .i64, v => match v with
    | .u64 n => if (n : Int) ≤ i64Max then .i64 n else v
    | v => v
  | .f32, v => match v with
    | .f64 d => if isF32ReadBack fm d then .f32 (fm.narrow d) else v
    | v => v
  | .vector, v => match v with
    | .array vs => (match bf16Bits? vs with | some bs => .vector bs | none => v)
    | v => v
  | .array ts, v => match v with
    | .array vs => (match ts with
      | [] => v
      | [t] => .array (vs.map (normalize fm t))
      | ts => .array (zipApply (normalizers fm ts) vs))
    | v => v
  | .json, v => normalizeJson fm v
  | .map kts, v => match v with
    | .map kvs =>
      let fs := keyNormalizers fm kts
      (match asWildcard fs with
        | some (_, f) => .map (mapValues f kvs)
        | none => .map (mapKeyed fs kvs))
    | v => v
  | .option t, v => match v with
    | .null => .null
    | v => normalize fm t v
  | _, v => v
def normalizers (fm : FloatModel) : List FieldType → List (FieldValue → FieldValue)
  | [] => []
  | t :: ts => normalize fm t :: normalizers fm ts
def keyNormalizers (fm : FloatModel) : List (FieldKey × FieldType) → List (FieldKey × (FieldValue → FieldValue))
  | [] => []
  | (k, t) :: rest => (k, normalize fm t) :: keyNormalizers fm rest
end

/-! ## `prune_undeclared` -/

/-- `values.retain(|k, _| types.contains_key(k))` then recurse into declared keys. -/
def pruneKeyed (fs : List (FieldKey × (FieldValue → FieldValue))) (kvs : List (FieldKey × FieldValue)) : List (FieldKey × FieldValue) :=
  kvs.filterMap (fun kv => match fs.lookup kv.1 with
    | some f => some (kv.1, f kv.2)
    | none => none)

mutual
def prune : FieldType → FieldValue → FieldValue
  | .array ts, v => match v with
    | .array vs => (match ts with
      | [] => v
      | [t] => .array (vs.map (prune t))
      | ts => .array (zipApply (pruners ts) vs))
    | v => v
  | .map kts, v => match v with
    | .map kvs =>
      let fs := keyPruners kts
      if fs.isEmpty then v
      else (match asWildcard fs with
        | some (_, f) => .map (mapValues f kvs)
        | none => .map (pruneKeyed fs kvs))
    | v => v
  | .option t, v => match v with
    | .null => .null
    | v => prune t v
  | _, v => v
def pruners : List FieldType → List (FieldValue → FieldValue)
  | [] => []
  | t :: ts => prune t :: pruners ts
def keyPruners : List (FieldKey × FieldType) → List (FieldKey × (FieldValue → FieldValue))
  | [] => []
  | (k, t) :: rest => (k, prune t) :: keyPruners rest
end

/-! ## Storage form: `Serialize` (binary) and generic `Deserialize` -/

mutual
/-- `impl Serialize for FieldValue`, non-human-readable: NaN is a serialization error. -/
def toDM (fm : FloatModel) : FieldValue → Option DM
  | .bool b => some (.bool b)
  | .i64 i => some (.int i)
  | .u64 n => some (.int n)
  | .f64 d => if fm.isNaN64 d then none else some (.float d)
  | .f32 x => if fm.isNaN32 x then none else some (.float (fm.widen x))
  | .bytes b => some (.bytes b)
  | .text s => some (.text s)
  | .json j => some (jsonToDM j)
  | .vector bs => some (.array (bs.map (fun (b : Nat) => DM.int (b : Int))))
  | .array vs => match toDML fm vs with
    | some xs => some (.array xs)
    | none => none
  | .map kvs => match toDMM fm kvs with
    | some xs => some (.map xs)
    | none => none
  | .null => some .null
def toDML (fm : FloatModel) : List FieldValue → Option (List DM)
  | [] => some []
  | v :: vs => match toDM fm v, toDML fm vs with
    | some x, some xs => some (x :: xs)
    | _, _ => none
def toDMM (fm : FloatModel) : List (FieldKey × FieldValue) → Option (List (DM × DM))
  | [] => some []
  | (k, v) :: vs => match toDM fm v, toDMM fm vs with
    | some x, some xs => some ((keyToDM k, x) :: xs)
    | _, _ => none
end

/-- `KeyVisitor` behind `cbor2`: text, integer within i64, bytes (an integer sequence is also
accepted as bytes); anything else is an error. -/
def readKey : DM → Option FieldKey
  | .text s => some (.text s)
  | .int i => if i64Min ≤ i ∧ i ≤ i64Max then some (.i64 i) else none
  | .bytes b => some (.bytes b)
  | .array xs =>
    (xs.mapM (fun x => match x with
      | DM.int i => if 0 ≤ i ∧ i ≤ 255 then some i.toNat else none
      | _ => none)).map FieldKey.bytes
  | _ => none

mutual
/-- `Visitor` behind `cbor2::Deserializer::deserialize_any`: shape-driven, no type information. -/
def readBack (fm : FloatModel) : DM → Option FieldValue
  | .bool b => some (.bool b)
  | .int i =>
    if 0 ≤ i then (if i ≤ (u64Max : Int) then some (.u64 i.toNat) else none)
    else (if i64Min ≤ i then some (.i64 i) else none)
  | .float d => if fm.isNaN64 d then none else some (.f64 d)
  | .bytes b => some (.bytes b)
  | .text s => some (.text s)
  | .array xs => match readBackL fm xs with
    | some vs => some (.array vs)
    | none => none
  | .map kvs => match readBackM fm kvs with
    | some vs => some (.map vs)
    | none => none
  | .null => some .null
def readBackL (fm : FloatModel) : List DM → Option (List FieldValue)
  | [] => some []
  | x :: xs => match readBack fm x, readBackL fm xs with
    | some v, some vs => some (v :: vs)
    | _, _ => none
/-- duplicate keys are rejected (`visit_map`). -/
def readBackM (fm : FloatModel) : List (DM × DM) → Option (List (FieldKey × FieldValue))
  | [] => some []
  | (k, x) :: xs => match readKey k, readBack fm x, readBackM fm xs with
    | some k', some v, some vs => if vs.any (fun kv => kv.1 == k') then none else some ((k', v) :: vs)
    | _, _, _ => none
end

/-! ## Field level -/

def FieldValue.isNull : FieldValue → Bool
  | .null => true
  | _ => false

def FieldType.allowsNull : FieldType → Bool
  | .option _ => true
  | _ => false

/-- `FieldEntry::validate` -/
def fieldValidate (fm : FloatModel) (ft : FieldType) (v : FieldValue) : Bool :=
  if v.isNull then ft.allowsNull else validate fm ft v

/-- value part of `Document::set_field`: normalize, validate, store. -/
def setField (fm : FloatModel) (ft : FieldType) (v : FieldValue) : Option FieldValue :=
  let v' := normalize fm ft v
  if fieldValidate fm ft v' then some v' else none

/-- value part of `Document::try_from_doc`: prune, normalize, validate. -/
def readPath (fm : FloatModel) (ft : FieldType) (v : FieldValue) : Option FieldValue :=
  let v' := normalize fm ft (prune ft v)
  if fieldValidate fm ft v' then some v' else none

/-- encode with `cbor2`, decode schema-less, re-attach the schema. -/
def storeLoad (fm : FloatModel) (ft : FieldType) (v : FieldValue) : Option FieldValue :=
  match toDM fm v with
  | none => none
  | some dm => match readBack fm dm with
    | none => none
    | some r => readPath fm ft r

/-! ## Representation invariants the Rust types guarantee -/

mutual
def Json.WF (fm : FloatModel) : Json → Bool
  | .uint n => decide (n ≤ u64Max)
  | .nint i => decide (i64Min ≤ i) && decide (i < 0)
  | .float d => fm.isFinite64 d && !fm.isNaN64 d
  | .arr xs => Json.WFL fm xs
  | .obj kvs => Json.WFO fm kvs
  | _ => true
def Json.WFL (fm : FloatModel) : List Json → Bool
  | [] => true
  | x :: xs => Json.WF fm x && Json.WFL fm xs
/-- object keys are distinct (`BTreeMap`) -/
def Json.WFO (fm : FloatModel) : List (String × Json) → Bool
  | [] => true
  | (k, x) :: xs => Json.WF fm x && Json.WFO fm xs && !(xs.any (fun kv => kv.1 == k))
end

def FieldKey.WF : FieldKey → Bool
  | .i64 i => decide (i64Min ≤ i) && decide (i ≤ i64Max)
  | _ => true

mutual
def FieldValue.WF (fm : FloatModel) : FieldValue → Bool
  | .i64 i => decide (i64Min ≤ i) && decide (i ≤ i64Max)
  | .u64 n => decide (n ≤ u64Max)
  | .vector bs => bs.all (fun b => decide (b ≤ u16Max))
  | .json j => j.WF fm
  | .array vs => FieldValue.WFL fm vs
  | .map kvs => FieldValue.WFM fm kvs
  | _ => true
def FieldValue.WFL (fm : FloatModel) : List FieldValue → Bool
  | [] => true
  | v :: vs => FieldValue.WF fm v && FieldValue.WFL fm vs
/-- keys in range and distinct (`BTreeMap`) -/
def FieldValue.WFM (fm : FloatModel) : List (FieldKey × FieldValue) → Bool
  | [] => true
  | (k, v) :: vs => k.WF && FieldValue.WF fm v && FieldValue.WFM fm vs && !(vs.any (fun kv => kv.1 == k))
end

end AndaVerif.Schema
