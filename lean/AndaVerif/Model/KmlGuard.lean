/-
C16 — executable model of the KML mutation guards of `rs/anda_kip/src/parser/kml.rs`
(`validate_plan`, `validate_clause`, `guard_update`, `guard_immutable_field`,
`guard_structural_mutation`, `bound_kinds_of`, `validate_exact_patterns` and its helpers,
`upsert_has_stable_identity_selector`, `collect_clause_handles`, ASSERT desugaring) and of the
collectors in `parser/common.rs` (`collect_where_variables`, `collect_mutation_value_handles`,
`collect_mutation_value_paths`, …), over the mutation-relevant projection of `ast.rs`.

The constant tables come from `Gen/KipGuardTables.lean`, regenerated from the source on every check.
Everything here mirrors the code as written, including the order of the checks (which decides the
error that is reported) and its quirks (e.g. `bound_kinds_of` also collects kind patterns below
`NOT` / `OPTIONAL` / `UNION`; UPSERT removal values are not re-checked for arity).
-/
import AndaVerif.Gen.KipGuardTables

namespace AndaVerif.KmlGuard

open AndaVerif.Gen

/-! ## Values -/

inductive LitKind where
  | null | bool | num | str | arr | obj
  deriving DecidableEq, Repr

/-- A `KipValue`, opaque except for its kind: `repr` is the string itself for a string and the
canonical JSON text otherwise, `items` the (kind, repr) of the elements of an array (used only by
`evidence_refs`). -/
structure Lit where
  kind : LitKind
  repr : String
  items : List (LitKind × String) := []
  deriving DecidableEq, Repr

/-- `DotPathVar`; the steps are opaque (`f:name`, `k:key`). -/
structure DotPath where
  var : String
  path : List String
  deriving DecidableEq, Repr

mutual
/-- `BoundValue` -/
inductive BoundValue where
  | value (l : Lit)
  | param (n : String)
  | handle (n : String)
  | var (p : DotPath)
  | arr (items : BoundList)
  | obj (fields : BoundFields)
inductive BoundList where
  | nil
  | cons (v : BoundValue) (t : BoundList)
/-- `Vec<(String, BoundValue)>` and `BoundObject` (a `BTreeMap`, listed in key order) -/
inductive BoundFields where
  | nil
  | cons (k : String) (v : BoundValue) (t : BoundFields)
end

inductive UpdFn where
  | add | mul | clamp | coalesce
  deriving DecidableEq, Repr

/-- `UpdateFunction::arity` -/
def UpdFn.arity : UpdFn → Nat
  | .add => 2
  | .mul => 2
  | .coalesce => 2
  | .clamp => 3

mutual
/-- `UpdateExpr` -/
inductive UpdateExpr where
  | var (p : DotPath)
  | num (repr : String)
  | param (n : String)
  | func (f : UpdFn) (args : ExprList)
inductive ExprList where
  | nil
  | cons (e : UpdateExpr) (t : ExprList)
end

/-- `MutationValue` -/
inductive MutationValue where
  | value (l : Lit)
  | param (n : String)
  | handle (n : String)
  | var (p : DotPath)
  | arr (items : BoundList)
  | obj (fields : BoundFields)
  | expr (e : UpdateExpr)

/-- `impl From<BoundValue> for MutationValue` -/
def MutationValue.ofBound : BoundValue → MutationValue
  | .value l => .value l
  | .param n => .param n
  | .handle n => .handle n
  | .var p => .var p
  | .arr items => .arr items
  | .obj fields => .obj fields

abbrev Assignments := List (String × MutationValue)

inductive Scalar where
  | lit (l : Lit)
  | param (n : String)
  deriving DecidableEq, Repr

inductive SymbolRef where
  | name (s : String)
  | param (n : String)
  deriving DecidableEq, Repr

inductive ElementRef where
  | handle (n : String)
  | param (n : String)
  | id (s : String)
  deriving DecidableEq, Repr

inductive PredAtom where
  | vari (n : String)
  | literal (s : String)
  | param (n : String)
  deriving DecidableEq, Repr

/-- `PredTerm`; a path keeps only its atoms' predicates (hop ranges are irrelevant here). -/
inductive PredTerm where
  | atom (a : PredAtom)
  | path (atoms : List PredAtom)
  deriving DecidableEq, Repr

/-! ## Patterns -/

mutual
/-- `MatchValue` -/
inductive MatchValue where
  | vari (n : String)
  | param (n : String)
  | literal (l : Lit)
  | array (items : MatchList)
  | mtch (m : Matcher)
  | prop (p : PropMatcher)
inductive MatchList where
  | nil
  | cons (v : MatchValue) (t : MatchList)
/-- `ObjectMatcher` (a `BTreeMap`, listed in key order) -/
inductive Matcher where
  | nil
  | cons (k : String) (v : MatchValue) (t : Matcher)
/-- `PropositionMatcher` -/
inductive PropMatcher where
  | id (s : Scalar)
  | tuple (s : Term) (p : PredTerm) (o : Term)
/-- `Term` -/
inductive Term where
  | vari (n : String)
  | param (n : String)
  | literal (l : Lit)
  | mtch (m : Matcher)
  | prop (p : PropMatcher)
end

/-- `BeliefTarget` -/
inductive BeliefTarget where
  | prop (n : String)
  | id (s : Scalar)
  | tuple (s : Term) (p : PredTerm) (o : Term)

mutual
/-- `WhereClause` (the FILTER expression is dropped: no guard reads it) -/
inductive WhereClause where
  | concept (v : String) (m : Matcher)
  | proposition (v : Option String) (pm : PropMatcher)
  | assertion (v : String) (m : Matcher)
  | evidence (v : String) (m : Matcher)
  | activity (v : String) (m : Matcher)
  | structural (v : Option String) (s : Term) (o : Term)
  | belief (v : String) (t : BeliefTarget)
  | beliefSlot (v : String) (s : Term) (p : PredAtom)
  | filter
  | not (ws : WhereList)
  | optional (ws : WhereList)
  | union (ws : WhereList)
inductive WhereList where
  | nil
  | cons (w : WhereClause) (t : WhereList)
end

/-! ## Clauses -/

structure FacetAssignment where
  facet : SymbolRef
  values : Assignments

structure FacetUnset where
  facet : SymbolRef
  fields : List String

structure StructuralEdge where
  field : SymbolRef
  value : MutationValue
  options : Option BoundFields

structure StructuralRemoval where
  field : SymbolRef
  value : MutationValue

/-- `ConceptCreate` (`type`, `name` dropped) -/
structure ConceptCreate where
  handle : String
  clientKey : Option Scalar
  setFields : Option Assignments
  setAttributes : Option Assignments
  setFacets : List FacetAssignment
  setStructural : Option (List StructuralEdge)

/-- `ConceptUpsert` (`expect_version` dropped) -/
structure ConceptUpsert where
  handle : String
  mtch : Option Matcher
  setFields : Option Assignments
  setAttributes : Option Assignments
  setFacets : List FacetAssignment
  unsetAttributes : Option (List String)
  unsetFacets : List FacetUnset
  setStructural : Option (List StructuralEdge)
  unsetStructural : Option (List StructuralRemoval)

/-- `RecordCreate` -/
structure RecordCreate where
  handle : String
  clientKey : Option Scalar
  setFields : Option Assignments
  setFacets : List FacetAssignment
  setStructural : Option (List StructuralEdge)

/-- `EnsureProposition` (`expect_version` kept as presence only) -/
structure EnsureProposition where
  handle : Option String
  subject : Term
  predicate : PredAtom
  object : Term
  expectVersion : Bool

/-- `UpdateAction` -/
inductive UpdateAction where
  | setFields (a : Assignments)
  | setAttributes (a : Assignments)
  | setFacet (f : FacetAssignment)
  | unsetAttributes (fs : List String)
  | unsetFacet (f : FacetUnset)
  | setStructural (es : List StructuralEdge)
  | unsetStructural (rs : List StructuralRemoval)

/-- `UpdateStatement` (`expect_version`, `limit` dropped) -/
structure UpdateStatement where
  target : ElementRef
  actions : List UpdateAction
  whereClauses : Option WhereList

/-- `RetractAssertion`, `RemovalStatement` (same mutation-relevant projection) -/
structure TargetWhere where
  target : ElementRef
  whereClauses : Option WhereList

/-- `SupersedeAssertion`, `CorrectEvidence` -/
structure TargetBy where
  target : ElementRef
  by_ : ElementRef
  expectState : Bool

structure TransitionActivity where
  target : ElementRef
  setFields : Option Assignments
  setStructural : Option (List StructuralEdge)

structure SetRetention where
  target : ElementRef
  values : Assignments
  whereClauses : Option WhereList

structure PurgeStatement where
  target : ElementRef
  whereClauses : Option WhereList
  confirm : String

structure MergeConcept where
  source : ElementRef
  into : ElementRef
  whereClauses : Option WhereList

/-- `MutationClause` — the sixteen families, in declaration order. -/
inductive MutationClause where
  | createConcept (c : ConceptCreate)
  | upsertConcept (c : ConceptUpsert)
  | ensureProposition (c : EnsureProposition)
  | createEvidence (c : RecordCreate)
  | createAssertion (c : RecordCreate)
  | createActivity (c : RecordCreate)
  | update (c : UpdateStatement)
  | retractAssertion (c : TargetWhere)
  | supersedeAssertion (c : TargetBy)
  | correctEvidence (c : TargetBy)
  | transitionActivity (c : TransitionActivity)
  | setRetention (c : SetRetention)
  | archive (c : TargetWhere)
  | tombstone (c : TargetWhere)
  | purge (c : PurgeStatement)
  | mergeConcept (c : MergeConcept)

/-- `KmlStatement` (`explicit_transaction` is irrelevant to every guard) -/
structure Plan where
  clauses : List MutationClause

/-! ## Errors -/

inductive Err where
  | emptyPlan
  | protectedKey (k : String)
  | dupKey (k : String)
  | arity
  | belief
  | predPath
  | literalSubject
  | upsertIdentity
  | emptyUnsetStructural
  | predVariable
  | noActions
  | immutableField (k : String)
  | structuralTarget
  | foreignPath
  | purgeConfirm
  | dupHandle (h : String)
  | unboundHandle (h : String)
  | emptyExport
  deriving DecidableEq, Repr

abbrev Res := Except Err Unit

/-- sequencing written out (no `do`) -/
@[inline] def andThen (a : Res) (b : Unit → Res) : Res :=
  match a with
  | .error e => .error e
  | .ok _ => b ()

/-! ## Tables -/

/-- `is_protected_field` -/
def isProtected (name : String) : Bool := KipGuardTables.protectedFields.contains name

/-- how a guard walks what it guards, as regenerated from the loops of `guard_update` /
`validate_clause` (`Gen/KipGuardTables.guardScans`): `every` element, or — any other answer — not
every one (modelled as the first only; the exact shape no longer matters then: the theorems stop
checking and the correspondence disagrees) -/
def scanOf (site : String) : String :=
  ((KipGuardTables.guardScans.find? (fun p => p.1 = site)).map Prod.snd).getD "first"

def scanned {α : Type} (site : String) (xs : List α) : List α :=
  if scanOf site = "every" then xs else xs.take 1

/-! ## Collectors of `parser/common.rs` -/

mutual
/-- `collect_bound_value_handles` -/
def BoundValue.handles : BoundValue → List String
  | .value _ => []
  | .param _ => []
  | .handle n => [n]
  | .var _ => []
  | .arr items => items.handles
  | .obj fields => fields.handles
def BoundList.handles : BoundList → List String
  | .nil => []
  | .cons v t => v.handles ++ t.handles
def BoundFields.handles : BoundFields → List String
  | .nil => []
  | .cons _ v t => v.handles ++ t.handles
end

mutual
/-- `collect_bound_value_paths` (only the variable of a path is ever read) -/
def BoundValue.paths : BoundValue → List String
  | .value _ => []
  | .param _ => []
  | .handle _ => []
  | .var p => [p.var]
  | .arr items => items.paths
  | .obj fields => fields.paths
def BoundList.paths : BoundList → List String
  | .nil => []
  | .cons v t => v.paths ++ t.paths
def BoundFields.paths : BoundFields → List String
  | .nil => []
  | .cons _ v t => v.paths ++ t.paths
end

mutual
/-- `collect_update_expr_paths` -/
def UpdateExpr.paths : UpdateExpr → List String
  | .var p => [p.var]
  | .num _ => []
  | .param _ => []
  | .func _ args => args.paths
def ExprList.paths : ExprList → List String
  | .nil => []
  | .cons e t => e.paths ++ t.paths
end

def ExprList.length : ExprList → Nat
  | .nil => 0
  | .cons _ t => t.length + 1

/-- `collect_mutation_value_handles` -/
def MutationValue.handles : MutationValue → List String
  | .value _ => []
  | .param _ => []
  | .handle n => [n]
  | .var _ => []
  | .arr items => items.handles
  | .obj fields => fields.handles
  | .expr _ => []

/-- `collect_mutation_value_paths` -/
def MutationValue.paths : MutationValue → List String
  | .value _ => []
  | .param _ => []
  | .handle _ => []
  | .var p => [p.var]
  | .arr items => items.paths
  | .obj fields => fields.paths
  | .expr e => e.paths

/-- `collect_pred_atom_variable` -/
def PredAtom.vars : PredAtom → List String
  | .vari n => [n]
  | .literal _ => []
  | .param _ => []

/-- the predicate part of `collect_triple_variables` -/
def PredTerm.vars : PredTerm → List String
  | .atom a => a.vars
  | .path atoms => atoms.flatMap PredAtom.vars

mutual
/-- `collect_match_value_variables` -/
def MatchValue.vars : MatchValue → List String
  | .vari n => [n]
  | .param _ => []
  | .literal _ => []
  | .array items => items.vars
  | .mtch m => m.vars
  | .prop p => p.vars
def MatchList.vars : MatchList → List String
  | .nil => []
  | .cons v t => v.vars ++ t.vars
/-- `collect_matcher_variables` -/
def Matcher.vars : Matcher → List String
  | .nil => []
  | .cons _ v t => v.vars ++ t.vars
/-- `collect_proposition_variables` / `collect_triple_variables` -/
def PropMatcher.vars : PropMatcher → List String
  | .id _ => []
  | .tuple s p o => s.vars ++ o.vars ++ p.vars
/-- `collect_term_variables` -/
def Term.vars : Term → List String
  | .vari n => [n]
  | .param _ => []
  | .literal _ => []
  | .mtch m => m.vars
  | .prop p => p.vars
end

def optVar : Option String → List String
  | none => []
  | some v => [v]

def BeliefTarget.vars : BeliefTarget → List String
  | .prop n => [n]
  | .id _ => []
  | .tuple s p o => s.vars ++ o.vars ++ p.vars

mutual
/-- `collect_where_variables` -/
def WhereClause.vars : WhereClause → List String
  | .concept v m => v :: m.vars
  | .assertion v m => v :: m.vars
  | .evidence v m => v :: m.vars
  | .activity v m => v :: m.vars
  | .proposition v pm => optVar v ++ pm.vars
  | .structural v s o => optVar v ++ s.vars ++ o.vars
  | .belief v t => v :: t.vars
  | .beliefSlot v s p => v :: (s.vars ++ p.vars)
  | .filter => []
  | .not ws => ws.vars
  | .optional ws => ws.vars
  | .union ws => ws.vars
def WhereList.vars : WhereList → List String
  | .nil => []
  | .cons w t => w.vars ++ t.vars
end

/-! ## `validate_exact_patterns` and helpers -/

mutual
/-- `validate_exact_match_value` -/
def MatchValue.validateExact : MatchValue → Res
  | .vari _ => .ok ()
  | .param _ => .ok ()
  | .literal _ => .ok ()
  | .array items => items.validateExact
  | .mtch m => m.validateExact
  | .prop p => p.validateExact
def MatchList.validateExact : MatchList → Res
  | .nil => .ok ()
  | .cons v t =>
    match v.validateExact with
    | .error e => .error e
    | .ok _ => t.validateExact
/-- `validate_exact_object_matcher` -/
def Matcher.validateExact : Matcher → Res
  | .nil => .ok ()
  | .cons _ v t =>
    match v.validateExact with
    | .error e => .error e
    | .ok _ => t.validateExact
/-- `validate_exact_proposition` (with `validate_proposition_subject` inlined) -/
def PropMatcher.validateExact : PropMatcher → Res
  | .id _ => .ok ()
  | .tuple s p o =>
    match p with
    | .path _ => .error .predPath
    | .atom _ =>
      match s with
      | .literal _ => .error .literalSubject
      | _ =>
        match s.validateExact with
        | .error e => .error e
        | .ok _ => o.validateExact
/-- `validate_exact_term` -/
def Term.validateExact : Term → Res
  | .vari _ => .ok ()
  | .param _ => .ok ()
  | .literal _ => .ok ()
  | .mtch m => m.validateExact
  | .prop p => p.validateExact
end

/-- `validate_proposition_subject` -/
def validatePropositionSubject (s : Term) : Res :=
  match s with
  | .literal _ => .error .literalSubject
  | _ => s.validateExact

mutual
/-- `validate_exact_patterns` -/
def WhereClause.validateExact : WhereClause → Res
  | .belief _ _ => .error .belief
  | .beliefSlot _ _ _ => .error .belief
  | .concept _ m => m.validateExact
  | .assertion _ m => m.validateExact
  | .evidence _ m => m.validateExact
  | .activity _ m => m.validateExact
  | .proposition _ pm => pm.validateExact
  | .structural _ s o =>
    match s.validateExact with
    | .error e => .error e
    | .ok _ => o.validateExact
  | .not ws => ws.validateExact
  | .optional ws => ws.validateExact
  | .union ws => ws.validateExact
  | .filter => .ok ()
def WhereList.validateExact : WhereList → Res
  | .nil => .ok ()
  | .cons w t =>
    match w.validateExact with
    | .error e => .error e
    | .ok _ => t.validateExact
end

/-! ## Update expressions -/

mutual
/-- `validate_update_expr` -/
def UpdateExpr.validate : UpdateExpr → Res
  | .var _ => .ok ()
  | .num _ => .ok ()
  | .param _ => .ok ()
  | .func f args => if args.length ≠ f.arity then .error .arity else args.validate
def ExprList.validate : ExprList → Res
  | .nil => .ok ()
  | .cons e t =>
    match e.validate with
    | .error x => .error x
    | .ok _ => t.validate
end

/-- `validate_mutation_value` -/
def MutationValue.validate : MutationValue → Res
  | .expr e => e.validate
  | _ => .ok ()

/-- `validate_structural_edges` -/
def validateStructuralEdges : List StructuralEdge → Res
  | [] => .ok ()
  | e :: es =>
    match e.value.validate with
    | .error x => .error x
    | .ok _ => validateStructuralEdges es

def validateRemovalValues : List StructuralRemoval → Res
  | [] => .ok ()
  | r :: rs =>
    match r.value.validate with
    | .error x => .error x
    | .ok _ => validateRemovalValues rs

/-! ## `check_assignments`, `check_unset`, `check_facets` (closures of `validate_clause`) -/

/-- first loop of `check_assignments` / the loop of `check_unset`: protected first, then duplicate -/
def checkKeys : List String → List String → Res
  | [], _ => .ok ()
  | k :: ks, seen =>
    if isProtected k then .error (.protectedKey k)
    else if seen.contains k then .error (.dupKey k)
    else checkKeys ks (k :: seen)

def validateValues : Assignments → Res
  | [] => .ok ()
  | (_, v) :: rest =>
    match v.validate with
    | .error x => .error x
    | .ok _ => validateValues rest

def checkAssignments (a : Assignments) : Res :=
  match checkKeys (scanned "validate_clause.keys" (a.map Prod.fst)) [] with
  | .error e => .error e
  | .ok _ => validateValues a

def checkUnset (fields : List String) : Res := checkKeys (scanned "validate_clause.keys" fields) []

def checkOptAssignments : Option Assignments → Res
  | none => .ok ()
  | some a => checkAssignments a

def checkFacets : List FacetAssignment → Res
  | [] => .ok ()
  | f :: fs =>
    match checkAssignments f.values with
    | .error e => .error e
    | .ok _ => checkFacets fs

def checkFacetUnsets : List FacetUnset → Res
  | [] => .ok ()
  | f :: fs =>
    match checkUnset f.fields with
    | .error e => .error e
    | .ok _ => checkFacetUnsets fs

def checkOptEdges : Option (List StructuralEdge) → Res
  | none => .ok ()
  | some es => validateStructuralEdges es

/-! ## `guard_update` -/

inductive BoundKind where
  | assertion | evidence | proposition | concept | activity
  deriving DecidableEq, Repr

/-- `if let Some(kind) = found && !kinds.contains(&kind) { kinds.push(kind) }` -/
def pushKind (k : BoundKind) (kinds : List BoundKind) : List BoundKind :=
  if kinds.contains k then kinds else kinds ++ [k]

mutual
/-- one iteration of the loop of `bound_kinds_of` (`kinds` is the `&mut Vec` accumulator) -/
def WhereClause.boundKinds (x : String) : WhereClause → List BoundKind → List BoundKind
  | .assertion v _, kinds => if v = x then pushKind .assertion kinds else kinds
  | .evidence v _, kinds => if v = x then pushKind .evidence kinds else kinds
  | .activity v _, kinds => if v = x then pushKind .activity kinds else kinds
  | .concept v _, kinds => if v = x then pushKind .concept kinds else kinds
  | .proposition (some v) _, kinds => if v = x then pushKind .proposition kinds else kinds
  | .proposition none _, kinds => kinds
  | .not ws, kinds => ws.boundKinds x kinds
  | .optional ws, kinds => ws.boundKinds x kinds
  | .union ws, kinds => ws.boundKinds x kinds
  | .structural _ _ _, kinds => kinds
  | .belief _ _, kinds => kinds
  | .beliefSlot _ _ _, kinds => kinds
  | .filter, kinds => kinds
/-- `bound_kinds_of`: every kind the WHERE binds the variable to, at any depth, de-duplicated, in
depth-first order of first occurrence -/
def WhereList.boundKinds (x : String) : WhereList → List BoundKind → List BoundKind
  | .nil, kinds => kinds
  | .cons w t, kinds => t.boundKinds x (w.boundKinds x kinds)
end

/-- the table `guard_immutable_field` consults for a kind -/
def immutableOf : BoundKind → List String
  | .assertion => KipGuardTables.assertionImmutable
  | .evidence => KipGuardTables.evidenceImmutable
  | .proposition => KipGuardTables.propositionImmutable
  | .concept => []
  | .activity => []

/-- `guard_immutable_field` -/
def guardImmutableField (field : String) (kind : Option BoundKind) : Res :=
  match kind with
  | some k => if (immutableOf k).contains field then .error (.immutableField field) else .ok ()
  | none => .ok ()

/-- `guard_structural_mutation` -/
def guardStructuralMutation (kind : Option BoundKind) : Res :=
  match kind with
  | some .assertion => .error .structuralTarget
  | some .evidence => .error .structuralTarget
  | some .proposition => .error .structuralTarget
  | some .activity => .error .structuralTarget
  | some .concept => .ok ()
  | none => .ok ()

def guardImmutableFields (kind : Option BoundKind) : List String → Res
  | [] => .ok ()
  | k :: ks =>
    match guardImmutableField k kind with
    | .error e => .error e
    | .ok _ => guardImmutableFields kind ks

/-- the inner loop (over the actions) of the first loop of `guard_update`, for one kind -/
def guardActions (kind : Option BoundKind) : List UpdateAction → Res
  | [] => .ok ()
  | a :: rest =>
    let r : Res :=
      match a with
      | .setFields asg => guardImmutableFields kind (scanned "guard_update.fields" (asg.map Prod.fst))
      | .setStructural _ => guardStructuralMutation kind
      | .unsetStructural _ => guardStructuralMutation kind
      | _ => .ok ()
    match r with
    | .error e => .error e
    | .ok _ => guardActions kind rest

def assignmentPaths : Assignments → List String
  | [] => []
  | (_, v) :: rest => v.paths ++ assignmentPaths rest

def edgePaths : List StructuralEdge → List String
  | [] => []
  | e :: es => e.value.paths ++ edgePaths es

def removalPaths : List StructuralRemoval → List String
  | [] => []
  | r :: rs => r.value.paths ++ removalPaths rs

/-- the variables read by the update expressions of one action (second loop of `guard_update`) -/
def UpdateAction.paths : UpdateAction → List String
  | .setFields a => assignmentPaths a
  | .setAttributes a => assignmentPaths a
  | .setFacet f => assignmentPaths f.values
  | .setStructural es => edgePaths es
  | .unsetStructural rs => removalPaths rs
  | .unsetAttributes _ => []
  | .unsetFacet _ => []

def actionsPaths : List UpdateAction → List String
  | [] => []
  | a :: rest => a.paths ++ actionsPaths rest

def targetVar : ElementRef → Option String
  | .handle n => some n
  | _ => none

/-- the `kinds` vector computed at the top of `guard_update` -/
def updateKinds (st : UpdateStatement) : List BoundKind :=
  match targetVar st.target, st.whereClauses with
  | some v, some ws => ws.boundKinds v []
  | _, _ => []

/-- the outer loop of `guard_update`: the guards must hold for every kind the target is bound to -/
def guardKinds (actions : List UpdateAction) : List BoundKind → Res
  | [] => .ok ()
  | k :: ks =>
    match guardActions (some k) actions with
    | .error e => .error e
    | .ok _ => guardKinds actions ks

/-- `guard_update` -/
def guardUpdate (st : UpdateStatement) : Res :=
  match guardKinds (scanned "guard_update.actions" st.actions) (scanned "guard_update.kinds" (updateKinds st)) with
  | .error e => .error e
  | .ok _ =>
    match targetVar st.target with
    | some v => if (actionsPaths st.actions).any (fun p => p != v) then .error .foreignPath else .ok ()
    | none => .ok ()

/-! ## `validate_clause` -/

/-- `Matcher.get` (keys of a `BTreeMap` are unique, so the first hit is the hit) -/
def Matcher.get (key : String) : Matcher → Option MatchValue
  | .nil => none
  | .cons k v t => if k = key then some v else t.get key

def selectorOk : Option MatchValue → Bool
  | some (.literal _) => true
  | some (.param _) => true
  | _ => false

/-- `upsert_has_stable_identity_selector` -/
def upsertHasStableIdentitySelector (m : Matcher) : Bool :=
  KipGuardTables.upsertSelectors.any (fun f => selectorOk (m.get f))

/-- `clause_where` -/
def clauseWhere : MutationClause → Option WhereList
  | .update c => c.whereClauses
  | .retractAssertion c => c.whereClauses
  | .setRetention c => c.whereClauses
  | .archive c => c.whereClauses
  | .tombstone c => c.whereClauses
  | .purge c => c.whereClauses
  | .mergeConcept c => c.whereClauses
  | _ => none

/-- the per-action loop of the `Update` arm -/
def validateActions : List UpdateAction → Res
  | [] => .ok ()
  | a :: rest =>
    let r : Res :=
      match a with
      | .setFields asg => checkAssignments asg
      | .setAttributes asg => checkAssignments asg
      | .setFacet f => checkAssignments f.values
      | .unsetAttributes fs => checkUnset fs
      | .unsetFacet f => checkUnset f.fields
      | .unsetStructural rs => if rs.isEmpty then .error .emptyUnsetStructural else validateRemovalValues rs
      | .setStructural es => validateStructuralEdges es
    match r with
    | .error e => .error e
    | .ok _ => validateActions rest

def validateRecordCreate (c : RecordCreate) : Res :=
  andThen (checkOptAssignments c.setFields) fun _ =>
  andThen (checkFacets (scanned "validate_clause.facets" c.setFacets)) fun _ =>
  checkOptEdges c.setStructural

def validateUpsert (c : ConceptUpsert) : Res :=
  andThen (checkOptAssignments c.setFields) fun _ =>
  andThen (checkOptAssignments c.setAttributes) fun _ =>
  andThen (checkFacets (scanned "validate_clause.facets" c.setFacets)) fun _ =>
  andThen (match c.unsetAttributes with | none => .ok () | some fs => checkUnset fs) fun _ =>
  andThen (checkFacetUnsets (scanned "validate_clause.unset_facets" c.unsetFacets)) fun _ =>
  andThen (checkOptEdges c.setStructural) fun _ =>
  match c.mtch with
  | none => .error .upsertIdentity
  | some m =>
    if !upsertHasStableIdentitySelector m then .error .upsertIdentity
    else
      andThen m.validateExact fun _ =>
      match c.unsetStructural with
      | some [] => .error .emptyUnsetStructural
      | _ => .ok ()

def validateUpdate (c : UpdateStatement) : Res :=
  andThen (validateActions (scanned "validate_clause.update_actions" c.actions)) fun _ =>
  if c.actions.isEmpty then .error .noActions else guardUpdate c

/-- the `match clause` of `validate_clause` -/
def validateClauseBody : MutationClause → Res
  | .createConcept c =>
    andThen (checkOptAssignments c.setFields) fun _ =>
    andThen (checkOptAssignments c.setAttributes) fun _ =>
    andThen (checkFacets (scanned "validate_clause.facets" c.setFacets)) fun _ =>
    checkOptEdges c.setStructural
  | .upsertConcept c => validateUpsert c
  | .createEvidence c => validateRecordCreate c
  | .createAssertion c => validateRecordCreate c
  | .createActivity c => validateRecordCreate c
  | .ensureProposition c =>
    match c.predicate with
    | .vari _ => .error .predVariable
    | _ =>
      andThen (validatePropositionSubject c.subject) fun _ =>
      c.object.validateExact
  | .update c => validateUpdate c
  | .transitionActivity c =>
    andThen (checkOptAssignments c.setFields) fun _ =>
    checkOptEdges c.setStructural
  | .setRetention c => checkAssignments c.values
  | .purge c => if c.confirm ≠ "PURGE" then .error .purgeConfirm else .ok ()
  | .retractAssertion _ => .ok ()
  | .supersedeAssertion _ => .ok ()
  | .correctEvidence _ => .ok ()
  | .archive _ => .ok ()
  | .tombstone _ => .ok ()
  | .mergeConcept _ => .ok ()

/-- `if let Some(where_clauses) = clause_where(clause) { validate_exact_patterns(where_clauses)?; }` -/
def validateOptWhere : Option WhereList → Res
  | none => .ok ()
  | some ws => ws.validateExact

/-- `validate_clause` -/
def validateClause (c : MutationClause) : Res :=
  andThen (validateOptWhere (clauseWhere c)) fun _ =>
  validateClauseBody c

/-! ## `validate_plan` -/

/-- `MutationClause::handle` -/
def MutationClause.handle : MutationClause → Option String
  | .createConcept c => some c.handle
  | .upsertConcept c => some c.handle
  | .createEvidence c => some c.handle
  | .createAssertion c => some c.handle
  | .createActivity c => some c.handle
  | .ensureProposition c => c.handle
  | _ => none

def elementHandles : ElementRef → List String
  | .handle n => [n]
  | _ => []

/-- `collect_assignments_handles` -/
def assignmentsHandles : Assignments → List String
  | [] => []
  | (_, v) :: rest => v.handles ++ assignmentsHandles rest

def optAssignmentsHandles : Option Assignments → List String
  | none => []
  | some a => assignmentsHandles a

/-- `collect_facets_handles` -/
def facetsHandles : List FacetAssignment → List String
  | [] => []
  | f :: fs => assignmentsHandles f.values ++ facetsHandles fs

/-- `collect_edges_handles` -/
def edgesHandles : List StructuralEdge → List String
  | [] => []
  | e :: es =>
    e.value.handles ++ (match e.options with | none => [] | some o => o.handles) ++ edgesHandles es

def optEdgesHandles : Option (List StructuralEdge) → List String
  | none => []
  | some es => edgesHandles es

def removalsHandles : List StructuralRemoval → List String
  | [] => []
  | r :: rs => r.value.handles ++ removalsHandles rs

def UpdateAction.handles : UpdateAction → List String
  | .setFields a => assignmentsHandles a
  | .setAttributes a => assignmentsHandles a
  | .setFacet f => assignmentsHandles f.values
  | .setStructural es => edgesHandles es
  | .unsetStructural rs => removalsHandles rs
  | .unsetAttributes _ => []
  | .unsetFacet _ => []

def actionsHandles : List UpdateAction → List String
  | [] => []
  | a :: rest => a.handles ++ actionsHandles rest

/-- `collect_clause_handles` -/
def collectClauseHandles : MutationClause → List String
  | .createConcept c =>
    optAssignmentsHandles c.setFields ++ optAssignmentsHandles c.setAttributes ++
      facetsHandles c.setFacets ++ optEdgesHandles c.setStructural
  | .upsertConcept c =>
    optAssignmentsHandles c.setFields ++ optAssignmentsHandles c.setAttributes ++
      facetsHandles c.setFacets ++ optEdgesHandles c.setStructural ++
      (match c.unsetStructural with | none => [] | some rs => removalsHandles rs)
  | .createEvidence c =>
    optAssignmentsHandles c.setFields ++ facetsHandles c.setFacets ++ optEdgesHandles c.setStructural
  | .createAssertion c =>
    optAssignmentsHandles c.setFields ++ facetsHandles c.setFacets ++ optEdgesHandles c.setStructural
  | .createActivity c =>
    optAssignmentsHandles c.setFields ++ facetsHandles c.setFacets ++ optEdgesHandles c.setStructural
  | .ensureProposition _ => []
  | .update c => elementHandles c.target ++ actionsHandles c.actions
  | .retractAssertion c => elementHandles c.target
  | .supersedeAssertion c => elementHandles c.target ++ elementHandles c.by_
  | .correctEvidence c => elementHandles c.target ++ elementHandles c.by_
  | .transitionActivity c =>
    elementHandles c.target ++ optAssignmentsHandles c.setFields ++ optEdgesHandles c.setStructural
  | .setRetention c => elementHandles c.target ++ assignmentsHandles c.values
  | .archive c => elementHandles c.target
  | .tombstone c => elementHandles c.target
  | .purge c => elementHandles c.target
  | .mergeConcept c => elementHandles c.source ++ elementHandles c.into

def validateClauses : List MutationClause → Res
  | [] => .ok ()
  | c :: cs =>
    match validateClause c with
    | .error e => .error e
    | .ok _ => validateClauses cs

/-- the duplicate-handle loop; returns the handles of the plan -/
def planHandles : List MutationClause → List String → Except Err (List String)
  | [], acc => .ok acc
  | c :: cs, acc =>
    match c.handle with
    | none => planHandles cs acc
    | some h => if acc.contains h then .error (.dupHandle h) else planHandles cs (h :: acc)

def firstUnbound (allowed : List String) : List String → Res
  | [] => .ok ()
  | h :: hs => if allowed.contains h then firstUnbound allowed hs else .error (.unboundHandle h)

/-- the handle-resolution loop -/
def checkReferences (plan : List String) : List MutationClause → Res
  | [] => .ok ()
  | c :: cs =>
    let allowed := plan ++ (match clauseWhere c with | none => [] | some ws => ws.vars)
    match firstUnbound allowed (collectClauseHandles c) with
    | .error e => .error e
    | .ok _ => checkReferences plan cs

/-- `validate_plan` -/
def validatePlan (st : Plan) : Res :=
  if st.clauses.isEmpty then .error .emptyPlan
  else
    match validateClauses st.clauses with
    | .error e => .error e
    | .ok _ =>
      match planHandles st.clauses [] with
      | .error e => .error e
      | .ok hs => checkReferences hs st.clauses

/-- the `ExportCapsule` arm of `validate_command` -/
def validateExport (ws : WhereList) : Res :=
  match ws with
  | .nil => .error .emptyExport
  | _ => ws.validateExact

/-! ## ASSERT desugaring (`assert_statement`, `evidence_refs`) -/

/-- what the author wrote: `ASSERT [?h] (s, p, o) { members } [SUPERSEDING target]`; the tuple has
already passed `structural_tuple` (exact, non-variable predicate). -/
structure AssertSrc where
  handle : Option String
  subject : Term
  predicate : PredAtom
  object : Term
  members : Assignments
  superseding : Option ElementRef

inductive AssertErr where
  | unknownMember
  | missingBy
  | missingMode
  | badKey
  deriving DecidableEq, Repr

/-- the `lookup` closure -/
def lookupMember (name : String) : Assignments → Option MutationValue
  | [] => none
  | (k, v) :: rest => if k = name then some v else lookupMember name rest

/-- `evidence_refs` -/
def boundListToValues : BoundList → List MutationValue
  | .nil => []
  | .cons v t => MutationValue.ofBound v :: boundListToValues t

def evidenceRefs : MutationValue → List MutationValue
  | .arr items => boundListToValues items
  | .value l =>
    if l.kind = .arr then l.items.map (fun it => MutationValue.value { kind := it.1, repr := it.2 })
    else [.value l]
  | other => [other]

def supportLit : Lit := { kind := .str, repr := "support" }

/-- the `client_key` match of `assert_statement` -/
def assertClientKey : Option MutationValue → Except AssertErr (Option Scalar)
  | none => .ok none
  | some (.param n) => .ok (some (.param n))
  | some (.value l) =>
    match l.kind with
    | .str => .ok (some (.lit l))
    | .num => .ok (some (.lit l))
    | .bool => .ok (some (.lit l))
    | .null => .ok (some (.lit l))
    | .arr => .error .badKey
    | .obj => .error .badKey
  | some _ => .error .badKey

def optField (name : String) : Option MutationValue → Assignments
  | none => []
  | some v => [(name, v)]

def evidenceEdge (v : MutationValue) : StructuralEdge :=
  { field := .name "evidence", value := v,
    options := some (.cons "role" (.value supportLit) .nil) }

/-- the `set_fields` vector built inside the clause group -/
def assertSetFields (propositionHandle : String) (by_ mode : MutationValue) (members : Assignments) : Assignments :=
  [("proposition", .handle propositionHandle), ("asserted_by", by_), ("mode", mode),
   ("stance", (lookupMember "stance" members).getD (.value supportLit))]
    ++ optField "confidence" (lookupMember "confidence" members)
    ++ optField "asserted_at" (lookupMember "at" members)
    ++ optField "valid_time" (lookupMember "valid" members)

/-- the `edges` vector and `(!edges.is_empty()).then_some(edges)` -/
def assertEdges (members : Assignments) : Option (List StructuralEdge) :=
  let edges : List StructuralEdge :=
    match lookupMember "evidence" members with
    | none => []
    | some v => (evidenceRefs v).map evidenceEdge
  if edges.isEmpty then none else some edges

/-- the clause group built for the clause position `seq` -/
def assertClauses (src : AssertSrc) (seq : Nat) (by_ mode : MutationValue) (clientKey : Option Scalar) :
    List MutationClause :=
  let assertionHandle := src.handle.getD ("#assert" ++ toString seq)
  let propositionHandle := assertionHandle ++ "#proposition"
  let ensure : MutationClause := .ensureProposition
    { handle := some propositionHandle, subject := src.subject, predicate := src.predicate,
      object := src.object, expectVersion := false }
  let create : MutationClause := .createAssertion
    { handle := assertionHandle, clientKey := clientKey,
      setFields := some (assertSetFields propositionHandle by_ mode src.members),
      setFacets := [], setStructural := assertEdges src.members }
  let supersede : List MutationClause :=
    match src.superseding with
    | none => []
    | some target => [.supersedeAssertion
        { target := target, by_ := .handle assertionHandle, expectState := false }]
  [ensure, create] ++ supersede

/-- `assert_statement` after the tuple was read: member checks, then the clause group. -/
def desugarAssert (src : AssertSrc) (seq : Nat) : Except AssertErr (List MutationClause) :=
  if src.members.any (fun m => !KipGuardTables.assertMembers.contains m.1) then .error .unknownMember
  else
    match lookupMember "by" src.members with
    | none => .error .missingBy
    | some by_ =>
      match lookupMember "mode" src.members with
      | none => .error .missingMode
      | some mode =>
        match assertClientKey (lookupMember "key" src.members) with
        | .error e => .error e
        | .ok clientKey => .ok (assertClauses src seq by_ mode clientKey)

/-! ## The text-only lowering steps in front of the tree (`structural_tuple`, `ensure_proposition`,
`assert_statement`) -/

inductive TupleErr where
  | bareId
  | predPath
  | predVariable
  deriving DecidableEq, Repr

/-- `structural_tuple`: `(id: …)` only matches an existing Proposition and no structure can be
created from it; a predicate path and a `?variable` predicate are read-pattern syntax. -/
def structuralTuple : PropMatcher → Except TupleErr (Term × PredAtom × Term)
  | .id _ => .error .bareId
  | .tuple s pr o =>
    match pr with
    | .path _ => .error .predPath
    | .atom a =>
      match a with
      | .vari _ => .error .predVariable
      | _ => .ok (s, a, o)

/-- `ensure_proposition`: `ENSURE PROPOSITION [?h] <proposition expression> [EXPECT VERSION v]` -/
def lowerEnsure (handle : Option String) (m : PropMatcher) (expectVersion : Bool) : Except TupleErr MutationClause :=
  match structuralTuple m with
  | .error e => .error e
  | .ok (s, p, o) =>
    .ok (.ensureProposition { handle := handle, subject := s, predicate := p, object := o, expectVersion := expectVersion })

/-- `ASSERT [?h] <proposition expression> { members } [SUPERSEDING target]` as the grammar reads it -/
structure AssertText where
  handle : Option String
  matcher : PropMatcher
  members : Assignments
  superseding : Option ElementRef

inductive LowerErr where
  | tuple (e : TupleErr)
  | members (e : AssertErr)
  deriving DecidableEq, Repr

/-- `assert_statement`: the tuple goes through `structural_tuple` first, then the members -/
def lowerAssert (a : AssertText) (seq : Nat) : Except LowerErr (List MutationClause) :=
  match structuralTuple a.matcher with
  | .error e => .error (.tuple e)
  | .ok (s, p, o) =>
    match desugarAssert { handle := a.handle, subject := s, predicate := p, object := o,
                          members := a.members, superseding := a.superseding } seq with
    | .error e => .error (.members e)
    | .ok cs => .ok cs

/-! ## Entry points (`parser.rs`) -/

/-- `Command`, as far as `validate_command` looks at it -/
inductive Command where
  | kml (st : Plan)
  | exportCapsule (ws : WhereList)
  /-- KQL and every other META command -/
  | other

/-- `validate_command`: the route of a pre-parsed tree -/
def validateCommand : Command → Res
  | .kml st => validatePlan st
  | .exportCapsule ws => validateExport ws
  | .other => .ok ()

inductive ParseErr where
  | grammar
  | guard (e : Err)
  deriving DecidableEq, Repr

inductive RouteState where
  | start
  | parsed (cmd : Command)
  | failed (e : ParseErr)
  | returned (cmd : Command)

/-- one step of a `parse_*` entry point. The steps and their order are *generated* from `parser.rs`
(`Gen/KipGuardTables.parseKipOrder`): `budget` (the pre-scan, C15), `grammar` (not modelled: any
function from the input to an optional tree), `validate_command` / `validate_plan` (the guards, with
`?`: an error leaves), `return` (`Ok(command)`). -/
def routeStep {ι : Type} (grammar : ι → Option Command) (input : ι) (s : RouteState) (step : String) : RouteState :=
  match s with
  | .start =>
    if step = "grammar" then
      match grammar input with
      | none => .failed .grammar
      | some c => .parsed c
    else if step = "return" then .failed .grammar
    else .start
  | .parsed c =>
    if step = "validate_command" ∨ step = "validate_plan" then
      match validateCommand c with
      | .error e => .failed (.guard e)
      | .ok _ => .parsed c
    else if step = "return" then .returned c
    else .parsed c
  | .failed e => .failed e
  | .returned c => .returned c

def runRouteFrom {ι : Type} (s0 : RouteState) (order : List String) (grammar : ι → Option Command) (input : ι) :
    Except ParseErr Command :=
  match order.foldl (routeStep grammar input) s0 with
  | .returned c => .ok c
  | .failed e => .error e
  | _ => .error .grammar

def runRoute {ι : Type} (order : List String) (grammar : ι → Option Command) (input : ι) : Except ParseErr Command :=
  match order.foldl (routeStep grammar input) .start with
  | .returned c => .ok c
  | .failed e => .error e
  | _ => .error .grammar

/-- `parse_kip`: the route of text -/
def parseKip {ι : Type} (grammar : ι → Option Command) (input : ι) : Except ParseErr Command :=
  runRoute KipGuardTables.parseKipOrder grammar input

/-- `parse_kml` (its grammar yields a KML statement) -/
def parseKml {ι : Type} (grammar : ι → Option Plan) (input : ι) : Except ParseErr Command :=
  runRoute KipGuardTables.parseKmlOrder (fun i => (grammar i).map Command.kml) input

/-- what an `Operation` of a request carries -/
inductive OperationSrc (ι : Type) where
  | command (text : ι)
  | ast (cmd : Command)

/-- `Operation::parse` (request.rs): text goes through `parse_kip`; a pre-parsed `ast` skipped the
parser, so it goes through `validate_command` before it is cloned out (step order generated). -/
def operationParse {ι : Type} (grammar : ι → Option Command) : OperationSrc ι → Except ParseErr Command
  | .command text => parseKip grammar text
  | .ast cmd => runRouteFrom (.parsed cmd) KipGuardTables.operationAstOrder (fun (_ : Unit) => none) ()

end AndaVerif.KmlGuard
