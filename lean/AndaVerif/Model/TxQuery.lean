import AndaVerif.Model.Tx
/-
Historical candidates and graph walks over a *view* of the elements (C18).

A KQL read sees the elements through a view: the present (`fun i => visible (s.elems i)`) or a coordinate
(`fun i => (elementAt s.vlog i c).map (·.elem)`, `store/history.rs element_at / elements_at`). Every WHERE
form obtains its candidates from the view — for a read bound to a coordinate `Context::candidates` takes
them from `elements_at` and never from a present-day index (`Gen.QueryForms.historicalCandidatesFromVersionLog`)
— so **the candidates of a pattern at a coordinate are the elements whose version AT the coordinate
satisfies it**, whatever any later version says. This file spells that out for tuple patterns and for
hop-quantified path patterns `(?a, "p"{m,n}, ?b)` as a fold of one-hop neighbour steps.
-/
namespace AndaVerif.Tx

/-- what a read sees of each element -/
abbrev View := Id → Option Elem

/-- the candidates of an element pattern: the elements of the view, among `ids`, that satisfy `pat` -/
def candidates (v : View) (ids : List Id) (pat : Id → Elem → Bool) : List Id :=
  ids.filter (fun i => match v i with | some e => pat i e | none => false)

/-- the links a tuple pattern or a one-hop step can use: the Propositions that are **active in the view**,
with their tuples (`state == active`, subject / predicate / object all read from the view's row) -/
def linksOf (v : View) (ids : List Id) : List (Id × Nat × Id) :=
  ids.filterMap (fun i =>
    match v i with
    | some e => if e.state = .active then e.row.tup else none
    | none => none)

/-- one neighbour step: from every node of the frontier along a link with one of the predicates `ps`,
forwards (subject → object) or backwards -/
def hop (links : List (Id × Nat × Id)) (ps : List Nat) (fwd : Bool) (frontier : List Id) : List Id :=
  ((links.filter (fun t => ps.contains t.2.1 && frontier.contains (if fwd then t.1 else t.2.2))).map
    (fun t => if fwd then t.2.2 else t.1)).eraseDups

/-- the nodes exactly `k` hops from `start` -/
def level (links : List (Id × Nat × Id)) (ps : List Nat) (fwd : Bool) (start : Id) : Nat → List Id
  | 0 => [start]
  | k + 1 => hop links ps fwd (level links ps fwd start k)

/-- `(?a, "p"{m,n}, ?b)` from one start node: every node between `m` and `n` hops away (`n = none`:
no upper bound — a walk longer than the number of links repeats a link, so it is cut there) -/
def reach (links : List (Id × Nat × Id)) (ps : List Nat) (fwd : Bool) (m : Nat) (n : Option Nat) (start : Id) : List Id :=
  (((List.range ((n.getD links.length) + 1)).filter (fun k => m ≤ k)).flatMap (level links ps fwd start)).eraseDups

/-- the answer of a path pattern over a view: the `(start, reached)` pairs for every start node -/
def pathAnswer (v : View) (ids : List Id) (ps : List Nat) (fwd : Bool) (m : Nat) (n : Option Nat) (starts : List Id) :
    List (Id × Id) :=
  starts.flatMap (fun a => (reach (linksOf v ids) ps fwd m n a).map (fun b => (a, b)))

/-- the answer of a tuple pattern `?p PROPOSITION (?s, "p", ?o)` over a view -/
def tupleAnswer (v : View) (ids : List Id) (p : Nat) : List (Id × Id) :=
  ((linksOf v ids).filter (fun t => t.2.1 = p)).map (fun t => (t.1, t.2.2))

end AndaVerif.Tx
