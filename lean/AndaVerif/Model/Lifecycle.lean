import AndaVerif.Gen.Lifecycle
import AndaVerif.Gen.CollectionGuards
/-
C06 — model of the lifecycle / admission / cancellation mechanism of `anda_db::collection::Collection`.

Shared state of one collection handle: the `lifecycle` atomic, `read_only`, the database's
`read_only` flag, the `operation_gate` (tokio RwLock: who holds it), the set of objects stored under
the collection prefix and a log of every storage mutation (who, and the lifecycle value at the time).

Threads are the API calls in flight on that handle.  Every thread is a small state machine whose
steps are the *atomic* actions of the Rust code (one atomic load/CAS/store, one lock acquisition,
one backend call); schedules interleave the steps of all threads; cancelling (= dropping the future)
is possible at every step boundary and runs `CancelGuard::drop`, i.e. poisons iff the guard is armed.

  mutator   add / update / remove / save_extension / remove_extension / cleanup_removed_index (shared lease)
            flush / compact_* / reconcile_storage (exclusive gate; `flush` poisons on a body error):
              gate · ensure_mutable · cancel_guard · body … · disarm · [poison] · release
  closer    `Collection::close`
  dropper   `Collection::drop_data` (= `begin_delete` + exclusive gate + `Storage::drop_data`)
  setRo b   `Collection::set_read_only(b)`  (two loads, then the store: not atomic)
  dbSetRo b `AndaDB::set_read_only(b)` seen from this handle (store the db flag, then `set_read_only(b)`)

That the real methods have the mutator shape is not assumed: `GuardOK` below is evaluated over the
skeletons regenerated from the source (`Gen/CollectionGuards`), see `Props/C06.guard_before_first_effect`.
-/
namespace AndaVerif.Lifecycle
open AndaVerif.Gen

/-! ## lifecycle values -/

inductive L where
  | active | closing | closed | deleting | deleted | poisoned
  deriving DecidableEq, Repr

def L.code : L → Nat
  | .active => Lifecycle.lcActive
  | .closing => Lifecycle.lcClosing
  | .closed => Lifecycle.lcClosed
  | .deleting => Lifecycle.lcDeleting
  | .deleted => Lifecycle.lcDeleted
  | .poisoned => Lifecycle.lcPoisoned

def L.all : List L := [.active, .closing, .closed, .deleting, .deleted, .poisoned]

def L.name : L → String
  | .active => "active" | .closing => "closing" | .closed => "closed"
  | .deleting => "deleting" | .deleted => "deleted" | .poisoned => "poisoned"

/-- `Collection::poison`: CAS to POISONED from ACTIVE | CLOSING only. -/
def poisonL : L → L
  | .active => .poisoned
  | .closing => .poisoned
  | l => l

/-! ## threads -/

/-- one backend call of an operation body -/
inductive B where
  | rd                 -- a read (get / list / head): a suspension point without effect
  | put (o : Nat)      -- creates or overwrites object `o` under the collection prefix
  | del (o : Nat)      -- deletes object `o`
  | fail               -- the body returns `Err` here (after whatever it already did)
  | poison             -- the body itself calls `self.poison(..)` (add/update/remove on an unknown-outcome storage
                       -- failure); `flush_inner` never does (`Props/C06.close_body_never_poisons`)
  deriving DecidableEq, Repr

/-- how a call ended -/
inductive Res where
  | ok
  | rejState (l : L)   -- rejected by a lifecycle check; carries `CollectionStateError(l)`
  | rejRo              -- rejected: "Collection is read-only"
  | err                -- admitted, the body failed
  | ignored            -- `set_read_only(false)` refused
  deriving DecidableEq, Repr

/-- who made a storage mutation -/
inductive W where
  | mut | close | drop
  deriving DecidableEq, Repr

inductive Pc where
  -- guarded mutator
  | mStart | mLeased | mAdmitted | mBody (rest : List B) | mDisarmed (ok : Bool) | mRelease (ok : Bool)
  -- Collection::close
  | cStart | cPublished | cWaitGate | cGated | cArm | cBody (rest : List B) | cFailed | cStore | cRelease (ok : Bool)
  -- Collection::drop_data
  | dStart | dRo | dWaitGate | dGated | dDel (snap : List Nat) (rest : List B) | dStore | dRelease (ok : Bool)
  -- Collection::set_read_only(b)
  | rCheck (b : Bool) | rStore (b : Bool)
  -- AndaDB::set_read_only(b)
  | bStart (b : Bool)
  | done (r : Res)
  | dropped
  deriving DecidableEq, Repr

inductive Kind where
  | mutator (excl perr : Bool)
  | closer
  | dropper
  | setRo (b : Bool)
  | dbSetRo (b : Bool)
  deriving DecidableEq, Repr

structure Thread where
  /-- mutator only: takes the exclusive gate (flush, compact, reconcile) instead of a shared lease -/
  excl : Bool
  /-- mutator only: poisons the handle when the body fails (`flush`) -/
  perr : Bool
  body : List B
  pc : Pc
  deriving DecidableEq, Repr

def fresh : Kind → List B → Thread
  | .mutator e p, b => { excl := e, perr := p, body := b, pc := .mStart }
  | .closer, b => { excl := true, perr := false, body := b, pc := .cStart }
  | .dropper, b => { excl := true, perr := false, body := b, pc := .dStart }
  | .setRo v, b => { excl := false, perr := false, body := b, pc := .rCheck v }
  | .dbSetRo v, b => { excl := false, perr := false, body := b, pc := .bStart v }

def Thread.holdsExcl (t : Thread) : Bool :=
  match t.pc with
  | .mLeased | .mAdmitted | .mBody _ | .mDisarmed _ | .mRelease _ => t.excl
  | .cGated | .cArm | .cBody _ | .cFailed | .cStore | .cRelease _ => true
  | .dGated | .dDel _ _ | .dStore | .dRelease _ => true
  | _ => false

def Thread.holdsShared (t : Thread) : Bool :=
  match t.pc with
  | .mLeased | .mAdmitted | .mBody _ | .mDisarmed _ | .mRelease _ => !t.excl
  | _ => false

/-- the `CancelGuard` is armed -/
def Thread.armed (t : Thread) : Bool :=
  match t.pc with
  | .mBody _ | .cBody _ => true
  | _ => false

/-- passed its admission check and has not yet finished its body (mutator: `ensure_mutable` ok;
closer: the re-check under the exclusive gate saw CLOSING) -/
def Thread.bodyRegion (t : Thread) : Bool :=
  match t.pc with
  | .mAdmitted | .mBody _ | .cArm | .cBody _ | .cStore => true
  | _ => false

def Thread.dropRegion (t : Thread) : Bool :=
  match t.pc with
  | .dDel _ _ | .dStore => true
  | _ => false

/-- the closer between its re-check under the gate and `lifecycle.store(CLOSED)` -/
def Thread.closeRegion (t : Thread) : Bool :=
  match t.pc with
  | .cArm | .cBody _ | .cStore => true
  | _ => false

/-- a mutator inside its armed body -/
def Thread.mutBody (t : Thread) : Bool :=
  match t.pc with
  | .mBody _ => true
  | _ => false

/-- `begin_delete` has published DELETING (or found DELETING / DELETED) -/
def Thread.dropStarted (t : Thread) : Bool :=
  match t.pc with
  | .dRo | .dWaitGate | .dGated | .dDel _ _ | .dStore | .dRelease _ => true
  | _ => false

/-- has not started its body: nothing it does can have reached storage yet -/
def Thread.preBody (t : Thread) : Bool :=
  match t.pc with
  | .mStart | .mLeased | .mAdmitted | .cStart | .cPublished | .cWaitGate | .cGated | .cArm
  | .dStart | .dRo | .dWaitGate | .dGated | .rCheck _ | .rStore _ | .bStart _ => true
  | _ => false

/-- the body ran to its end (with either result): whatever it wrote is a complete effect -/
def Thread.postBody (t : Thread) : Bool :=
  match t.pc with
  | .mDisarmed _ | .mRelease _ | .cFailed | .cStore | .cRelease _ | .done _ | .dropped => true
  | _ => false

/-! ## shared state -/

structure Shared where
  lc : L
  ro : Bool
  dbRo : Bool
  /-- thread holding the exclusive `operation_gate` -/
  gateW : Option Nat
  /-- threads holding a shared lease -/
  gateR : List Nat
  /-- objects present under the collection prefix -/
  store : List Nat
  /-- every storage mutation so far: (thread, lifecycle value when it happened, kind of call), newest first -/
  log : List (Nat × L × W)
  deriving DecidableEq, Repr

def Shared.release (s : Shared) (i : Nat) : Shared :=
  { s with gateW := if s.gateW = some i then none else s.gateW, gateR := s.gateR.filter (· ≠ i) }

def Shared.putObj (s : Shared) (i : Nat) (w : W) (o : Nat) : Shared :=
  { s with store := o :: s.store.filter (· ≠ o), log := (i, s.lc, w) :: s.log }

def Shared.delObj (s : Shared) (i : Nat) (w : W) (o : Nat) : Shared :=
  { s with store := s.store.filter (· ≠ o), log := (i, s.lc, w) :: s.log }

/-- `ensure_mutable`: lifecycle first, then the two read-only flags -/
def ensureMutable (s : Shared) : Option Res :=
  if s.lc ≠ .active then some (.rejState s.lc)
  else if s.dbRo || s.ro then some .rejRo
  else none

/-- One atomic step of thread `i`; `none` = not enabled (waiting for the gate, finished, or a body the
operation cannot have). -/
def stepT (i : Nat) (s : Shared) (t : Thread) : Option (Shared × Thread) :=
  match t.pc with
  -- ---------------- guarded mutator
  | .mStart =>
      if t.excl then
        if s.gateW = none ∧ s.gateR = [] then some ({ s with gateW := some i }, { t with pc := .mLeased }) else none
      else
        if s.gateW = none then some ({ s with gateR := i :: s.gateR }, { t with pc := .mLeased }) else none
  | .mLeased =>
      match ensureMutable s with
      | some r => some (s.release i, { t with pc := .done r })
      | none => some (s, { t with pc := .mAdmitted })
  | .mAdmitted => some (s, { t with pc := .mBody t.body })
  | .mBody [] => some (s, { t with pc := .mDisarmed true })
  | .mBody (.rd :: r) => some (s, { t with pc := .mBody r })
  | .mBody (.put o :: r) => some (s.putObj i .mut o, { t with pc := .mBody r })
  | .mBody (.del o :: r) => some (s.delObj i .mut o, { t with pc := .mBody r })
  | .mBody (.fail :: _) => some (s, { t with pc := .mDisarmed false })
  | .mBody (.poison :: r) => some ({ s with lc := poisonL s.lc }, { t with pc := .mBody r })
  | .mDisarmed ok =>
      if !ok && t.perr then some ({ s with lc := poisonL s.lc }, { t with pc := .mRelease ok })
      else some (s, { t with pc := .mRelease ok })
  | .mRelease ok => some (s.release i, { t with pc := .done (if ok then .ok else .err) })
  -- ---------------- close
  | .cStart =>
      match s.lc with
      | .active => some ({ s with lc := .closing }, { t with pc := .cPublished })
      | .closing => some (s, { t with pc := .cPublished })
      | .closed | .deleted => some (s, { t with pc := .done .ok })
      | l => some (s, { t with pc := .done (.rejState l) })
  | .cPublished => some ({ s with ro := true }, { t with pc := .cWaitGate })
  | .cWaitGate =>
      if s.gateW = none ∧ s.gateR = [] then some ({ s with gateW := some i }, { t with pc := .cGated }) else none
  | .cGated =>
      match s.lc with
      | .closed | .deleted => some (s.release i, { t with pc := .done .ok })
      | .closing => some (s, { t with pc := .cArm })
      | l => some (s.release i, { t with pc := .done (.rejState l) })
  | .cArm => some (s, { t with pc := .cBody t.body })
  | .cBody [] => some (s, { t with pc := .cStore })
  | .cBody (.rd :: r) => some (s, { t with pc := .cBody r })
  | .cBody (.put o :: r) => some (s.putObj i .close o, { t with pc := .cBody r })
  | .cBody (.del o :: r) => some (s.delObj i .close o, { t with pc := .cBody r })
  | .cBody (.fail :: _) => some (s, { t with pc := .cFailed })
  | .cBody (.poison :: _) => none
  | .cFailed => some ({ s with lc := poisonL s.lc }, { t with pc := .cRelease false })
  | .cStore => some ({ s with lc := .closed }, { t with pc := .cRelease true })
  | .cRelease ok => some (s.release i, { t with pc := .done (if ok then .ok else .err) })
  -- ---------------- drop_data
  | .dStart =>
      match s.lc with
      | .deleted | .deleting => some (s, { t with pc := .dRo })
      | _ => some ({ s with lc := .deleting }, { t with pc := .dRo })
  | .dRo => some ({ s with ro := true }, { t with pc := .dWaitGate })
  | .dWaitGate =>
      if s.gateW = none ∧ s.gateR = [] then some ({ s with gateW := some i }, { t with pc := .dGated }) else none
  | .dGated =>
      if s.lc = .deleted then some (s.release i, { t with pc := .done .ok })
      else some (s, { t with pc := .dDel s.store t.body })
  | .dDel snap [] => if snap = [] then some (s, { t with pc := .dStore }) else none
  | .dDel snap (.rd :: r) => some (s, { t with pc := .dDel snap r })
  | .dDel snap (.del o :: r) =>
      if o ∈ snap then some (s.delObj i .drop o, { t with pc := .dDel (snap.filter (· ≠ o)) r }) else none
  | .dDel _ (.put _ :: _) => none
  | .dDel _ (.poison :: _) => none
  | .dDel _ (.fail :: _) => some (s, { t with pc := .dRelease false })
  | .dStore => some ({ s with lc := .deleted }, { t with pc := .dRelease true })
  | .dRelease ok => some (s.release i, { t with pc := .done (if ok then .ok else .err) })
  -- ---------------- set_read_only
  | .rCheck b =>
      if !b && (s.lc ≠ .active || s.dbRo) then some (s, { t with pc := .done .ignored })
      else some (s, { t with pc := .rStore b })
  | .rStore b => some ({ s with ro := b }, { t with pc := .done .ok })
  | .bStart b => some ({ s with dbRo := b }, { t with pc := .rCheck b })
  | .done _ => none
  | .dropped => none

/-- Dropping the future of thread `i`: `CancelGuard::drop` (poison iff armed), then the gate guard. -/
def cancelT (i : Nat) (s : Shared) (t : Thread) : Shared × Thread :=
  match t.pc with
  | .done _ => (s, t)
  | .dropped => (s, t)
  | _ =>
      let s1 := if t.armed then { s with lc := poisonL s.lc } else s
      (s1.release i, { t with pc := .dropped })

/-! ## configurations, events, runs -/

structure Cfg where
  s : Shared
  ts : List Thread
  deriving Repr

inductive Ev where
  | spawn (k : Kind) (body : List B)
  | step (i : Nat)
  | cancel (i : Nat)
  deriving DecidableEq, Repr

def Cfg.apply (c : Cfg) : Ev → Cfg
  | .spawn k b => { c with ts := c.ts ++ [fresh k b] }
  | .step i =>
      match c.ts[i]? with
      | none => c
      | some t =>
          match stepT i c.s t with
          | none => c
          | some (s', t') => { s := s', ts := c.ts.set i t' }
  | .cancel i =>
      match c.ts[i]? with
      | none => c
      | some t => let r := cancelT i c.s t; { s := r.1, ts := c.ts.set i r.2 }

def Cfg.run (c : Cfg) (evs : List Ev) : Cfg := evs.foldl Cfg.apply c

/-- a freshly created / opened handle over a prefix holding `store` -/
def init (store : List Nat) : Cfg :=
  { s := { lc := .active, ro := false, dbRo := false, gateW := none, gateR := [], store := store, log := [] }, ts := [] }

/-- the handle currently refuses admission -/
def Shared.blocked (s : Shared) : Bool := s.lc != .active || s.ro || s.dbRo

/-- number of log entries made by thread `i` -/
def writesBy (i : Nat) (log : List (Nat × L × W)) : Nat := (log.filter (fun e => e.1 == i)).length

/-! ## guard skeletons (evaluated over `Gen/CollectionGuards`) -/

open CollectionGuards in
def lookup (name : String) : Option Method := methods.find? (fun m => m.name == name)

open CollectionGuards in
/-- strict shape of a self-guarded `&self` method:
`gate · ensure_mutable? · cancel_guard · (mutations / awaits)* · disarm · poison*`
— nothing that can suspend or mutate before the guard is armed, nothing after it is disarmed. Markers
that neither suspend nor write (`lcLoad`) are skipped. States: 0 start, 1 gated, 2 admitted, 3 armed,
4 disarmed. -/
def guardAuto : Nat → List Mk → Bool
  | st, [] => st == 4
  | st, .lcLoad :: r => guardAuto st r
  | 0, .gateRead :: r => guardAuto 1 r
  | 0, .gateWrite :: r => guardAuto 1 r
  | 1, .ensureMutable :: r => guardAuto 2 r
  | 2, .cancelGuard :: r => guardAuto 3 r
  | 3, .mut :: r => guardAuto 3 r
  | 3, .call _ :: r => guardAuto 3 r
  | 3, .awaitPt :: r => guardAuto 3 r
  | 3, .poison :: r => guardAuto 3 r
  | 3, .disarm :: r => guardAuto 4 r
  | 4, .poison :: r => guardAuto 4 r
  | _, _ => false

def GuardOK (skel : List CollectionGuards.Mk) : Bool := guardAuto 0 skel

/-- the skeleton without the markers that neither suspend nor write -/
def strip (l : List CollectionGuards.Mk) : List CollectionGuards.Mk := l.filter (· ≠ .lcLoad)

/-- markers allowed between arming and disarming -/
def isBodyMk : CollectionGuards.Mk → Bool
  | .mut | .call _ | .awaitPt | .poison => true
  | _ => false

open CollectionGuards in
/-- the callee is a method that takes the gate, checks and arms by itself -/
def selfGuarded (name : String) : Bool :=
  match lookup name with
  | some m => GuardOK m.skel || name == "close" || name == "drop_data"
  | none => false

open CollectionGuards in
/-- a wrapper: its only way to storage is calling self-guarded methods -/
def Delegates (skel : List Mk) : Bool :=
  skel.all (fun k => match k with
    | .mut => false
    | .call c => selfGuarded c
    | .cancelGuard | .disarm | .gateRead | .gateWrite => false
    | _ => true)

open CollectionGuards in
/-- `&mut self` methods (only callable inside the create/open callback): `ensure_mutable()?` comes
before the first mutation / await -/
def MutRecvOK : List Mk → Bool
  | [] => true
  | .ensureMutable :: _ => true
  | .lcLoad :: r => MutRecvOK r
  | _ => false

open CollectionGuards in
/-- a `&mut self` wrapper (`create_*_index_nx`): only calls `&mut self` methods that check first, or
self-guarded methods -/
def DelegatesMut (skel : List Mk) : Bool :=
  skel.all (fun k => match k with
    | .mut => false
    | .call c => selfGuarded c || (match lookup c with | some m => m.recv == .excl && MutRecvOK m.skel | none => false)
    | .cancelGuard | .disarm | .gateRead | .gateWrite => false
    | _ => true)

/-- the shape `Collection::close` must have for the `closer` machine to be its abstraction:
`load* · CAS · read_only.store · exclusive gate · load+ (the re-check) · cancel_guard · (mutations | awaits)* · disarm ·
{lifecycle.store, poison}` — no `poison` while armed, nothing that suspends or writes outside the armed region.
States: 0 start, 1 CAS done, 2 read-only published, 3 gate held, 4 re-checked, 5 armed, 6 disarmed,
7 stored, 8 poison seen, 9 both outcomes present. -/
def closeAuto : Nat → List CollectionGuards.Mk → Bool
  | st, [] => st == 9
  | 0, .lcLoad :: r => closeAuto 0 r
  | 0, .lcCas :: r => closeAuto 1 r
  | 1, .lcLoad :: r => closeAuto 1 r
  | 1, .roStore :: r => closeAuto 2 r
  | 2, .gateWrite :: r => closeAuto 3 r
  | 3, .lcLoad :: r => closeAuto 4 r
  | 4, .lcLoad :: r => closeAuto 4 r
  | 4, .cancelGuard :: r => closeAuto 5 r
  | 5, .mut :: r => closeAuto 5 r
  | 5, .awaitPt :: r => closeAuto 5 r
  | 5, .call _ :: r => closeAuto 5 r
  | 5, .disarm :: r => closeAuto 6 r
  | 6, .lcStore :: r => closeAuto 7 r
  | 6, .poison :: r => closeAuto 8 r
  | 7, .poison :: r => closeAuto 9 r
  | 8, .lcStore :: r => closeAuto 9 r
  | _, _ => false

def CloseOK (skel : List CollectionGuards.Mk) : Bool := closeAuto 0 skel

/-- … and `Collection::drop_data` / `begin_delete` for the `dropper` machine (runs of body markers are generated
as sorted sets, consecutive loads as one) -/
def dropSkeleton : List CollectionGuards.Mk :=
  [.beginDelete, .gateWrite, .lcLoad, .mut, .awaitPt, .lcStore]
def beginDeleteSkeleton : List CollectionGuards.Mk := [.lcLoad, .lcCas, .roStore]

/-- the markers between `cancel_guard` and `disarm` -/
def armedRegion (skel : List CollectionGuards.Mk) : List CollectionGuards.Mk :=
  ((skel.dropWhile (· ≠ .cancelGuard)).drop 1).takeWhile (· ≠ .disarm)

open CollectionGuards in
/-- the obligation on one generated method (`pub` / `pub(crate)`; private helpers are inlined into these
skeletons by the generator, so a helper that writes is checked at every place it is reached from) -/
def methodOK (m : Method) : Bool :=
  if !m.reaches then true
  else match m.recv with
    | .shared =>
        if m.name == "close" then CloseOK m.skel
        else if m.name == "drop_data" then m.skel == dropSkeleton
        else GuardOK m.skel || Delegates m.skel
    | .excl => MutRecvOK m.skel || DelegatesMut m.skel
    | .none => true     -- constructors `create` / `open`: no handle exists yet
    | .owned => false

/-! ## database-level marker order (evaluated over `Gen/Lifecycle.db_*`) -/

def idxOf (m : String) (l : List String) : Nat := l.findIdx (· == m)
def lastIdxOf (m : String) (l : List String) : Nat := l.length - 1 - l.reverse.findIdx (· == m)

/-- every marker of `ms` occurs, and their first occurrences are in this order -/
def inOrder (ms : List String) (l : List String) : Bool :=
  ms.all (fun m => l.contains m) && (ms.map (fun m => idxOf m l)).Pairwise (· < ·)

end AndaVerif.Lifecycle
