import AndaVerif.Model.Bm25
/-
The durable side of `BM25Index` (rs/anda_db_tfs/src/bm25.rs: `flush_with`, `load_metadata`,
`load_buckets`).

* `Durable`     what the caller's object store holds: immutable bucket objects keyed by
                `(bucket_id, generation)` and one metadata blob carrying the manifest.
* `Payload`     a decoded bucket object `BucketOwned { p: token ↦ (bucket, entries), d: id ↦ length }`
                (the stored bucket number is overwritten by the loader and is not represented).
* `Write`       one backend mutation of a flush: bucket PUT, the metadata PUT (the commit point),
                a best-effort DELETE of an object listed in `FlushOutcome::obsolete`.
* `referenced`  the objects `load_buckets` asks for: the manifest (ascending bucket id), or — manifest
                empty — the legacy probe `(0,0) … (max_bucket_id,0)`.
* `load`        `load_all` as far as contents go: gather `d` of every present referenced object
                (a later object overrides a length), a later object's posting for a token replaces
                an earlier one (higher bucket wins); then prune every posting entry whose document
                has no length anywhere, drop postings emptied by the pruning, keep a length only
                for documents some surviving entry mentions, recompute `total_tokens`.
* `flushShape`  the decidable shape of a flush write sequence that the crash theorem needs:
                bucket PUTs that hit nothing the committed metadata references, then the metadata
                PUT, then DELETEs that hit nothing the new metadata references. The driver checks it
                on every write sequence the real `flush_with` produced.
-/
namespace AndaVerif
namespace Bm25

abbrev Obj := Nat × Nat

structure Payload where
  postings : Postings
  docs : List (Nat × Nat)
  deriving DecidableEq, Repr

structure Meta where
  version : Nat
  maxBucket : Nat
  manifest : List (Nat × Nat)
  deriving DecidableEq, Repr

structure Durable where
  objs : List (Obj × Payload)
  md : Option Meta
  deriving Repr

def Durable.empty : Durable := { objs := [], md := none }

inductive Write where
  | putObj (o : Obj) (p : Payload)
  | putMeta (m : Meta)
  | delObj (o : Obj)
  deriving Repr

def getObj : List (Obj × Payload) → Obj → Option Payload
  | [], _ => none
  | (o', p) :: r, o => if o' = o then some p else getObj r o

def dropObj (objs : List (Obj × Payload)) (o : Obj) : List (Obj × Payload) :=
  objs.filter (fun e => !(e.1 == o))

def Durable.apply (D : Durable) : Write → Durable
  | .putObj o p => { D with objs := (o, p) :: dropObj D.objs o }
  | .putMeta m => { D with md := some m }
  | .delObj o => { D with objs := dropObj D.objs o }

def applyAll (D : Durable) : List Write → Durable
  | [] => D
  | w :: ws => applyAll (D.apply w) ws

/-- what `load_buckets` asks the store for, in order -/
def referenced (m : Meta) : List Obj :=
  if Gen.Bm25Order.legacyWhenManifestEmpty && m.manifest.isEmpty then
    (List.range (m.maxBucket + 1)).map (fun i => (i, 0))
  else m.manifest

/-- `map.insert(k, v)` on an association list (replace in place, else append) -/
def setKey {α : Type} : List (Nat × α) → Nat → α → List (Nat × α)
  | [], k, v => [(k, v)]
  | (k', v') :: m, k, v => if k' = k then (k', v) :: m else (k', v') :: setKey m k v

def setAll {α : Type} (m : List (Nat × α)) : List (Nat × α) → List (Nat × α)
  | [] => m
  | (k, v) :: r => setAll (setKey m k v) r

/-- first loop of `load_buckets`: the raw union of the referenced objects that are present -/
def gather (objs : List (Obj × Payload)) : List Obj → Postings × List (Nat × Nat) → Postings × List (Nat × Nat)
  | [], acc => acc
  | o :: os, acc =>
    match getObj objs o with
    | none => gather objs os acc
    | some p => gather objs os (setAll acc.1 p.postings, setAll acc.2 p.docs)

/-- second loop: prune entries without a length; a posting emptied by the pruning disappears -/
def prunePosting (lens : List (Nat × Nat)) (p : Nat × Entries) : Option (Nat × Entries) :=
  keepPruned p (p.2.filter (fun e => hasKey lens e.1))

def mentioned (ps : Postings) : List Nat := dedup (ps.flatMap (fun p => p.2.map (·.1)))

/-- `load_all`; no metadata at all = nothing was ever committed = a new empty index -/
def load (D : Durable) : Index :=
  match D.md with
  | none => Index.empty
  | some m =>
    let raw := gather D.objs (referenced m) ([], [])
    let ps := raw.1.filterMap (prunePosting raw.2)
    let docs := (mentioned ps).filterMap (fun i => (get? raw.2 i).map (fun n => (i, n)))
    { docTokens := docs, postings := ps, totalTokens := sumSnd docs }

/-! ### shape of a flush -/

def isPutObjOutside (refs : List Obj) : Write → Bool
  | .putObj o _ => !refs.contains o
  | _ => false

def isDelOutside (refs : List Obj) : Write → Bool
  | .delObj o => !refs.contains o
  | _ => false

def committedRefs (D : Durable) : List Obj :=
  match D.md with
  | none => []
  | some m => referenced m

/-- `ws = puts ++ putMeta m :: dels` at the first metadata PUT -/
def splitCommit : List Write → Option (List Write × Meta × List Write)
  | [] => none
  | .putMeta m :: r => some ([], m, r)
  | w :: r =>
    match splitCommit r with
    | some (a, m, b) => some (w :: a, m, b)
    | none => none

/-- `ws = puts ++ putMeta m :: dels` with the puts outside what `D` references and the dels outside
what `m` references; or `ws = []` (nothing to save). -/
def flushShape (D : Durable) (ws : List Write) : Bool :=
  match ws with
  | [] => true
  | _ =>
    match splitCommit ws with
    | none => false
    | some (puts, m, dels) =>
      puts.all (isPutObjOutside (committedRefs D)) && dels.all (isDelOutside (referenced m))

/-- number of writes up to and including the metadata PUT (`1` for the empty sequence) -/
def commitLen (ws : List Write) : Nat :=
  match splitCommit ws with
  | some (puts, _, _) => puts.length + 1
  | none => ws.length + 1

/-- the write sequence `flush_with` issues for the bucket payloads `puts` and the metadata `m`, in the
order regenerated from the source (`Gen/Bm25Order.flushOrder`; the in-memory publication steps issue
no write) -/
def arrange (order : List Gen.Bm25Order.FlushStep) (puts : List Write) (m : Meta) : List Write :=
  match order with
  | [] => []
  | .bucketWrites :: r => puts ++ arrange r puts m
  | .metaCommit :: r => .putMeta m :: arrange r puts m
  | _ :: r => arrange r puts m

/-! ### further facts the code establishes about a flush (checked on every observed flush) -/

def putGens : List Write → List Nat
  | [] => []
  | .putObj o _ :: ws => o.2 :: putGens ws
  | _ :: ws => putGens ws

def putBuckets : List Write → List Nat
  | [] => []
  | .putObj o _ :: ws => o.1 :: putBuckets ws
  | _ :: ws => putBuckets ws

def metaOf : List Write → Option Meta
  | [] => none
  | .putMeta m :: _ => some m
  | _ :: ws => metaOf ws

def ascending : List Nat → Bool
  | a :: b :: r => decide (a < b) && ascending (b :: r)
  | _ => true

/-- one fresh generation = the new metadata version, above every committed generation; ascending
bucket ids; every written object is referenced by the new manifest; every manifest entry is either
written by this flush or carried over unchanged from the committed manifest. -/
def flushStrict (D : Durable) (ws : List Write) : Bool :=
  match metaOf ws with
  | none => ws.isEmpty
  | some m =>
    let old := match D.md with | none => [] | some m0 => m0.manifest
    (putGens ws).all (· == m.version)
    && old.all (fun e => decide (e.2 < m.version))
    && ascending (putBuckets ws)
    && (putBuckets ws).all (fun b => m.manifest.contains (b, m.version))
    && m.manifest.all (fun e => (e.2 == m.version && (putBuckets ws).contains e.1) || old.contains e)

/-! ### what a query can see of an index -/

/-- per token the ids a term query returns (ascending would need a sort; kept in posting order,
duplicate-free), tokens without a valid id dropped -/
def visible (s : Index) : List (Nat × List Nat) :=
  s.postings.filterMap (fun p => let v := validIds s p.2; if v.isEmpty then none else some (p.1, v))

end Bm25
end AndaVerif
