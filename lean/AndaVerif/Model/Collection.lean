/-
Model of `Collection`'s document/index maintenance (properties C02 and C04).

What is mirrored (rs/anda_db/src/collection.rs, index/mod.rs, index/btree.rs, index/bm25.rs,
anda_db_btree/src/btree.rs, anda_db_tfs/src/bm25.rs, anda_db_hnsw/src/hnsw.rs):

* `IndexHooks` default value derivation (`valueOf`, `textOf`, `vecOf`): absent / `Null` skipped,
  array → elements, map → keys, multi-field → one tuple key that is always present;
* the B-tree crate's `insert` / `remove` / `insert_array` (pre-check, then inserts) / `remove_array`
  / `batch_update` (set differences, insert first, remove second) over a posting relation,
  with the `allow_duplicates = false` conflict rule "another id already owns the key";
* the wrapper's `BTree::insert` / `remove` / `update` dispatch (`values_equal`, `Null → x`,
  `x → Null`, array/array, otherwise `insert(new)?; remove(old)`);
* BM25 `insert` (no tokens ⇒ ignored, id already present ⇒ AlreadyExists) / `remove`;
  HNSW `insert` (dimension check, id already present ⇒ AlreadyExists) / `remove`;
* `add_impl`, `update_impl`, `remove_impl`: validation, id allocation (an id is consumed by a
  failed add), the index phases in the code's order (B-tree, BM25, HNSW), the rollback sets
  (`btree_inserted` contains the failing index, `btree_updated` does not), rollback by
  `update(new → old)`, poison-on-failed-restore, "only indexes whose fields intersect the updated
  fields are refreshed";
* index creation with backfill over the live documents in ascending id order, registration only
  after a complete backfill, unique / multi-field indexes registered at position 0;
* index removal; `reopen` (clean close + open): the registry is rebuilt in name order with unique
  indexes moved to the front (`load_indexes`).

Abstractions: a key is an integer (text keys are interned by the harness) or a tuple of field
values (the canonical-CBOR concatenation is assumed injective on tuples of a fixed length); a text
is its token list; a vector is its dimension; storage is a total map id ↦ document whose calls do
not fail (InMemory) — crash / unknown-outcome branches are C01/C06.
No imports: core Lean only.
-/
namespace AndaVerif.Collection

inductive Err where
  | invalid | exists | notFound | index | generic | state
  deriving DecidableEq, Repr

inductive FVal where
  | null
  | int (k : Int)
  | arr (ks : List Int)
  | map (ks : List Int)
  | text (ws : List Nat)
  | vec (dim : Nat)
  deriving DecidableEq, Repr, Inhabited

inductive Kind where
  | int | arr | map | text | vec
  deriving DecidableEq, Repr

structure FieldDef where
  kind : Kind
  opt : Bool
  /-- `FieldEntry::unique` (`#[unique]`) -/
  unique : Bool
  deriving DecidableEq, Repr

/-- `FieldEntry::validate`: `Null` only for `Option` types, otherwise the declared variant. -/
def kindOk (fd : FieldDef) : FVal → Bool
  | .null => fd.opt
  | .int _ => fd.kind == .int
  | .arr _ => fd.kind == .arr
  | .map _ => fd.kind == .map
  | .text _ => fd.kind == .text
  | .vec _ => fd.kind == .vec

/-- field number ↦ value; a field that is not listed is absent. -/
def lookupF (d : List (Nat × FVal)) (f : Nat) : Option FVal :=
  match d with
  | [] => none
  | (g, v) :: r => if g = f then some v else lookupF r f

/-- `Document::get_field(..)` with absent read as `Null` (every consumer below treats them alike). -/
def getF (d : List (Nat × FVal)) (f : Nat) : FVal :=
  match lookupF d f with
  | some v => v
  | none => .null

def setF (d : List (Nat × FVal)) (f : Nat) (v : FVal) : List (Nat × FVal) :=
  (f, v) :: d.filter (fun p => p.1 != f)

def lookupS (s : List (Nat × FieldDef)) (f : Nat) : Option FieldDef :=
  match s with
  | [] => none
  | (g, fd) :: r => if g = f then some fd else lookupS r f

/-- `Schema::validate`: no undeclared field, every declared field well-typed, required ones present. -/
def validate (schema : List (Nat × FieldDef)) (d : List (Nat × FVal)) : Bool :=
  d.all (fun p => (lookupS schema p.1).isSome) && schema.all (fun p => kindOk p.2 (getF d p.1))

-- ------------------------------------------------------------------------------------------
-- B-tree postings
-- ------------------------------------------------------------------------------------------

inductive Key where
  | s (k : Int)
  | t (vs : List FVal)
  deriving DecidableEq, Repr

/-- What `btree_index_value(..).unwrap_or(Null)` is to `BTree::insert/remove/update`. -/
inductive IVal where
  | null
  | one (k : Key)
  | many (ks : List Key)
  deriving DecidableEq, Repr

def IVal.keys : IVal → List Key
  | .null => []
  | .one k => [k]
  | .many ks => ks

structure BtDef where
  /-- rank of the index name in the registry's (`BTreeMap<String, _>`) order -/
  name : Nat
  fields : List Nat
  unique : Bool
  deriving DecidableEq, Repr

/-- `IndexHooks::btree_index_value` (default hooks). -/
def valueOf (df : BtDef) (d : List (Nat × FVal)) : IVal :=
  match df.fields with
  | [] => .null
  | [f] =>
    match getF d f with
    | .int k => .one (.s k)
    | .arr ks => .many (ks.map .s)
    | .map ks => .many (ks.map .s)
    | _ => .null
  | fs => .one (.t (fs.map (getF d)))

/-- another id owns `k` -/
def conflict (r : List (Key × Nat)) (id : Nat) (k : Key) : Bool :=
  r.any (fun p => p.1 == k && p.2 != id)

def addPair (r : List (Key × Nat)) (id : Nat) (k : Key) : List (Key × Nat) :=
  if r.contains (k, id) then r else r ++ [(k, id)]

/-- `BTreeIndex::insert` -/
def relInsert (u : Bool) (r : List (Key × Nat)) (id : Nat) (k : Key) : Except Err (List (Key × Nat)) :=
  if u && conflict r id k then .error .exists else .ok (addPair r id k)

/-- `BTreeIndex::remove` -/
def relRemove (r : List (Key × Nat)) (id : Nat) (k : Key) : List (Key × Nat) :=
  r.filter (fun p => !(p.1 == k && p.2 == id))

/-- `BTreeIndex::insert_array`: uniqueness pre-check over all values before any mutation. -/
def relInsertArray (u : Bool) (r : List (Key × Nat)) (id : Nat) (ks : List Key) : Except Err (List (Key × Nat)) :=
  if u && ks.any (conflict r id) then .error .exists else .ok (ks.foldl (fun r k => addPair r id k) r)

/-- `BTreeIndex::remove_array` -/
def relRemoveArray (r : List (Key × Nat)) (id : Nat) (ks : List Key) : List (Key × Nat) :=
  r.filter (fun p => !(p.2 == id && ks.contains p.1))

/-- `BTreeIndex::batch_update`: insert `new \ old` (may fail, nothing changed), then remove `old \ new`. -/
def relBatchUpdate (u : Bool) (r : List (Key × Nat)) (id : Nat) (old new : List Key) : Except Err (List (Key × Nat)) :=
  let toIns := new.filter (fun k => !old.contains k)
  let toRem := old.filter (fun k => !new.contains k)
  match (if toIns.isEmpty then .ok r else relInsertArray u r id toIns) with
  | .error e => .error e
  | .ok r' => .ok (if toRem.isEmpty then r' else relRemoveArray r' id toRem)

/-- `BTree::insert` (wrapper) -/
def btInsert (u : Bool) (r : List (Key × Nat)) (id : Nat) : IVal → Except Err (List (Key × Nat))
  | .null => .ok r
  | .one k => relInsert u r id k
  | .many ks => if ks.isEmpty then .ok r else relInsertArray u r id ks

/-- `BTree::remove` (wrapper) -/
def btRemove (r : List (Key × Nat)) (id : Nat) : IVal → List (Key × Nat)
  | .null => r
  | .one k => relRemove r id k
  | .many ks => relRemoveArray r id ks

/-- `BTree::update` (wrapper) -/
def btUpdate (u : Bool) (r : List (Key × Nat)) (id : Nat) (old new : IVal) : Except Err (List (Key × Nat)) :=
  if old = new then .ok r
  else
    match old, new with
    | .null, n => btInsert u r id n
    | o, .null => .ok (btRemove r id o)
    | .many o, .many n => relBatchUpdate u r id o n
    | o, n =>
      match btInsert u r id n with
      | .error e => .error e
      | .ok r' => .ok (btRemove r' id o)

-- ------------------------------------------------------------------------------------------
-- BM25 and HNSW
-- ------------------------------------------------------------------------------------------

structure Tx where
  fields : List Nat
  /-- `doc_tokens` keys -/
  docs : List Nat
  /-- (token, id) -/
  post : List (Nat × Nat)
  deriving DecidableEq, Repr

def fragOf (d : List (Nat × FVal)) (f : Nat) : Option (List Nat) :=
  match getF d f with
  | .text ws => some ws
  | _ => none

/-- `IndexHooks::bm25_index_value`: `None` when no configured field carries a text. -/
def textOf (fields : List Nat) (d : List (Nat × FVal)) : Option (List Nat) :=
  let frags := fields.filterMap (fragOf d)
  if frags.isEmpty then none else some frags.flatten

def addTok (p : List (Nat × Nat)) (id : Nat) (w : Nat) : List (Nat × Nat) :=
  if p.contains (w, id) then p else p ++ [(w, id)]

/-- `BM25::insert` (wrapper: `TokenizeFailed` is ignored) -/
def txInsert (t : Tx) (id : Nat) (ws : List Nat) : Except Err Tx :=
  if ws.isEmpty then .ok t
  else if t.docs.contains id then .error .exists
  else .ok { t with docs := id :: t.docs, post := ws.foldl (fun p w => addTok p id w) t.post }

/-- `BM25::remove` -/
def txRemove (t : Tx) (id : Nat) (ws : List Nat) : Tx :=
  { t with docs := t.docs.filter (fun i => i != id), post := t.post.filter (fun p => !(p.2 == id && ws.contains p.1)) }

/-- remove what the hook returned for the document, if it returned anything -/
def txRemoveO (t : Tx) (id : Nat) : Option (List Nat) → Tx
  | none => t
  | some ws => txRemove t id ws

def txInsertO (t : Tx) (id : Nat) : Option (List Nat) → Except Err Tx
  | none => .ok t
  | some ws => txInsert t id ws

structure Hn where
  field : Nat
  dim : Nat
  ids : List Nat
  deriving DecidableEq, Repr

/-- `IndexHooks::hnsw_index_value` -/
def vecOf (field : Nat) (d : List (Nat × FVal)) : Option Nat :=
  match getF d field with
  | .vec n => some n
  | _ => none

/-- `Hnsw::insert` -/
def hnInsert (h : Hn) (id : Nat) (n : Nat) : Except Err Hn :=
  if n != h.dim then .error .index
  else if h.ids.contains id then .error .exists
  else .ok { h with ids := id :: h.ids }

/-- `Hnsw::remove` -/
def hnRemove (h : Hn) (id : Nat) : Hn :=
  { h with ids := h.ids.filter (fun i => i != id) }

def hnRemoveO (h : Hn) (id : Nat) : Option Nat → Hn
  | none => h
  | some _ => hnRemove h id

def hnInsertO (h : Hn) (id : Nat) : Option Nat → Except Err Hn
  | none => .ok h
  | some n => hnInsert h id n

-- ------------------------------------------------------------------------------------------
-- index phases with rollback
-- ------------------------------------------------------------------------------------------

/-- Result of one index's forward step. On an error `res` is the index after *its own* share of
the rollback, `restored = false` when that restore failed. -/
structure Fwd (α : Type) where
  res : α
  err : Option Err
  restored : Bool

/-- Walk one index family in registry order; stop at the first failing index; undo (`back`) the
indexes already changed. The undo of one index never touches another index, so folding it into
the recursion is the same as the code's separate rollback closure over the recorded set. -/
def phase {α : Type} (fwd : α → Fwd α) (back : α → α × Bool) : List α → List α × Option Err × Bool
  | [] => ([], none, true)
  | x :: rest =>
    let f := fwd x
    match f.err with
    | some e => (f.res :: rest, some e, f.restored)
    | none =>
      match phase fwd back rest with
      | (rest', none, _) => (f.res :: rest', none, true)
      | (rest', some e, ok) =>
        let b := back f.res
        (b.1 :: rest', some e, ok && b.2)

/-- Rollback of a family whose forward phase completed. -/
def backAll {α : Type} (back : α → α × Bool) (l : List α) : List α × Bool :=
  (l.map (fun x => (back x).1), l.all (fun x => (back x).2))

structure Idx where
  bt : List (BtDef × List (Key × Nat))
  tx : List Tx
  hn : List Hn

/-- B-tree, then BM25, then HNSW; a later family's failure rolls the earlier families back. -/
def phases (ix : Idx)
    (fB : BtDef × List (Key × Nat) → Fwd (BtDef × List (Key × Nat))) (bB : BtDef × List (Key × Nat) → (BtDef × List (Key × Nat)) × Bool)
    (fT : Tx → Fwd Tx) (bT : Tx → Tx × Bool) (fH : Hn → Fwd Hn) (bH : Hn → Hn × Bool) : Idx × Option Err × Bool :=
  match phase fB bB ix.bt with
  | (bt1, some e, ok) => ({ ix with bt := bt1 }, some e, ok)
  | (bt1, none, _) =>
    match phase fT bT ix.tx with
    | (tx1, some e, ok) =>
      let b := backAll bB bt1
      ({ ix with bt := b.1, tx := tx1 }, some e, ok && b.2)
    | (tx1, none, _) =>
      match phase fH bH ix.hn with
      | (hn1, some e, ok) =>
        let b := backAll bB bt1
        let t := backAll bT tx1
        ({ bt := b.1, tx := t.1, hn := hn1 }, some e, ok && b.2 && t.2)
      | (hn1, none, _) => ({ bt := bt1, tx := tx1, hn := hn1 }, none, true)

-- add_impl --------------------------------------------------------------------------------

/-- `btree_inserted.insert(index, fv)` precedes `index.insert(..)?`: the failing index is part of
the rollback set. -/
def addBtF (id : Nat) (d : List (Nat × FVal)) (x : BtDef × List (Key × Nat)) : Fwd (BtDef × List (Key × Nat)) :=
  let v := valueOf x.1 d
  match btInsert x.1.unique x.2 id v with
  | .error e => { res := (x.1, btRemove x.2 id v), err := some e, restored := true }
  | .ok r' => { res := (x.1, r'), err := none, restored := true }

def addBtB (id : Nat) (d : List (Nat × FVal)) (x : BtDef × List (Key × Nat)) : (BtDef × List (Key × Nat)) × Bool :=
  ((x.1, btRemove x.2 id (valueOf x.1 d)), true)

/-- `bm25_inserted.insert` follows the successful insert. -/
def addTxF (id : Nat) (d : List (Nat × FVal)) (t : Tx) : Fwd Tx :=
  match txInsertO t id (textOf t.fields d) with
  | .error e => { res := t, err := some e, restored := true }
  | .ok t' => { res := t', err := none, restored := true }

def addTxB (id : Nat) (d : List (Nat × FVal)) (t : Tx) : Tx × Bool :=
  (txRemoveO t id (textOf t.fields d), true)

/-- `hnsw_inserted.insert(index, id)` precedes `index.insert(..)?`. -/
def addHnF (id : Nat) (d : List (Nat × FVal)) (h : Hn) : Fwd Hn :=
  match hnInsertO h id (vecOf h.field d) with
  | .error e => { res := hnRemoveO h id (vecOf h.field d), err := some e, restored := true }
  | .ok h' => { res := h', err := none, restored := true }

def addHnB (id : Nat) (d : List (Nat × FVal)) (h : Hn) : Hn × Bool :=
  (hnRemoveO h id (vecOf h.field d), true)

-- update_impl -----------------------------------------------------------------------------

def touches (fields changed : List Nat) : Bool := changed.any (fun f => fields.contains f)

/-- `index.update(id, old, new)?` then `btree_updated.insert`: a failing update is not in the
rollback set (and has changed nothing). -/
def updBtF (id : Nat) (o n : List (Nat × FVal)) (changed : List Nat) (x : BtDef × List (Key × Nat)) : Fwd (BtDef × List (Key × Nat)) :=
  if touches x.1.fields changed then
    match btUpdate x.1.unique x.2 id (valueOf x.1 o) (valueOf x.1 n) with
    | .error e => { res := x, err := some e, restored := true }
    | .ok r' => { res := (x.1, r'), err := none, restored := true }
  else { res := x, err := none, restored := true }

/-- rollback: `k.update(id, new, old)`; an error means the index is left as it is and the handle is poisoned -/
def updBtB (id : Nat) (o n : List (Nat × FVal)) (changed : List Nat) (x : BtDef × List (Key × Nat)) : (BtDef × List (Key × Nat)) × Bool :=
  if touches x.1.fields changed then
    match btUpdate x.1.unique x.2 id (valueOf x.1 n) (valueOf x.1 o) with
    | .error _ => (x, false)
    | .ok r' => ((x.1, r'), true)
  else (x, true)

def txReinsert (t : Tx) (id : Nat) (o : Option (List Nat)) : Tx × Bool :=
  match txInsertO t id o with
  | .error _ => (t, false)
  | .ok t' => (t', true)

def updTxF (id : Nat) (o n : List (Nat × FVal)) (changed : List Nat) (t : Tx) : Fwd Tx :=
  if touches t.fields changed then
    let ot := textOf t.fields o
    let t1 := txRemoveO t id ot
    match txInsertO t1 id (textOf t.fields n) with
    | .ok t2 => { res := t2, err := none, restored := true }
    | .error e =>
      let b := txReinsert t1 id ot
      { res := b.1, err := some e, restored := b.2 }
  else { res := t, err := none, restored := true }

def updTxB (id : Nat) (o n : List (Nat × FVal)) (changed : List Nat) (t : Tx) : Tx × Bool :=
  if touches t.fields changed then
    txReinsert (txRemoveO t id (textOf t.fields n)) id (textOf t.fields o)
  else (t, true)

def hnReinsert (h : Hn) (id : Nat) (o : Option Nat) : Hn × Bool :=
  match hnInsertO h id o with
  | .error _ => (h, false)
  | .ok h' => (h', true)

def updHnF (id : Nat) (o n : List (Nat × FVal)) (changed : List Nat) (h : Hn) : Fwd Hn :=
  if changed.contains h.field then
    let ov := vecOf h.field o
    let h1 := hnRemoveO h id ov
    match hnInsertO h1 id (vecOf h.field n) with
    | .ok h2 => { res := h2, err := none, restored := true }
    | .error e =>
      -- `hnsw_inserted` holds the failing index: remove(id), then re-insert the old vector
      let b := hnReinsert (hnRemoveO h1 id (vecOf h.field n)) id ov
      { res := b.1, err := some e, restored := b.2 }
  else { res := h, err := none, restored := true }

def updHnB (id : Nat) (o n : List (Nat × FVal)) (changed : List Nat) (h : Hn) : Hn × Bool :=
  if changed.contains h.field then
    hnReinsert (hnRemoveO h id (vecOf h.field n)) id (vecOf h.field o)
  else (h, true)

-- ------------------------------------------------------------------------------------------
-- the collection
-- ------------------------------------------------------------------------------------------

structure State where
  schema : List (Nat × FieldDef)
  /-- stored document objects -/
  docs : List (Nat × List (Nat × FVal))
  /-- `doc_ids` / `doc_ids_index` -/
  ids : List Nat
  maxId : Nat
  /-- `max_document_id` of the last persisted metadata snapshot -/
  savedMax : Nat
  /-- `stats.version > last_saved_version`: the next flush rewrites the metadata object -/
  dirty : Bool
  ix : Idx
  poisoned : Bool

def lookupD (docs : List (Nat × List (Nat × FVal))) (id : Nat) : Option (List (Nat × FVal)) :=
  match docs with
  | [] => none
  | (i, d) :: r => if i = id then some d else lookupD r id

def putD (docs : List (Nat × List (Nat × FVal))) (id : Nat) (d : List (Nat × FVal)) : List (Nat × List (Nat × FVal)) :=
  match docs with
  | [] => [(id, d)]
  | (i, e) :: r => if i = id then (i, d) :: r else (i, e) :: putD r id d

def delD (docs : List (Nat × List (Nat × FVal))) (id : Nat) : List (Nat × List (Nat × FVal)) :=
  docs.filter (fun p => p.1 != id)

inductive Op where
  | add (d : List (Nat × FVal))
  | update (id : Nat) (fs : List (Nat × FVal))
  | remove (id : Nat)
  | createBt (name : Nat) (fields : List Nat)
  | createTx (fields : List Nat)
  | createHn (field dim : Nat)
  | removeBt (name : Nat)
  | removeTx (fields : List Nat)
  | removeHn (field : Nat)
  | flush
  | reopen
  deriving Repr

inductive Out where
  | id (n : Nat)
  | ok
  | absent
  | removed (b : Bool)
  | err (e : Err)
  deriving DecidableEq, Repr

def init (schema : List (Nat × FieldDef)) : State :=
  { schema := schema, docs := [], ids := [], maxId := 0, savedMax := 0, dirty := false, ix := { bt := [], tx := [], hn := [] }, poisoned := false }

/-- `add_impl` -/
def add (s : State) (d : List (Nat × FVal)) : State × Out :=
  if s.poisoned then (s, .err .state)
  else if !validate s.schema d then (s, .err .invalid)
  else
    let id := s.maxId + 1
    let s := { s with maxId := id }
    match phases s.ix (addBtF id d) (addBtB id d) (addTxF id d) (addTxB id d) (addHnF id d) (addHnB id d) with
    | (ix', some e, ok) => ({ s with ix := ix', poisoned := !ok }, .err e)
    | (ix', none, _) =>
      match lookupD s.docs id with
      | some _ =>
        -- `PutMode::Create` reports AlreadyExists: roll the indexes back, keep the foreign object
        let b := backAll (addBtB id d) ix'.bt
        let t := backAll (addTxB id d) ix'.tx
        let h := backAll (addHnB id d) ix'.hn
        ({ s with ix := { bt := b.1, tx := t.1, hn := h.1 } }, .err .exists)
      | none => ({ s with ix := ix', docs := s.docs ++ [(id, d)], ids := s.ids ++ [id], dirty := true }, .id id)

/-- `doc.set_field` per entry (unknown field / wrong variant ⇒ error) -/
def applyFields (schema : List (Nat × FieldDef)) (d : List (Nat × FVal)) : List (Nat × FVal) → Option (List (Nat × FVal))
  | [] => some d
  | (f, v) :: rest =>
    match lookupS schema f with
    | none => none
    | some fd => if kindOk fd v then applyFields schema (setF d f v) rest else none

/-- `update_impl` -/
def update (s : State) (id : Nat) (fs : List (Nat × FVal)) : State × Out :=
  if s.poisoned then (s, .err .state)
  else if !s.ids.contains id then (s, .err .notFound)
  else if fs.isEmpty then (s, .err .generic)
  else
    match lookupD s.docs id with
    | none => (s, .err .notFound)
    | some o =>
      match applyFields s.schema o fs with
      | none => (s, .err .invalid)
      | some n =>
        if !validate s.schema n then (s, .err .invalid)
        else
          let ch := fs.map (fun p => p.1)
          match phases s.ix (updBtF id o n ch) (updBtB id o n ch) (updTxF id o n ch) (updTxB id o n ch)
              (updHnF id o n ch) (updHnB id o n ch) with
          | (ix', some e, ok) => ({ s with ix := ix', poisoned := !ok }, .err e)
          | (ix', none, _) => ({ s with ix := ix', docs := putD s.docs id n, dirty := true }, .ok)

/-- `remove_impl` (storage calls succeed; a document object that is already gone leaves the
indexes alone, as the code does) -/
def remove (s : State) (id : Nat) : State × Out :=
  if s.poisoned then (s, .err .state)
  else if !s.ids.contains id then (s, .absent)
  else
    match lookupD s.docs id with
    | none => ({ s with ids := s.ids.filter (fun i => i != id), dirty := true }, .absent)
    | some d =>
      let ix' : Idx :=
        { bt := s.ix.bt.map (fun x => (x.1, btRemove x.2 id (valueOf x.1 d))),
          tx := s.ix.tx.map (fun t => txRemoveO t id (textOf t.fields d)),
          hn := s.ix.hn.map (fun h => hnRemoveO h id (vecOf h.field d)) }
      ({ s with ix := ix', docs := delD s.docs id, ids := s.ids.filter (fun i => i != id), dirty := true }, .removed true)

/-- backfill (`for_each_existing_document`): every live document in ascending id order, a document
object that is missing is skipped, the first failing insert aborts the creation -/
def backfill {α : Type} (ins : α → Nat → List (Nat × FVal) → Except Err α) (docs : List (Nat × List (Nat × FVal))) :
    List Nat → α → Except Err α
  | [], a => .ok a
  | i :: rest, a =>
    match lookupD docs i with
    | none => backfill ins docs rest a
    | some d =>
      match ins a i d with
      | .error e => .error e
      | .ok a' => backfill ins docs rest a'

def insBt (df : BtDef) (r : List (Key × Nat)) (i : Nat) (d : List (Nat × FVal)) : Except Err (List (Key × Nat)) :=
  btInsert df.unique r i (valueOf df d)

def insTx (t : Tx) (i : Nat) (d : List (Nat × FVal)) : Except Err Tx := txInsertO t i (textOf t.fields d)

def insHn (h : Hn) (i : Nat) (d : List (Nat × FVal)) : Except Err Hn := hnInsertO h i (vecOf h.field d)

def insertAsc (i : Nat) : List Nat → List Nat
  | [] => [i]
  | j :: r => if i ≤ j then i :: j :: r else j :: insertAsc i r

def sortAsc (l : List Nat) : List Nat := l.foldr insertAsc []

def keyable (schema : List (Nat × FieldDef)) (f : Nat) : Bool :=
  match lookupS schema f with
  | some fd => fd.kind == .int || fd.kind == .arr || fd.kind == .map
  | none => false

def fieldUnique (schema : List (Nat × FieldDef)) (f : Nat) : Bool :=
  match lookupS schema f with
  | some fd => fd.unique
  | none => false

/-- `create_btree_index`: a single-field index takes its uniqueness from the schema entry, a
multi-field index is always unique (`with_unique()`, `allow_duplicates: false`). -/
def createBt (s : State) (name : Nat) (fields : List Nat) : State × Out :=
  if s.poisoned then (s, .err .state)
  else if fields.isEmpty then (s, .err .invalid)
  else if s.ix.bt.any (fun x => x.1.name == name) then (s, .err .exists)
  else if !fields.all (fun f => (lookupS s.schema f).isSome) then (s, .err .invalid)
  else if fields.length == 1 && !fields.all (keyable s.schema) then (s, .err .index)
  else
    let df : BtDef := { name := name, fields := fields, unique := if fields.length == 1 then fields.all (fieldUnique s.schema) else true }
    match backfill (insBt df) s.docs (sortAsc s.ids) [] with
    | .error e => (s, .err e)
    | .ok r =>
      let bt' := if df.unique then (df, r) :: s.ix.bt else s.ix.bt ++ [(df, r)]
      ({ s with ix := { s.ix with bt := bt' }, dirty := true }, .ok)

def createTx (s : State) (fields : List Nat) : State × Out :=
  if s.poisoned then (s, .err .state)
  else if fields.isEmpty then (s, .err .invalid)
  else if s.ix.tx.any (fun t => t.fields == fields) then (s, .err .exists)
  else if !fields.all (fun f => (lookupS s.schema f).isSome) then (s, .err .invalid)
  else
    match backfill insTx s.docs (sortAsc s.ids) { fields := fields, docs := [], post := [] } with
    | .error e => (s, .err e)
    | .ok t => ({ s with ix := { s.ix with tx := s.ix.tx ++ [t] }, dirty := true }, .ok)

def createHn (s : State) (field dim : Nat) : State × Out :=
  if s.poisoned then (s, .err .state)
  else if s.ix.hn.any (fun h => h.field == field) then (s, .err .exists)
  else
    match lookupS s.schema field with
    | none => (s, .err .notFound)
    | some fd =>
      if !(fd.kind == .vec && !fd.opt) then (s, .err .invalid)
      else
        match backfill insHn s.docs (sortAsc s.ids) { field := field, dim := dim, ids := [] } with
        | .error e => (s, .err e)
        | .ok h => ({ s with ix := { s.ix with hn := s.ix.hn ++ [h] }, dirty := true }, .ok)

def insertByName (x : BtDef × List (Key × Nat)) : List (BtDef × List (Key × Nat)) → List (BtDef × List (Key × Nat))
  | [] => [x]
  | y :: r => if x.1.name ≤ y.1.name then x :: y :: r else y :: insertByName x r

/-- `load_indexes`: registry in name order, unique ones moved to the front one by one -/
def reorder (bt : List (BtDef × List (Key × Nat))) : List (BtDef × List (Key × Nat)) :=
  (bt.foldr insertByName []).foldl (fun acc x => if x.1.unique then x :: acc else acc ++ [x]) []

/-- `flush_inner` as far as this model sees it: the metadata object (which carries
`max_document_id`) is rewritten only when `stats.version` moved — an id consumed by a failed add
is therefore handed out again after a reopen. -/
def flush (s : State) : State :=
  if s.dirty then { s with savedMax := s.maxId, dirty := false } else s

def step (s : State) : Op → State × Out
  | .add d => add s d
  | .update id fs => update s id fs
  | .remove id => remove s id
  | .createBt name fields => createBt s name fields
  | .createTx fields => createTx s fields
  | .createHn field dim => createHn s field dim
  | .removeBt name =>
    if s.poisoned then (s, .err .state)
    else
      let had := s.ix.bt.any (fun x => x.1.name == name)
      ({ s with ix := { s.ix with bt := s.ix.bt.filter (fun x => x.1.name != name) }, dirty := s.dirty || had }, .removed had)
  | .removeTx fields =>
    if s.poisoned then (s, .err .state)
    else
      let had := s.ix.tx.any (fun t => t.fields == fields)
      ({ s with ix := { s.ix with tx := s.ix.tx.filter (fun t => t.fields != fields) }, dirty := s.dirty || had }, .removed had)
  | .removeHn field =>
    if s.poisoned then (s, .err .state)
    else
      let had := s.ix.hn.any (fun h => h.field == field)
      ({ s with ix := { s.ix with hn := s.ix.hn.filter (fun h => h.field != field) }, dirty := s.dirty || had }, .removed had)
  | .flush => if s.poisoned then (s, .err .state) else (flush s, .ok)
  | .reopen =>
    -- a poisoned handle reopens through crash recovery (C01), which this model does not contain
    if s.poisoned then (s, .err .state)
    else
      let s := flush s
      ({ s with maxId := s.savedMax, ix := { s.ix with bt := reorder s.ix.bt } }, .ok)

-- observation side ---------------------------------------------------------------------------

/-- ids answered by a filter over one B-tree index: the postings of every key the predicate accepts
(`Eq k`, a range, any `RangeQuery` tree — all of them are predicates on keys) -/
def btQuery (r : List (Key × Nat)) (q : Key → Bool) : List Nat :=
  (r.filter (fun p => q p.1)).map (fun p => p.2)

/-- documents a term query returns -/
def txQuery (t : Tx) (w : Nat) : List Nat :=
  (t.post.filter (fun p => p.1 == w)).map (fun p => p.2)

def run (s : State) : List Op → State
  | [] => s
  | op :: rest => run (step s op).1 rest

end AndaVerif.Collection
