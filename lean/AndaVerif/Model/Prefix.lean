import AndaVerif.Model.OMap
/-
`BTreeIndex<PK, String>::prefix_query_with` (rs/anda_db_btree/src/btree.rs): the string-keyed index
and its prefix scan. A `String` is its UTF-8 byte sequence (`List Nat`); Rust orders `String`s
byte-wise lexicographically (`lexLt`), and `str::starts_with(&str)` is a byte-prefix test.

`prefixQuery` mirrors the code: empty index → nothing; walk `btree.range(prefix..)` (the keys not
below the prefix) ascending, **stop at the first key that does not start with the prefix**, call the
callback (which returns a continue flag and at most one result), stop when it says so.
The mutations of the string-keyed index are the generic ones (`Model/BTree`), re-stated here for the
key type only as far as the driver needs them (`sIns`, `sDel`).
-/
namespace AndaVerif
namespace Prefix

abbrev SKey := List Nat
abbrev SMap := List (SKey × List Nat)

/-- `<str as Ord>::cmp(a, b) == Less` -/
def lexLt : SKey → SKey → Bool
  | [], [] => false
  | [], _ :: _ => true
  | _ :: _, [] => false
  | a :: as, b :: bs => if a < b then true else if a = b then lexLt as bs else false

def sLookup (m : SMap) (k : SKey) : Option (List Nat) :=
  match m with
  | [] => none
  | (k', p) :: m => if k = k' then some p else sLookup m k

def sIns (k : SKey) (d : Nat) : SMap → SMap
  | [] => [(k, [d])]
  | (k', p) :: m =>
    if lexLt k k' then (k, [d]) :: (k', p) :: m
    else if k = k' then (k', pushUnique p d) :: m
    else (k', p) :: sIns k d m

def sDel (k : SKey) (d : Nat) : SMap → SMap
  | [] => []
  | (k', p) :: m =>
    if k = k' then
      (if p.contains d then
        (let p' := swapRemoveVal p d
         if p'.isEmpty then m else (k', p') :: m)
       else (k', p) :: m)
    else (k', p) :: sDel k d m

/-- `f: FnMut(&str, &Vec<PK>) -> (bool, Option<R>)` with its captured state made explicit -/
abbrev PCallback (σ ρ : Type) := σ → SKey → List Nat → σ × Bool × Option ρ

/-- the loop body of `prefix_query_with` over the keys that passed the `starts_with` test -/
def sWalk {σ ρ : Type} (f : PCallback σ ρ) : List (SKey × List Nat) → σ → List ρ
  | [], _ => []
  | (k, p) :: es, s =>
    match f s k p with
    | (s', con, rt) => rt.toList ++ (if con then sWalk f es s' else [])

def prefixQuery {σ ρ : Type} (m : SMap) (pre : SKey) (f : PCallback σ ρ) (s : σ) : List ρ :=
  if m.isEmpty then []
  else
    sWalk f ((m.filter (fun e => !lexLt e.1 pre)).takeWhile (fun e => pre.isPrefixOf e.1)) s

/-- the harness callback: counts its invocations, asks to stop at the `stop`-th one, returns the
key's ids (`all`) or nothing for a key without an odd id (`odd`) -/
def pcbStop {ρ : Type} (stop : Option Nat) (g : SKey → List Nat → Option ρ) : PCallback Nat ρ :=
  fun c k p =>
    (c + 1,
     (match stop with
      | none => true
      | some n => decide (c + 1 < n)),
     g k p)

def pemit (odd : Bool) (k : SKey) (p : List Nat) : Option (SKey × List Nat) :=
  if odd then (if (p.filter (fun d => d % 2 == 1)).isEmpty then none else some (k, p.filter (fun d => d % 2 == 1)))
  else some (k, p)

end Prefix
end AndaVerif
