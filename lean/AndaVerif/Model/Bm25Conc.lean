import AndaVerif.Model.Bm25
import AndaVerif.Model.Sched
/-
L3 of property C11: `BM25Index::{insert, remove, purge_ids, compact_buckets}` as threads of atomic
actions at **exactly the granularity of the `verif` yield points** `bm25.<fn>.<step>` of
rs/anda_db_tfs/src/bm25.rs (hook H3). One atomic action = the code between two consecutive yield
points of one call; a yield point stands outside every DashMap / RwLock guard except the mutation
gate, and the `.gate` point stands *before* the gate is taken, so an action is enabled unless it
starts by taking a gate that is not available (shared side: no compaction inside; exclusive side:
nobody inside).

Shared state: `doc_tokens`, `total_tokens`, `postings` (token ↦ (bucket, entries)), `buckets`
(id ↦ dirty flag, listed tokens, `doc_ids`), `max_bucket_id`, the gate (`readers`, `writer`), the
metadata version.

What is assumed atomic (and nothing else): each code segment between two yield points — in
particular one `postings.entry`/`get_mut` block, one `remove_if`, one bucket `entry`/`get_mut` block
(with the nested `postings.get` of the unlisting re-check), the read-only `doc_ids` scan, the whole
`iter_mut` sweep of `purge_ids` (phase 2), the snapshot + bin packing of `compact_buckets`.
Loops over hash maps run in list order here (the real iteration order is unspecified; the explorer
only uses workloads where such a loop has at most one iteration).

The CBOR size estimator is not modelled; two configurations are: `zero = true`
(`bucket_overload_size = 0`: a bucket accepts a new token iff it lists none; compaction makes one
bucket per token) and `zero = false` (512 KiB: everything fits; compaction makes one bucket).
-/
namespace AndaVerif
namespace Bm25Conc

open Bm25

structure PostC where
  bucket : Nat
  entries : Entries
  deriving DecidableEq, Repr

structure BucketC where
  dirty : Bool
  tokens : List Nat
  docIds : List Nat
  deriving DecidableEq, Repr

def BucketC.empty : BucketC := { dirty := false, tokens := [], docIds := [] }

structure Shared where
  docTokens : List (Nat × Nat)
  totalTokens : Nat
  postings : List (Nat × PostC)
  buckets : List (Nat × BucketC)
  maxBucket : Nat
  readers : Nat
  writer : Bool
  version : Nat
  zero : Bool
  deriving DecidableEq, Repr

def Shared.init (zero : Bool) : Shared :=
  { docTokens := [], totalTokens := 0, postings := [], buckets := [(0, BucketC.empty)], maxBucket := 0,
    readers := 0, writer := false, version := 1, zero := zero }

/-! ### maps -/

def setKey {α : Type} : List (Nat × α) → Nat → α → List (Nat × α)
  | [], k, v => [(k, v)]
  | (k', v') :: m, k, v => if k' = k then (k', v) :: m else (k', v') :: setKey m k v

def insSet (l : List Nat) (x : Nat) : List Nat := if l.contains x then l else l ++ [x]
def delSet (l : List Nat) (x : Nat) : List Nat := l.filter (fun y => y != x)

/-- `buckets.entry(b).or_default()` -/
def bucketOr (s : Shared) (b : Nat) : BucketC := (get? s.buckets b).getD BucketC.empty

/-- does a bucket accept one more token (`tokens.is_empty() || size + s < bucket_overload_size`) -/
def accepts (zero : Bool) (b : BucketC) : Bool := b.tokens.isEmpty || !zero

/-- add `t` to the token list kept for bucket `b` in a thread-local `buckets_to_update` -/
def btuAdd (m : List (Nat × List Nat)) (b t : Nat) : List (Nat × List Nat) :=
  match get? m b with
  | some ts => setKey m b (insSet ts t)
  | none => m ++ [(b, [t])]

/-! ### thread-local state -/

inductive Res where
  | pending
  | ok                -- insert
  | errTokenize
  | errExists
  | bool (b : Bool)   -- remove
  | count (n : Nat)   -- purge_ids
  | compacted         -- compact_buckets
  deriving DecidableEq, Repr

inductive Pc where
  | gate
  | posting (j : Nat)
  | dropEmpty (j : Nat)
  | bucket (j : Nat)
  | migrate
  | migrateToken (j : Nat)
  | migratePlace (j : Nat)
  | doc (j : Nat)
  | sweep
  | unlist (j : Nat)
  | stale
  | staleBucket (j : Nat)
  | rebuild
  | cbucket (j : Nat)
  | mstep
  | done
  deriving DecidableEq, Repr

inductive Kind where
  | insert (id : Nat) (tf : List (Nat × Nat))
  | remove (id : Nat) (tf : List (Nat × Nat))
  | purge (ids : List Nat)
  | compact
  deriving DecidableEq, Repr

structure Thread where
  kind : Kind
  pc : Pc
  res : Res
  /-- `bucket_id` read from `max_bucket_id` at the start of `insert` -/
  snapBucket : Nat
  /-- `buckets_to_update` (bucket ↦ tokens) -/
  btu : List (Nat × List Nat)
  /-- insert: `tokens_to_migrate` (old bucket, token); purge: `emptied_tokens` (bucket, token) -/
  pairs : List (Nat × Nat)
  /-- remove: `maybe_empty_tokens`; compact: unused -/
  maybeEmpty : List Nat
  /-- `removed_postings` -/
  removedPostings : List Nat
  /-- insert phase 3: `next_bucket_id`; purge: `removed_docs` -/
  n1 : Nat
  /-- purge: `removed_tokens` -/
  n2 : Nat
  /-- remove: `was_present`; purge: `purged_postings` -/
  flag : Bool
  /-- `stale_buckets`; purge phase 4: the keys of `bucket_size_decrease` -/
  bucketList : List Nat
  staleList : List Nat
  /-- compact: the bins (token lists) -/
  bins : List (List Nat)
  deriving DecidableEq, Repr

def Thread.new (k : Kind) : Thread :=
  { kind := k, pc := .gate, res := .pending, snapBucket := 0, btu := [], pairs := [], maybeEmpty := [],
    removedPostings := [], n1 := 0, n2 := 0, flag := false, bucketList := [], staleList := [], bins := [] }

def Thread.finished (t : Thread) : Bool := t.pc == .done

/-! ### gate -/

def enterShared (s : Shared) : Option Shared := if s.writer then none else some { s with readers := s.readers + 1 }
def leaveShared (s : Shared) : Shared := { s with readers := s.readers - 1 }
def enterExcl (s : Shared) : Option Shared := if s.writer || s.readers != 0 then none else some { s with writer := true }
def leaveExcl (s : Shared) : Shared := { s with writer := false }

/-! ### insert -/

/-- `postings.entry(token)`: push `(id, f)` (no-op on an identical pair) or create under `snap` -/
def insertPosting (s : Shared) (snap id t f : Nat) : Shared × Nat :=
  match get? s.postings t with
  | some p =>
    ({ s with postings := setKey s.postings t { p with entries := if p.entries.contains (id, f) then p.entries else p.entries ++ [(id, f)] } }, p.bucket)
  | none => ({ s with postings := s.postings ++ [(t, { bucket := snap, entries := [(id, f)] })] }, snap)

/-- the token loop of one phase-2 iteration: (bucket after, contains_doc, tokens to migrate) -/
def placeTokens (zero : Bool) : List Nat → BucketC → Bool → List Nat → BucketC × Bool × List Nat
  | [], b, c, mig => (b, c, mig)
  | t :: ts, b, c, mig =>
    if b.tokens.contains t then placeTokens zero ts b true mig
    else if accepts zero b then placeTokens zero ts { b with tokens := b.tokens ++ [t] } true mig
    else placeTokens zero ts b c (mig ++ [t])

def afterBuckets (th : Thread) : Pc := if th.pairs.isEmpty then .mstep else .migrate

def stepInsert (s : Shared) (th : Thread) (id : Nat) (tf : List (Nat × Nat)) : Option (Shared × Thread) :=
  match th.pc with
  | .gate =>
    match enterShared s with
    | none => none
    | some s =>
      if tf.isEmpty then some (leaveShared s, { th with pc := .done, res := .errTokenize })
      else if hasKey s.docTokens id then some (leaveShared s, { th with pc := .done, res := .errExists })
      else
        some ({ s with docTokens := s.docTokens ++ [(id, sumSnd tf)], totalTokens := s.totalTokens + sumSnd tf },
              { th with pc := .posting 0, snapBucket := s.maxBucket })
  | .posting j =>
    match tf[j]? with
    | none => none
    | some (t, f) =>
      let r := insertPosting s th.snapBucket id t f
      some (r.1, { th with btu := btuAdd th.btu r.2 t, pc := if j + 1 < tf.length then .posting (j + 1) else .bucket 0 })
  | .bucket j =>
    match th.btu[j]? with
    | none => none
    | some (bid, toks) =>
      let b0 := bucketOr s bid
      let (b1, c, mig) := placeTokens s.zero toks { b0 with dirty := true } false []
      let b2 := if c then { b1 with docIds := insSet b1.docIds id } else b1
      let th' := { th with pairs := th.pairs ++ mig.map (fun t => (bid, t)) }
      some ({ s with buckets := setKey s.buckets bid b2 },
            { th' with pc := if j + 1 < th.btu.length then .bucket (j + 1) else afterBuckets th' })
  | .migrate =>
    some ({ s with maxBucket := s.maxBucket + 1 }, { th with n1 := s.maxBucket + 1, pc := .migrateToken 0 })
  | .migrateToken j =>
    match th.pairs[j]? with
    | none => none
    | some (old, t) =>
      let ps := match get? s.postings t with
        | some p => setKey s.postings t { p with bucket := th.n1 }
        | none => s.postings
      let bs := match get? s.buckets old with
        | some ob => if ob.tokens.contains t then setKey s.buckets old { ob with tokens := delSet ob.tokens t, dirty := true } else s.buckets
        | none => s.buckets
      some ({ s with postings := ps, buckets := bs }, { th with pc := .migratePlace j })
  | .migratePlace j =>
    match th.pairs[j]? with
    | none => none
    | some (_, t) =>
      let nb := bucketOr s th.n1
      let nextPc := if j + 1 < th.pairs.length then Pc.migrateToken (j + 1) else Pc.mstep
      if accepts s.zero nb then
        some ({ s with buckets := setKey s.buckets th.n1 { nb with dirty := true, tokens := nb.tokens ++ [t], docIds := insSet nb.docIds id } },
              { th with pc := nextPc })
      else
        let nx := s.maxBucket + 1
        let ps := match get? s.postings t with
          | some p => setKey s.postings t { p with bucket := nx }
          | none => s.postings
        let nb2 := (get? s.buckets nx).getD BucketC.empty
        some ({ s with maxBucket := nx, postings := ps,
                       buckets := setKey s.buckets nx { nb2 with dirty := true, tokens := nb2.tokens ++ [t], docIds := insSet nb2.docIds id } },
              { th with n1 := nx, pc := nextPc })
  | .mstep => some (leaveShared { s with version := s.version + 1 }, { th with pc := .done, res := .ok })
  | _ => none

/-! ### remove -/

def afterRemovePostings (th : Thread) : Pc :=
  if !th.maybeEmpty.isEmpty then .dropEmpty 0 else if !th.btu.isEmpty then .bucket 0 else .stale

/-- the re-check of the unlisting step: the posting is gone or owned by another bucket -/
def mayUnlist (s : Shared) (b t : Nat) : Bool :=
  match get? s.postings t with
  | some p => p.bucket != b
  | none => true

def unlistTokens (s : Shared) (b : Nat) (removed : List Nat) : List Nat → List Nat → List Nat
  | [], toks => toks
  | t :: ts, toks =>
    if removed.contains t && mayUnlist s b t then unlistTokens s b removed ts (delSet toks t)
    else unlistTokens s b removed ts toks

def stepRemove (s : Shared) (th : Thread) (id : Nat) (tf : List (Nat × Nat)) : Option (Shared × Thread) :=
  match th.pc with
  | .gate =>
    match enterShared s with
    | none => none
    | some s =>
      let s1 := match get? s.docTokens id with
        | some n => { s with docTokens := eraseKey s.docTokens id, totalTokens := s.totalTokens - n }
        | none => s
      let th1 := { th with flag := hasKey s.docTokens id }
      some (s1, { th1 with pc := if tf.isEmpty then .stale else .posting 0 })
  | .posting j =>
    match tf[j]? with
    | none => none
    | some (t, _) =>
      let nextOf (th : Thread) : Thread := { th with pc := if j + 1 < tf.length then .posting (j + 1) else afterRemovePostings th }
      match get? s.postings t with
      | none => some (s, nextOf th)
      | some p =>
        let es := dropDoc p.entries id
        if es.length = p.entries.length then some (s, nextOf th)
        else
          let th1 := { th with maybeEmpty := if es.isEmpty then th.maybeEmpty ++ [t] else th.maybeEmpty, btu := btuAdd th.btu p.bucket t }
          some ({ s with postings := setKey s.postings t { p with entries := es } }, nextOf th1)
  | .dropEmpty j =>
    match th.maybeEmpty[j]? with
    | none => none
    | some t =>
      let nextPc := if j + 1 < th.maybeEmpty.length then Pc.dropEmpty (j + 1) else if !th.btu.isEmpty then Pc.bucket 0 else Pc.stale
      match get? s.postings t with
      | some p =>
        if p.entries.isEmpty then
          some ({ s with postings := eraseKey s.postings t }, { th with removedPostings := th.removedPostings ++ [t], pc := nextPc })
        else some (s, { th with pc := nextPc })
      | none => some (s, { th with pc := nextPc })
  | .bucket j =>
    match th.btu[j]? with
    | none => none
    | some (b, toks) =>
      let nextPc := if j + 1 < th.btu.length then Pc.bucket (j + 1) else Pc.stale
      match get? s.buckets b with
      | none => some (s, { th with pc := nextPc })
      | some bk =>
        let bk' := { bk with dirty := true, tokens := unlistTokens s b th.removedPostings toks bk.tokens, docIds := delSet bk.docIds id }
        some ({ s with buckets := setKey s.buckets b bk' }, { th with pc := nextPc })
  | .stale =>
    let st := (s.buckets.filter (fun p => p.2.docIds.contains id)).map (·.1)
    some (s, { th with staleList := st, pc := if st.isEmpty then .mstep else .staleBucket 0 })
  | .staleBucket j =>
    match th.staleList[j]? with
    | none => none
    | some b =>
      let nextPc := if j + 1 < th.staleList.length then Pc.staleBucket (j + 1) else Pc.mstep
      match get? s.buckets b with
      | some bk =>
        if bk.docIds.contains id then
          some ({ s with buckets := setKey s.buckets b { bk with docIds := delSet bk.docIds id, dirty := true } }, { th with pc := nextPc })
        else some (s, { th with pc := nextPc })
      | none => some (s, { th with pc := nextPc })
  | .mstep =>
    some (leaveShared (if th.flag then { s with version := s.version + 1 } else s), { th with pc := .done, res := .bool th.flag })
  | _ => none

/-! ### purge_ids -/

/-- phase 2 on one posting list: (postings after, buckets to resize, emptied (bucket, token)) -/
def sweepAll (ids : List Nat) : List (Nat × PostC) → List (Nat × PostC) × List Nat × List (Nat × Nat)
  | [] => ([], [], [])
  | (t, p) :: r =>
    let (r', dec, emp) := sweepAll ids r
    let es := p.entries.filter (fun e => !ids.contains e.1)
    if es.length = p.entries.length then ((t, p) :: r', dec, emp)
    else ((t, { p with entries := es }) :: r', insSet dec p.bucket, if es.isEmpty then (p.bucket, t) :: emp else emp)

def stepPurge (s : Shared) (th : Thread) (ids : List Nat) : Option (Shared × Thread) :=
  match th.pc with
  | .gate =>
    match enterShared s with
    | none => none
    | some s => some (s, { th with pc := if ids.isEmpty then .sweep else .doc 0 })
  | .doc j =>
    match ids[j]? with
    | none => none
    | some id =>
      let (s1, th1) := match get? s.docTokens id with
        | some n => ({ s with docTokens := eraseKey s.docTokens id }, { th with n1 := th.n1 + 1, n2 := th.n2 + n })
        | none => (s, th)
      if j + 1 < ids.length then some (s1, { th1 with pc := .doc (j + 1) })
      else some ({ s1 with totalTokens := s1.totalTokens - th1.n2 }, { th1 with pc := .sweep })
  | .sweep =>
    let (ps, dec, emp) := sweepAll ids s.postings
    let th1 := { th with bucketList := dec, pairs := emp, flag := !dec.isEmpty }
    some ({ s with postings := ps },
          { th1 with pc := if !emp.isEmpty then .dropEmpty 0 else if !dec.isEmpty then .bucket 0 else .stale })
  | .dropEmpty j =>
    match th.pairs[j]? with
    | none => none
    | some (_, t) =>
      let nextPc := if j + 1 < th.pairs.length then Pc.dropEmpty (j + 1) else if !th.bucketList.isEmpty then Pc.bucket 0 else Pc.unlist 0
      match get? s.postings t with
      | some p =>
        if p.entries.isEmpty then
          some ({ s with postings := eraseKey s.postings t }, { th with removedPostings := th.removedPostings ++ [t], pc := nextPc })
        else some (s, { th with pc := nextPc })
      | none => some (s, { th with pc := nextPc })
  | .bucket j =>
    match th.bucketList[j]? with
    | none => none
    | some b =>
      let nextPc := if j + 1 < th.bucketList.length then Pc.bucket (j + 1) else if !th.pairs.isEmpty then Pc.unlist 0 else Pc.stale
      match get? s.buckets b with
      | some bk => some ({ s with buckets := setKey s.buckets b { bk with dirty := true } }, { th with pc := nextPc })
      | none => some (s, { th with pc := nextPc })
  | .unlist j =>
    match th.pairs[j]? with
    | none => none
    | some (b, t) =>
      let nextPc := if j + 1 < th.pairs.length then Pc.unlist (j + 1) else Pc.stale
      if th.removedPostings.contains t && mayUnlist s b t then
        match get? s.buckets b with
        | some bk => some ({ s with buckets := setKey s.buckets b { bk with tokens := delSet bk.tokens t } }, { th with pc := nextPc })
        | none => some (s, { th with pc := nextPc })
      else some (s, { th with pc := nextPc })
  | .stale =>
    let st := (s.buckets.filter (fun p => ids.any (fun id => p.2.docIds.contains id))).map (·.1)
    some (s, { th with staleList := st, flag := th.flag || !st.isEmpty, pc := if st.isEmpty then .mstep else .staleBucket 0 })
  | .staleBucket j =>
    match th.staleList[j]? with
    | none => none
    | some b =>
      let nextPc := if j + 1 < th.staleList.length then Pc.staleBucket (j + 1) else Pc.mstep
      match get? s.buckets b with
      | some bk =>
        let d := bk.docIds.filter (fun i => !ids.contains i)
        some ({ s with buckets := setKey s.buckets b { bk with docIds := d, dirty := bk.dirty || d.length != bk.docIds.length } }, { th with pc := nextPc })
      | none => some (s, { th with pc := nextPc })
  | .mstep =>
    some (leaveShared (if th.n1 > 0 || th.flag then { s with version := s.version + 1 } else s),
          { th with pc := .done, res := .count th.n1 })
  | _ => none

/-! ### compact_buckets -/

def setBucketOf (ps : List (Nat × PostC)) (b : Nat) : List Nat → List (Nat × PostC)
  | [] => ps
  | t :: ts =>
    match get? ps t with
    | some p => setBucketOf (setKey ps t { p with bucket := b }) b ts
    | none => setBucketOf ps b ts

def idsOf (ps : List (Nat × PostC)) : List Nat → List Nat → List Nat
  | [], acc => acc
  | t :: ts, acc =>
    match get? ps t with
    | some p => idsOf ps ts (p.entries.foldl (fun a e => insSet a e.1) acc)
    | none => idsOf ps ts acc

def stepCompact (s : Shared) (th : Thread) : Option (Shared × Thread) :=
  match th.pc with
  | .gate =>
    match enterExcl s with
    | none => none
    | some s =>
      if s.buckets.length ≤ 1 then some (leaveExcl s, { th with pc := .done, res := .compacted })
      else if s.postings.isEmpty then
        some (leaveExcl { s with buckets := [(0, { BucketC.empty with dirty := true })], maxBucket := 0, version := s.version + 1 },
              { th with pc := .done, res := .compacted })
      else
        let toks := s.postings.map (·.1)
        some (s, { th with bins := if s.zero then toks.map (fun t => [t]) else [toks], pc := .rebuild })
  | .rebuild => some ({ s with buckets := [] }, { th with pc := .cbucket 0 })
  | .cbucket j =>
    match th.bins[j]? with
    | none => none
    | some toks =>
      let ps := setBucketOf s.postings j toks
      let s1 := { s with postings := ps, buckets := setKey s.buckets j { dirty := true, tokens := toks, docIds := idsOf ps toks [] } }
      if j + 1 < th.bins.length then some (s1, { th with pc := .cbucket (j + 1) })
      else some (leaveExcl { s1 with maxBucket := th.bins.length - 1, version := s1.version + 1 }, { th with pc := .done, res := .compacted })
  | _ => none

/-! ### the system -/

structure Cfg where
  sh : Shared
  threads : List Thread
  deriving Repr

def stepThread (s : Shared) (th : Thread) : Option (Shared × Thread) :=
  match th.kind with
  | .insert id tf => stepInsert s th id tf
  | .remove id tf => stepRemove s th id tf
  | .purge ids => stepPurge s th ids
  | .compact => stepCompact s th

/-- thread `t`'s next atomic action, if the thread exists, is not finished and is not blocked -/
def step (t : Nat) (c : Cfg) : Option Cfg :=
  match c.threads[t]? with
  | none => none
  | some th =>
    match stepThread c.sh th with
    | none => none
    | some (s', th') => some { sh := s', threads := c.threads.set t th' }

def run (sched : List Nat) (c : Cfg) : Cfg := Sched.runSchedule step sched c
def runStrict (sched : List Nat) (c : Cfg) : Option Cfg := Sched.runStrict step sched c

def quiescent (c : Cfg) : Bool := c.threads.all Thread.finished

/-- the sequential index a query sees -/
def Shared.toIndex (s : Shared) : Index :=
  { docTokens := s.docTokens, postings := s.postings.map (fun p => (p.1, p.2.entries)), totalTokens := s.totalTokens }

/-- `serialize_bucket(b)` as far as tokens go: the listed tokens whose posting names `b` -/
def ownedTokens (s : Shared) (b : Nat) (bk : BucketC) : List Nat :=
  bk.tokens.filter (fun t => match get? s.postings t with | some p => p.bucket == b | none => false)

end Bm25Conc
end AndaVerif
