/-
Bucket packing of `BTreeIndex::compact_buckets` (rs/anda_db_btree/src/btree.rs): first-fit bin
packing of the `(field value, estimated size)` list into bins of at most `bucket_overload_size`.

    for (fv, size) in fv_sizes {                       // any order: the sort is only a heuristic
        if let Some(bin) = bins.iter_mut().find(|b| b.0 + size < limit) { bin.0 += size; bin.1.push(fv) }
        else { bins.push((size, vec![fv])) }
    }

The size estimate (`posting_entry_size`, CBOR arithmetic with saturating fallbacks) is an arbitrary
function here: the theorems hold whatever it returns, in whatever order the items arrive.
Import-free.
-/
namespace AndaVerif
namespace BTreePack

/-- `(accumulated_size, field_values)` -/
abbrev Bin := Nat × List Int

/-- `bins.iter_mut().find(|b| b.0 + size < limit)` then push, else a new bin at the end -/
def place (limit : Nat) (k : Int) (size : Nat) : List Bin → List Bin
  | [] => [(size, [k])]
  | b :: bs => if b.1 + size < limit then (b.1 + size, b.2 ++ [k]) :: bs else b :: place limit k size bs

/-- the packing loop -/
def pack (limit : Nat) : List (Int × Nat) → List Bin → List Bin
  | [], bins => bins
  | (k, sz) :: items, bins => pack limit items (place limit k sz bins)

/-- `compact_buckets`' bins for the given `(key, size)` list -/
def ffd (limit : Nat) (items : List (Int × Nat)) : List Bin := pack limit items []

def keysOf (bins : List Bin) : List Int := bins.flatMap (·.2)

/-- the bucket id a key gets (`posting.0 = i` for the i-th bin) -/
def binOf (bins : List Bin) (k : Int) : Option Nat := bins.findIdx? (fun b => b.2.contains k)

end BTreePack
end AndaVerif
