/-
C15 — executable model of the lexical layer of the KIP parsers (rs/anda_kip):

* `validateBudget`  = `validate_parser_budget` (parser.rs): byte-length test, then one pass over the
  `char`s with the comment / string / escape / `prev_slash` automaton and a bracket stack that pops
  only on the matching closer and refuses when it grows beyond the depth limit.  Written branch by
  branch as the Rust loop (each `continue` is a returned state), quirks included: an unmatched or
  mismatched closer is ignored, `prev_slash` survives nothing but an immediately following `/`,
  a `"` right after a single `/` still opens a string.
* `refLex`          = an independent reference lexer (lookahead style, written from
  `skip_ws_and_comments` and the string rule of parser/json.rs): classifies every character as
  code / string / comment.
* `skipTrivia`      = `skip_ws_and_comments` (parser/json.rs): Unicode `White_Space` and `//` line
  comments, repeated until nothing is skipped.
* `classify`        = which family's head keyword starts the text (`ws(word(HEAD))` in
  kql.rs / kml.rs / meta.rs): `tag_no_case` + `word_boundary`.
* `matchWords`      = `words(&[..])` with `trivia1` between the words (parser/common.rs).

No imports outside `AndaVerif.Model`/`AndaVerif.Gen` (core Lean only).
-/
import AndaVerif.Gen.KipLimits

namespace AndaVerif.Model.KipLex

/-! ## Sizes -/

/-- UTF-8 size of one `char` (what it contributes to `str::len`). -/
def utf8Size (c : Char) : Nat :=
  if c.toNat < 0x80 then 1 else if c.toNat < 0x800 then 2 else if c.toNat < 0x10000 then 3 else 4

/-- `input.len()` of the string whose `chars()` are `s` (tail recursive: inputs are long). -/
def utf8LenAux : Nat → List Char → Nat
  | acc, [] => acc
  | acc, c :: cs => utf8LenAux (acc + utf8Size c) cs

def utf8Len (s : List Char) : Nat := utf8LenAux 0 s

/-! ## The budget pre-scan -/

inductive BudgetErr where
  /-- `input.len() > MAX_KIP_INPUT_LEN` -/
  | tooLong
  /-- `stack.len() > MAX_KIP_NESTING_DEPTH` after a push -/
  | tooDeep
  deriving DecidableEq, Repr

instance : DecidableEq (Except BudgetErr Unit) := fun a b =>
  match a, b with
  | .ok (), .ok () => isTrue rfl
  | .error e, .error f =>
    if h : e = f then isTrue (by rw [h]) else isFalse (by intro h'; injection h' with h'; exact h h')
  | .ok (), .error _ => isFalse (by intro h; cases h)
  | .error _, .ok () => isFalse (by intro h; cases h)

/-- The four booleans of the pre-scan (everything but the stack). -/
structure LState where
  inString : Bool := false
  escaped : Bool := false
  inLineComment : Bool := false
  prevSlash : Bool := false
  deriving DecidableEq, Repr

/-- The local variables of `validate_parser_budget`; `stack.head?` is `stack.last()`. -/
structure BState where
  stack : List Char := []
  lex : LState := {}
  deriving DecidableEq, Repr

def isOpener (c : Char) : Bool := c == '(' || c == '[' || c == '{'

/-- The opener a closer pops (the three `matches!(stack.last(), Some(..))` arms). -/
def closerOf (c : Char) : Option Char :=
  if c == ')' then some '(' else if c == ']' then some '[' else if c == '}' then some '{' else none

def isBracket (c : Char) : Bool := isOpener c || (closerOf c).isSome

/-- Every character the pre-scan keys on (sorted); all others are treated alike
(`Props.C15.budget_key_chars`). -/
def keyChars : List Char := ['\n', '"', '(', ')', '/', '[', '\\', ']', '{', '}']

/-- One iteration of the `for ch in input.chars()` loop. -/
def step (maxDepth : Nat) (st : BState) (ch : Char) : Except BudgetErr BState :=
  if st.lex.inLineComment then
    -- `if ch == '\n' { in_line_comment = false } continue`
    if ch == '\n' then .ok { st with lex := { st.lex with inLineComment := false } } else .ok st
  else if st.lex.inString then
    -- `prev_slash = false`
    let l := { st.lex with prevSlash := false }
    if l.escaped then .ok { st with lex := { l with escaped := false } }
    else if ch == '\\' then .ok { st with lex := { l with escaped := true } }
    else if ch == '"' then .ok { st with lex := { l with inString := false } }
    else .ok { st with lex := l }
  else if ch == '/' then
    if st.lex.prevSlash then
      .ok { st with lex := { st.lex with inLineComment := true, prevSlash := false } }
    else .ok { st with lex := { st.lex with prevSlash := true } }
  else
    let l := { st.lex with prevSlash := false }
    if ch == '"' then .ok { st with lex := { l with inString := true } }
    else if isOpener ch then
      -- `stack.push(ch); if stack.len() > MAX { return Err }`
      if (ch :: st.stack).length > maxDepth then .error .tooDeep
      else .ok { stack := ch :: st.stack, lex := l }
    else
      match closerOf ch with
      | some o =>
        match st.stack with
        | top :: rest => if top == o then .ok { stack := rest, lex := l } else .ok { st with lex := l }
        | [] => .ok { st with lex := l }
      | none => .ok { st with lex := l }

/-- The whole loop (one pass, left to right, stops at the first error). -/
def scan (maxDepth : Nat) : BState → List Char → Except BudgetErr BState
  | st, [] => .ok st
  | st, c :: cs =>
    match step maxDepth st c with
    | .ok st' => scan maxDepth st' cs
    | .error e => .error e

/-- `validate_parser_budget`. -/
def validateBudget (maxLen maxDepth : Nat) (s : List Char) : Except BudgetErr Unit :=
  if utf8Len s > maxLen then .error .tooLong
  else
    match scan maxDepth {} s with
    | .ok _ => .ok ()
    | .error e => .error e

/-- The pre-scan with the limits of the current source tree. -/
def validateBudgetKip (s : List Char) : Except BudgetErr Unit :=
  validateBudget Gen.KipLimits.maxKipInputLen Gen.KipLimits.maxKipNestingDepth s

/-! ## What the automaton takes each character for

The automaton decides about a `/` only when it sees the next character, so the observation of one
step is the list of *decided* characters: nothing for a first `/`, two comment characters for the
second one, and the pending `/` as code in front of anything else. -/

inductive Cls where
  | code | str | comment
  deriving DecidableEq, Repr

/-- The stack-free part of `step` (see `Proofs.KipLex.step_lex`). -/
def lexStep (l : LState) (ch : Char) : LState :=
  if l.inLineComment then
    if ch == '\n' then { l with inLineComment := false } else l
  else if l.inString then
    let l := { l with prevSlash := false }
    if l.escaped then { l with escaped := false }
    else if ch == '\\' then { l with escaped := true }
    else if ch == '"' then { l with inString := false }
    else l
  else if ch == '/' then
    if l.prevSlash then { l with inLineComment := true, prevSlash := false }
    else { l with prevSlash := true }
  else
    let l := { l with prevSlash := false }
    if ch == '"' then { l with inString := true } else l

/-- Characters decided by one step, with the class the automaton gives them. -/
def emit (l : LState) (ch : Char) : List (Char × Cls) :=
  if l.inLineComment then [(ch, .comment)]
  else if l.inString then [(ch, .str)]
  else if ch == '/' then
    if l.prevSlash then [('/', .comment), ('/', .comment)] else []
  else
    (if l.prevSlash then [('/', Cls.code)] else []) ++ [(ch, if ch == '"' then .str else .code)]

/-- A `/` still pending at the end of the input was code. -/
def flush (l : LState) : List (Char × Cls) :=
  if !l.inLineComment && !l.inString && l.prevSlash then [('/', .code)] else []

/-- The automaton's classification of a whole input. -/
def scanTagged : LState → List Char → List (Char × Cls)
  | l, [] => flush l
  | l, c :: cs => emit l c ++ scanTagged (lexStep l c) cs

/-! ## Reference lexer

Token-at-a-time with lookahead, the way the parser proper reads trivia and strings:
`//` starts a comment that runs through the next `'\n'` (or to the end of the input), `"` starts a
string in which `\` takes the next character with it and the next bare `"` ends it; everything else
is one code character. -/

mutual
  def refLex : List Char → List (Char × Cls)
    | [] => []
    | c :: rest =>
      if c == '"' then (c, .str) :: refString rest
      else if c == '/' then
        match rest with
        | c2 :: rest2 =>
          if c2 == '/' then (c, .comment) :: (c2, .comment) :: refComment rest2
          else (c, .code) :: refLex (c2 :: rest2)
        | [] => [(c, .code)]
      else (c, .code) :: refLex rest
    termination_by s => s.length
  def refString : List Char → List (Char × Cls)
    | [] => []
    | c :: rest =>
      if c == '\\' then
        match rest with
        | c2 :: rest2 => (c, .str) :: (c2, .str) :: refString rest2
        | [] => [(c, .str)]
      else if c == '"' then (c, .str) :: refLex rest
      else (c, .str) :: refString rest
    termination_by s => s.length
  def refComment : List Char → List (Char × Cls)
    | [] => []
    | c :: rest =>
      if c == '\n' then (c, .comment) :: refLex rest else (c, .comment) :: refComment rest
    termination_by s => s.length
end

/-- The bracket characters that are code according to a classification. -/
def codeBracketsOf (t : List (Char × Cls)) : List Char :=
  (t.filter (fun p => p.2 == Cls.code && isBracket p.1)).map (·.1)

/-- The bracket tokens of an input according to the reference lexer. -/
def codeBrackets (s : List Char) : List Char := codeBracketsOf (refLex s)

/-! ## Nesting depth of a bracket sequence -/

/-- Number of openers minus number of closers (kinds ignored), as an integer. -/
def netDepth : List Char → Int
  | [] => 0
  | c :: cs => (if isOpener c then 1 else if (closerOf c).isSome then -1 else 0) + netDepth cs

/-- The strict matcher a recursive-descent parser implements: an opener pushes, the matching closer
pops, anything else stops the parse (`none`).  Returns the deepest stack seen until then. -/
def strictDepth : List Char → List Char → Nat → Nat
  | _, [], best => best
  | stk, c :: cs, best =>
    if isOpener c then strictDepth (c :: stk) cs (max best (stk.length + 1))
    else
      match closerOf c with
      | none => strictDepth stk cs best
      | some o =>
        match stk with
        | top :: rest => if top == o then strictDepth rest cs best else best
        | [] => best

/-- Does the strict matcher read the whole sequence (every closer matches the open bracket)? -/
def strictReads : List Char → List Char → Bool
  | _, [] => true
  | stk, c :: cs =>
    if isOpener c then strictReads (c :: stk) cs
    else
      match closerOf c with
      | none => strictReads stk cs
      | some o =>
        match stk with
        | top :: rest => if top == o then strictReads rest cs else false
        | [] => false

/-- The bracket stack of `step` on its own (fed only the code brackets). -/
def stackRun (maxDepth : Nat) : List Char → List Char → Except BudgetErr (List Char)
  | stk, [] => .ok stk
  | stk, c :: cs =>
    if isOpener c then
      if (c :: stk).length > maxDepth then .error .tooDeep else stackRun maxDepth (c :: stk) cs
    else
      match closerOf c, stk with
      | some o, top :: rest => if top == o then stackRun maxDepth rest cs else stackRun maxDepth stk cs
      | _, _ => stackRun maxDepth stk cs

/-! ## Trivia and classification -/

/-- `char::is_whitespace` (Unicode `White_Space`). -/
def isWhitespace (c : Char) : Bool :=
  let n := c.toNat
  (0x09 ≤ n && n ≤ 0x0D) || n == 0x20 || n == 0x85 || n == 0xA0 || n == 0x1680 ||
  (0x2000 ≤ n && n ≤ 0x200A) || n == 0x2028 || n == 0x2029 || n == 0x202F || n == 0x205F || n == 0x3000

mutual
  /-- `skip_ws_and_comments`: the rest of the input after leading whitespace and `//` comments. -/
  def skipTrivia : List Char → List Char
    | [] => []
    | c :: rest =>
      if isWhitespace c then skipTrivia rest
      else if c == '/' then
        match rest with
        | c2 :: rest2 => if c2 == '/' then skipLine rest2 else c :: rest
        | [] => c :: rest
      else c :: rest
  /-- inside a `//` comment: through the next `'\n'`, or to the end of the input -/
  def skipLine : List Char → List Char
    | [] => []
    | c :: rest => if c == '\n' then skipTrivia rest else skipLine rest
end

inductive Family where
  | kql | kml | metaC
  deriving DecidableEq, Repr

/-- Code point after ASCII lower-casing. `tag_no_case` compares `to_lowercase()` of both sides; against
an ASCII keyword without `K` that is ASCII case folding (U+212A KELVIN SIGN is the only non-ASCII
character whose lowercase is an ASCII letter). -/
def foldNat (c : Char) : Nat :=
  if 0x41 ≤ c.toNat ∧ c.toNat ≤ 0x5A then c.toNat + 32 else c.toNat

def isAsciiAlnum (c : Char) : Bool :=
  let n := c.toNat
  (0x30 ≤ n && n ≤ 0x39) || (0x41 ≤ n && n ≤ 0x5A) || (0x61 ≤ n && n ≤ 0x7A)

/-- `char::is_alphanumeric`: exact on ASCII; on the rest of Unicode the standard library's table is
a parameter `uni` of the model (the harness supplies its values for the characters of each input). -/
def isAlnum (uni : Char → Bool) (c : Char) : Bool :=
  if c.toNat < 0x80 then isAsciiAlnum c else uni c

/-- `tag_no_case(kw)`: the rest of the input after a case-insensitive match of `kw`. -/
def matchKeyword : List Char → List Char → Option (List Char)
  | [], s => some s
  | _ :: _, [] => none
  | k :: ks, c :: cs => if foldNat k == foldNat c then matchKeyword ks cs else none

/-- `word_boundary`: the next character, if any, does not glue to a keyword. -/
def wordBoundary (uni : Char → Bool) : List Char → Bool
  | [] => true
  | c :: _ => !(isAlnum uni c || c == '_' || c == '?' || c == '"')

/-- `word(kw)` succeeds at the start of `s`. -/
def matchWord (uni : Char → Bool) (kw s : List Char) : Bool :=
  match matchKeyword kw s with
  | some rest => wordBoundary uni rest
  | none => false

/-! ## Multi-word keywords (`words(&["ORDER", "BY"])`, common.rs)

Between two words `trivia1` must succeed: at least one whitespace character
(`take_while1(char::is_whitespace)` — the same class `skip_ws_and_comments` uses; before commit
b2b3330 this was `multispace1`, i.e. space / tab / CR / LF only), or a `//` ahead; then
`skip_ws_and_comments`. -/

/-- `trivia1`. -/
def trivia1 : List Char → Option (List Char)
  | [] => none
  | c :: rest =>
    if isWhitespace c then some (skipTrivia (rest.dropWhile isWhitespace))
    else if c == '/' then
      match rest with
      | c2 :: _ => if c2 == '/' then some (skipTrivia (c :: rest)) else none
      | [] => none
    else none

/-- the words after the first: `trivia1`, `tag_no_case(w)`, …, finally `word_boundary` -/
def matchWordsTail (uni : Char → Bool) : List (List Char) → List Char → Bool
  | [], s => wordBoundary uni s
  | w :: ws, s =>
    match trivia1 s with
    | none => false
    | some r =>
      match matchKeyword w r with
      | none => false
      | some r2 => matchWordsTail uni ws r2

/-- `words(kws)` succeeds at the start of `s`. -/
def matchWords (uni : Char → Bool) : List (List Char) → List Char → Bool
  | [], s => wordBoundary uni s
  | w :: ws, s =>
    match matchKeyword w s with
    | none => false
    | some r => matchWordsTail uni ws r

/-- The head-keyword table, in `parse_kip`'s `alt` order. -/
def headTable : List (Family × List Char) :=
  Gen.KipLimits.kqlHeads.map (fun k => (Family.kql, k)) ++
  Gen.KipLimits.kmlHeads.map (fun k => (Family.kml, k)) ++
  Gen.KipLimits.metaHeads.map (fun k => (Family.metaC, k))

def classifyIn (uni : Char → Bool) (table : List (Family × List Char)) (s : List Char) : Option Family :=
  match table.find? (fun e => matchWord uni e.2 s) with
  | some e => some e.1
  | none => none

/-- The family whose head keyword starts the text (after leading trivia), if any. -/
def classify (uni : Char → Bool) (s : List Char) : Option Family :=
  classifyIn uni headTable (skipTrivia s)

end AndaVerif.Model.KipLex
