import AndaVerif.Model.Sched
import AndaVerif.Gen.NexusOrder
/-
Readers and writers of one Cognitive Nexus under its `RwLock` (`nexus.rs`, `Session::execute`):
a KML statement takes the lock side `Gen.NexusOrder.lockKml` for its whole execution — a *list* of
atomic steps over the store (begin, each shell insert, each `put`, each version row, the journal
row …) — a KQL / META command takes `lockKql` / `lockMeta`, reads, and releases.

The lock is modelled by who holds it: at most one exclusive holder, any number of shared holders,
never both (tokio's `RwLock`).  Generic in the store type `σ` and in how a statement is cut into
steps, so the theorem covers every decomposition of `kml::execute`.
-/
namespace AndaVerif.TxSched
open AndaVerif.Gen.NexusOrder (LockKind)

variable {σ : Type}

inductive Role where
  | writer | reader | metaCmd
  deriving DecidableEq, Repr

structure Thread (σ : Type) where
  role : Role
  /-- a writer's statement, cut into atomic steps -/
  orig : List (σ → σ)
  /-- the steps still to run -/
  rem : List (σ → σ)
  /-- 0 = has not asked for the lock, 1 = holds it, 2 = released it -/
  pc : Nat
  /-- what a reader saw -/
  seen : Option σ

structure Cfg (σ : Type) where
  st : σ
  /-- the exclusive holder -/
  xholder : Option Nat
  /-- the shared holders -/
  holders : List Nat
  threads : Nat → Option (Thread σ)
  /-- ghost: the store at every moment a statement completed (newest first), the initial store last -/
  bounds : List σ

def setThread (f : Nat → Option (Thread σ)) (t : Nat) (x : Thread σ) : Nat → Option (Thread σ) :=
  fun u => if u = t then some x else f u

/-- the lock side a thread asks for: generated from `Session::execute` -/
def sideOf : Role → LockKind
  | .writer => AndaVerif.Gen.NexusOrder.lockKml
  | .reader => AndaVerif.Gen.NexusOrder.lockKql
  | .metaCmd => AndaVerif.Gen.NexusOrder.lockMeta

def applyAll (fs : List (σ → σ)) (s : σ) : σ := fs.foldl (fun s f => f s) s

/-- thread `t`'s next atomic action, when enabled -/
def step (t : Nat) (c : Cfg σ) : Option (Cfg σ) :=
  match c.threads t with
  | none => none
  | some th =>
      if th.pc = 0 then
        -- acquire
        match sideOf th.role with
        | .exclusive =>
            if c.xholder = none ∧ c.holders = [] then
              some { c with xholder := some t, threads := setThread c.threads t { th with pc := 1 } }
            else none
        | .shared =>
            if c.xholder = none then
              some { c with holders := t :: c.holders, threads := setThread c.threads t { th with pc := 1 } }
            else none
      else if th.pc = 1 then
        match th.role with
        | .writer =>
            match th.rem with
            | f :: r => some { c with st := f c.st, threads := setThread c.threads t { th with rem := r } }
            | [] =>
                -- the statement is complete: release, and this store is a statement boundary
                some { c with xholder := (if c.xholder = some t then none else c.xholder),
                              holders := c.holders.erase t,
                              threads := setThread c.threads t { th with pc := 2 },
                              bounds := c.st :: c.bounds }
        | _ =>
            match th.seen with
            | none => some { c with threads := setThread c.threads t { th with seen := some c.st } }
            | some _ =>
                some { c with xholder := (if c.xholder = some t then none else c.xholder),
                              holders := c.holders.erase t,
                              threads := setThread c.threads t { th with pc := 2 } }
      else none

/-- an initial configuration: nobody holds the lock, nothing was read, every statement is whole -/
def Initial (c : Cfg σ) : Prop :=
  c.xholder = none ∧ c.holders = [] ∧ c.bounds = [c.st] ∧
  ∀ t th, c.threads t = some th → th.pc = 0 ∧ th.seen = none ∧ th.rem = th.orig

end AndaVerif.TxSched
