import AndaVerif.Gen.FilterConsts
/-
Model of `Collection`'s filter evaluator (rs/anda_db/src/collection.rs):
`filter_by_field`, `filter_by_field_with`, `filter_by_id`, `ScanOrder::truncate`, and the three
entry points `query_ids` / `query_last_ids` / `query_all_ids`, plus `filter_by_field` with a
candidate list (the `search_ids` restriction).

What is mirrored: the control flow of every arm, the unbounded (`limit = 0`) evaluation of
composite operands, the early stop in *id* order of the `_id` ranges and of the complement walk,
first-occurrence de-duplication (`UniqueVec`), `And`'s "evaluate, then stop on empty" order (which
can mask an error of a later conjunct), the `MAX_SEARCH_LIMIT` clamp and `Some(0) ⇒ []`.

What is abstracted: a B-tree index is an association list key ↦ posting list whose range scan
returns the postings of the matching keys (that the real index does that is property C10);
hash-set iteration order is replaced by a canonical order (it never reaches the caller: results
are sorted, or used as sets); index names are numbers; keys and `_id` bounds are `Int`.
Import-free: linked into `drv_c03`.
-/
namespace AndaVerif.Filter

/-- `RangeQuery<FV>` of `anda_db_btree`. -/
inductive RQ where
  | eq (k : Int) | gt (k : Int) | ge (k : Int) | lt (k : Int) | le (k : Int)
  | between (a b : Int)
  | incl (ks : List Int)
  | and (qs : List RQ)
  | or (qs : List RQ)
  | not (q : RQ)
  deriving Repr

/-- `Filter` of `anda_db::query`; `id` is `Field(("_id", q))`, `field ix q` a B-tree index. -/
inductive Filter where
  | id (q : RQ)
  | field (ix : Nat) (q : RQ)
  | or (fs : List Filter)
  | and (fs : List Filter)
  | not (f : Filter)
  deriving Repr

/-- One B-tree index: key ↦ posting list (ids). -/
abbrev OMap := List (Int × List Nat)

structure Coll where
  /-- `doc_ids_index`, ascending and duplicate-free -/
  ids : List Nat
  /-- B-tree indexes by (numeric) name -/
  idx : List (Nat × OMap)

inductive Err where
  | noIndex
  | complexity
  deriving Repr, DecidableEq

/-- `MAX_SEARCH_LIMIT`, regenerated from the source on every run. -/
def maxSearchLimit : Nat := Gen.FilterConsts.maxSearchLimit

-- ------------------------------------------------------------------------------------------
-- key-level denotation (`range_key_matches_query`)
-- ------------------------------------------------------------------------------------------

mutual
def RQ.matches : RQ → Int → Bool
  | .eq v, k => k == v
  | .gt v, k => decide (v < k)
  | .ge v, k => decide (v ≤ k)
  | .lt v, k => decide (k < v)
  | .le v, k => decide (k ≤ v)
  | .between a b, k => decide (a ≤ b) && decide (a ≤ k) && decide (k ≤ b)
  | .incl ks, k => ks.contains k
  | .and qs, k => !qs.isEmpty && RQ.matchesAll qs k
  | .or qs, k => RQ.matchesAny qs k
  | .not q, k => !q.matches k
def RQ.matchesAll : List RQ → Int → Bool
  | [], _ => true
  | q :: qs, k => q.matches k && RQ.matchesAll qs k
def RQ.matchesAny : List RQ → Int → Bool
  | [], _ => false
  | q :: qs, k => q.matches k || RQ.matchesAny qs k
end

-- ------------------------------------------------------------------------------------------
-- small list utilities (UniqueVec, sort_unstable)
-- ------------------------------------------------------------------------------------------

/-- `UniqueVec::extend`: append the elements not seen yet, in order. -/
def pushUnique (acc : List Nat) : List Nat → List Nat
  | [] => acc
  | x :: xs => if acc.contains x then pushUnique acc xs else pushUnique (acc ++ [x]) xs

def dedup (xs : List Nat) : List Nat := pushUnique [] xs

def insertSorted (x : Nat) : List Nat → List Nat
  | [] => [x]
  | y :: ys => if x ≤ y then x :: y :: ys else y :: insertSorted x ys

/-- `sort_unstable` on ids. -/
def isort : List Nat → List Nat
  | [] => []
  | x :: xs => insertSorted x (isort xs)

/-- candidate test: `candidates.is_none_or(|s| s.contains(id))` -/
def inC (cands : Option (List Nat)) (i : Nat) : Bool :=
  match cands with
  | none => true
  | some s => s.contains i

/-- The `walk!` macro of `filter_by_id` (and the complement walks): `xs` is ascending; walk it in
the requested direction, keep what passes the candidate test, stop after `limit` pushes
(`0` = unbounded), hand the result back ascending. -/
def walk (xs : List Nat) (cands : Option (List Nat)) (limit : Nat) (desc : Bool) : List Nat :=
  let src := if desc then xs.reverse else xs
  let kept := src.filter (inC cands)
  let tmp := if limit > 0 then kept.take limit else kept
  if desc then tmp.reverse else tmp

-- ------------------------------------------------------------------------------------------
-- `filter_by_id`
-- ------------------------------------------------------------------------------------------

mutual
def filterById (ids : List Nat) : RQ → Option (List Nat) → Nat → Bool → List Nat
  | .eq v, cands, _, _ =>
      if 0 ≤ v && ids.contains v.toNat && inC cands v.toNat then [v.toNat] else []
  | .gt v, cands, l, d => walk (ids.filter (fun i => decide (v < (i : Int)))) cands l d
  | .ge v, cands, l, d => walk (ids.filter (fun i => decide (v ≤ (i : Int)))) cands l d
  | .lt v, cands, l, d => walk (ids.filter (fun i => decide ((i : Int) < v))) cands l d
  | .le v, cands, l, d => walk (ids.filter (fun i => decide ((i : Int) ≤ v))) cands l d
  | .between a b, cands, l, d =>
      if b < a then [] else walk (ids.filter (fun i => decide (a ≤ (i : Int)) && decide ((i : Int) ≤ b))) cands l d
  | .incl ks, cands, l, d =>
      -- sort + dedup the requested ids, keep the live ones, walk
      walk ((isort (dedup ((ks.filter (fun k => decide (0 ≤ k))).map Int.toNat))).filter (fun i => ids.contains i)) cands l d
  | .and qs, cands, _, d => filterByIdAnd ids qs cands d
  | .or qs, cands, _, d => filterByIdOr ids qs cands d []
  | .not q, cands, l, d =>
      let exclude := filterById ids q none 0 d
      walk (ids.filter (fun i => !exclude.contains i)) cands l d
/-- `RangeQuery::And`: first operand, then `intersect_with` each further one; stop on empty. -/
def filterByIdAnd (ids : List Nat) : List RQ → Option (List Nat) → Bool → List Nat
  | [], _, _ => []
  | q :: qs, cands, d => filterByIdAndRest ids qs cands d (dedup (filterById ids q cands 0 d))
def filterByIdAndRest (ids : List Nat) : List RQ → Option (List Nat) → Bool → List Nat → List Nat
  | [], _, _, rt => rt
  | q :: qs, cands, d, rt =>
      let keys := filterById ids q cands 0 d
      let rt' := rt.filter (fun i => keys.contains i)
      if rt'.isEmpty then [] else filterByIdAndRest ids qs cands d rt'
/-- `RangeQuery::Or`: `UniqueVec::extend` of every branch, unbounded. -/
def filterByIdOr (ids : List Nat) : List RQ → Option (List Nat) → Bool → List Nat → List Nat
  | [], _, _, acc => acc
  | q :: qs, cands, d, acc => filterByIdOr ids qs cands d (pushUnique acc (filterById ids q cands 0 d))
end

-- ------------------------------------------------------------------------------------------
-- B-tree field scan (the `Filter::Field` arm over a B-tree index)
-- ------------------------------------------------------------------------------------------

/-- Postings of the keys matching `q`, in ascending (or descending) key order, candidates applied,
de-duplicated by first occurrence. The scan is **unbounded**: which ids a key-ordered early stop
would keep is unrelated to id order (see `Props/C03.lean`, `key_order_early_stop_counterexample`). -/
def fieldScan (m : OMap) (q : RQ) (cands : Option (List Nat)) (desc : Bool) : List Nat :=
  let groups := (m.filter (fun kp => q.matches kp.1)).map (fun kp => kp.2.filter (inC cands))
  let groups := if desc then groups.reverse else groups
  dedup groups.flatten

/-- The same arm with the early stop after `limit` distinct ids **in key order** that the code had
before the `fix:` commit (kept only to state the counterexample). -/
def fieldScanKeyOrderStop (m : OMap) (q : RQ) (cands : Option (List Nat)) (limit : Nat) (desc : Bool) : List Nat :=
  let all := fieldScan m q cands desc
  if limit > 0 then all.take limit else all

def lookupIdx (idx : List (Nat × OMap)) (ix : Nat) : Option OMap :=
  match idx with
  | [] => none
  | (n, m) :: rest => if n == ix then some m else lookupIdx rest ix

-- ------------------------------------------------------------------------------------------
-- `filter_by_field_with`
-- ------------------------------------------------------------------------------------------

mutual
def evalF (c : Coll) : Filter → Option (List Nat) → Nat → Bool → Except Err (List Nat)
  | .id q, cands, l, d => .ok (filterById c.ids q cands l d)
  | .field ix q, cands, _, d =>
      match lookupIdx c.idx ix with
      | none => .error .noIndex
      | some m => .ok (fieldScan m q cands d)
  | .or fs, cands, _, d => evalOr c fs cands d []
  | .and fs, cands, _, d => evalAnd c fs cands d
  | .not f, cands, l, d =>
      match evalF c f none 0 d with
      | .error e => .error e
      | .ok exclude => .ok (isort (walk (c.ids.filter (fun i => !exclude.contains i)) cands l d))
def evalOr (c : Coll) : List Filter → Option (List Nat) → Bool → List Nat → Except Err (List Nat)
  | [], _, _, acc => .ok (isort acc)
  | f :: fs, cands, d, acc =>
      match evalF c f cands 0 d with
      | .error e => .error e
      | .ok r => evalOr c fs cands d (pushUnique acc r)
def evalAnd (c : Coll) : List Filter → Option (List Nat) → Bool → Except Err (List Nat)
  | [], _, _ => .ok []
  | f :: fs, cands, d =>
      match evalF c f cands 0 d with
      | .error e => .error e
      | .ok r => evalAndRest c fs d (isort (dedup r))
def evalAndRest (c : Coll) : List Filter → Bool → List Nat → Except Err (List Nat)
  | [], _, rt => .ok rt
  | f :: fs, d, rt =>
      match evalF c f (some rt) 0 d with
      | .error e => .error e
      | .ok r =>
          let rt' := isort (dedup r)
          if rt'.isEmpty then .ok [] else evalAndRest c fs d rt'
end

-- ------------------------------------------------------------------------------------------
-- `Filter::validate_complexity` (rs/anda_db/src/query.rs): depth / node / branch / include budget
-- ------------------------------------------------------------------------------------------

/-- `ComplexityStats` -/
structure Stats where
  nodes : Nat
  branches : Nat
  deriving Repr, DecidableEq

def bumpNode (s : Stats) : Except Err Stats :=
  if s.nodes + 1 > Gen.FilterConsts.maxFilterNodes then .error .complexity else .ok { s with nodes := s.nodes + 1 }

def bumpBranches (s : Stats) (n : Nat) : Except Err Stats :=
  if s.branches + n > Gen.FilterConsts.maxFilterBranches then .error .complexity else .ok { s with branches := s.branches + n }

mutual
def validateRange : RQ → Nat → Stats → Except Err Stats
  | q, depth, s =>
      if depth > Gen.FilterConsts.maxFilterDepth then .error .complexity
      else match bumpNode s with
        | .error e => .error e
        | .ok s =>
          match q with
          | .incl ks => if ks.length > Gen.FilterConsts.maxRangeIncludeKeys then .error .complexity else .ok s
          | .and qs => match bumpBranches s qs.length with
              | .error e => .error e
              | .ok s => validateRanges qs (depth + 1) s
          | .or qs => match bumpBranches s qs.length with
              | .error e => .error e
              | .ok s => validateRanges qs (depth + 1) s
          | .not q => validateRange q (depth + 1) s
          | _ => .ok s
def validateRanges : List RQ → Nat → Stats → Except Err Stats
  | [], _, s => .ok s
  | q :: qs, depth, s =>
      match validateRange q depth s with
      | .error e => .error e
      | .ok s => validateRanges qs depth s
end

mutual
def validateFilter : Filter → Nat → Stats → Except Err Stats
  | f, depth, s =>
      if depth > Gen.FilterConsts.maxFilterDepth then .error .complexity
      else match bumpNode s with
        | .error e => .error e
        | .ok s =>
          match f with
          | .id q => validateRange q (depth + 1) s
          | .field _ q => validateRange q (depth + 1) s
          | .or fs => match bumpBranches s fs.length with
              | .error e => .error e
              | .ok s => validateFilters fs (depth + 1) s
          | .and fs => match bumpBranches s fs.length with
              | .error e => .error e
              | .ok s => validateFilters fs (depth + 1) s
          | .not f => validateFilter f (depth + 1) s
def validateFilters : List Filter → Nat → Stats → Except Err Stats
  | [], _, s => .ok s
  | f :: fs, depth, s =>
      match validateFilter f depth s with
      | .error e => .error e
      | .ok s => validateFilters fs depth s
end

/-- `Filter::validate_complexity` -/
def withinBudget (f : Filter) : Bool :=
  match validateFilter f 0 { nodes := 0, branches := 0 } with
  | .ok _ => true
  | .error _ => false

-- ------------------------------------------------------------------------------------------
-- `filter_by_field`, `ScanOrder::truncate`, entry points
-- ------------------------------------------------------------------------------------------

def filterByField (c : Coll) (f : Filter) (cands : List Nat) (limit : Nat) (desc : Bool) : Except Err (List Nat) :=
  if cands.isEmpty then
    match evalF c f none limit desc with
    | .error e => .error e
    | .ok r => .ok (isort r)
  else
    match evalF c f (some cands) 0 desc with
    | .error e => .error e
    | .ok matched => .ok (cands.filter (fun i => matched.contains i))

def truncate (desc : Bool) (r : List Nat) (limit : Nat) : List Nat :=
  if limit == 0 || r.length ≤ limit then r
  else if desc then r.drop (r.length - limit) else r.take limit

/-- `query_ids_from` -/
def queryFrom (c : Coll) (f : Filter) (limit : Option Nat) (desc : Bool) : Except Err (List Nat) :=
  if limit == some 0 then .ok []
  else
    let l := min (limit.getD maxSearchLimit) maxSearchLimit
    match filterByField c f [] l desc with
    | .error e => .error e
    | .ok r => .ok (truncate desc r l)

def queryIds (c : Coll) (f : Filter) (limit : Option Nat) := queryFrom c f limit false
def queryLastIds (c : Coll) (f : Filter) (limit : Option Nat) := queryFrom c f limit true
def queryAllIds (c : Coll) (f : Filter) : Except Err (List Nat) := filterByField c f [] 0 false

/-- The public entry points as called: `validate_complexity` first, then the evaluation. -/
def guarded (f : Filter) (k : Except Err (List Nat)) : Except Err (List Nat) :=
  if withinBudget f then k else .error .complexity
def apiQueryIds (c : Coll) (f : Filter) (limit : Option Nat) := guarded f (queryIds c f limit)
def apiQueryLastIds (c : Coll) (f : Filter) (limit : Option Nat) := guarded f (queryLastIds c f limit)
def apiQueryAllIds (c : Coll) (f : Filter) := guarded f (queryAllIds c f)

/-- The filter stage of `search_ids`: candidates in relevance order (already unique), restricted
to the filter's match set, head kept. -/
def searchFilter (c : Coll) (f : Filter) (cands : List Nat) (limit : Nat) : Except Err (List Nat) :=
  let topK := min (limit * Gen.FilterConsts.searchFactor) Gen.FilterConsts.searchCap
  match filterByField c f cands topK false with
  | .error e => .error e
  | .ok r => .ok (truncate false r limit)

/-- `search_ids` after its index stage. `cands` is what the index stage produced: `none` when the
query has no `search` part, `some cs` = the fused, relevance-ordered, duplicate-free candidate list
(at most `top_k` per index; the BM25 / HNSW / RRF ranking itself is C11's / C12's business).
`limit` is the caller's `Query::limit`. -/
def searchIds (c : Coll) (f : Option Filter) (cands : Option (List Nat)) (limit : Option Nat) :
    Except Err (List Nat) :=
  let l := min (limit.getD Gen.FilterConsts.searchDefaultLimit) maxSearchLimit
  if l == 0 then .ok []
  else
    let topK := min (l * Gen.FilterConsts.searchFactor) Gen.FilterConsts.searchCap
    match cands with
    | some [] => .ok []                       -- `if candidates.is_empty() { return Ok(result) }`
    | _ =>
      let cs := cands.getD []
      match f with
      | none => .ok (truncate false cs l)     -- `None => result = candidates`
      | some f =>
        match filterByField c f cs topK false with
        | .error e => .error e
        | .ok r => .ok (truncate false r l)

/-- `search_ids` as called: `Query::validate_complexity` first. -/
def apiSearchIds (c : Coll) (f : Option Filter) (cands : Option (List Nat)) (limit : Option Nat) :
    Except Err (List Nat) :=
  match f with
  | some g => if withinBudget g then searchIds c f cands limit else .error .complexity
  | none => searchIds c f cands limit

-- ------------------------------------------------------------------------------------------
-- id-level denotation: the set-algebra reading
-- ------------------------------------------------------------------------------------------

mutual
def denote (c : Coll) : Filter → Nat → Bool
  | .id q, i => c.ids.contains i && q.matches (i : Int)
  | .field ix q, i =>
      match lookupIdx c.idx ix with
      | none => false
      | some m => m.any (fun kp => q.matches kp.1 && kp.2.contains i)
  | .or fs, i => denoteAny c fs i
  | .and fs, i => !fs.isEmpty && denoteAll c fs i
  | .not f, i => c.ids.contains i && !denote c f i
def denoteAny (c : Coll) : List Filter → Nat → Bool
  | [], _ => false
  | f :: fs, i => denote c f i || denoteAny c fs i
def denoteAll (c : Coll) : List Filter → Nat → Bool
  | [], _ => true
  | f :: fs, i => denote c f i && denoteAll c fs i
end

-- Every index named by the filter exists (otherwise evaluation may fail with `noIndex`).
mutual
def Filter.indexesExist (c : Coll) : Filter → Bool
  | .id _ => true
  | .field ix _ => (lookupIdx c.idx ix).isSome
  | .or fs => Filter.indexesExistAll c fs
  | .and fs => Filter.indexesExistAll c fs
  | .not f => f.indexesExist c
def Filter.indexesExistAll (c : Coll) : List Filter → Bool
  | [] => true
  | f :: fs => f.indexesExist c && Filter.indexesExistAll c fs
end

/-- Well-formed collection: ids strictly ascending; every posting id is a live id
(that is C02's index/document agreement, assumed here). -/
def Coll.WF (c : Coll) : Prop :=
  c.ids.Pairwise (· < ·) ∧ ∀ ix m, lookupIdx c.idx ix = some m → ∀ kp ∈ m, ∀ i ∈ kp.2, i ∈ c.ids

end AndaVerif.Filter
