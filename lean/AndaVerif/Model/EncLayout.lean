/-
C09: byte layout of everything `EncryptedStore` hands to the backend.

 * `encodeDoc`   – the sidecar document as cbor2/serde writes it (`to_writer(&meta)`): a definite-length
                   map, one entry per field in declaration order, keys and omission rules from the
                   **generated** `serdeFields`, shortest-form heads;
 * `metaPath` / `payloadPath` – the backend keys (`meta/<loc>`, `gen/<loc>/<generation>`, `data/<loc>`);
 * `putWrites` / `mpWrites` / `copyWrites` – the backend writes of `put_opts`, of a multipart upload
   (every forwarded part, then the document) and of `copy_opts`;
 * `assemble`    – the same bytes computed **without the plaintext**: from its length, the AEAD outputs of
                   the chunks and the fresh values only.
-/
import AndaVerif.Model.Enc

namespace AndaVerif.Enc
open AndaVerif.Gen.EncAad

/-- big-endian bytes of `n`, `k` of them -/
def beBytes : Nat → Nat → Bytes
  | 0, _ => []
  | k + 1, n => (n / 256 ^ k % 256) :: beBytes k n

/-- CBOR head: major type and argument in shortest form (RFC 8949 §3). -/
def cborHead (major n : Nat) : Bytes :=
  if n < 24 then [major * 32 + n]
  else if n < 256 then [major * 32 + 24, n]
  else if n < 65536 then (major * 32 + 25) :: beBytes 2 n
  else if n < 4294967296 then (major * 32 + 26) :: beBytes 4 n
  else (major * 32 + 27) :: beBytes 8 n

def cborUint (n : Nat) : Bytes := cborHead 0 n
def cborBytes (b : Bytes) : Bytes := cborHead 2 b.length ++ b
def cborText (b : Bytes) : Bytes := cborHead 3 b.length ++ b
def cborNull : Bytes := [246]

/-- serde's rendering of one field value; `none` = the value is `None`. -/
def cborField (m : Meta) : Field → Option Bytes
  | .location => none
  | .size => some (cborUint m.size)
  | .eTag => m.eTag.map cborText
  | .originalTag => m.originalTag.map cborText
  | .originalVersion => m.originalVersion.map cborText
  | .aesNonce => some (cborBytes m.aesNonce)
  | .aesTags => some (cborHead 4 m.aesTags.length ++ (m.aesTags.map cborBytes).flatten)
  | .chunkSize => m.chunkSize.map cborUint
  | .chunkAadVersion => m.chunkAadVersion.map cborUint
  | .authNonce => m.authNonce.map cborBytes
  | .authTag => m.authTag.map cborBytes
  | .generation => m.generation.map cborText
  | .committedAtMs => m.committedAtMs.map cborUint

/-- The map entries serde emits, in field order: a `None` is `null`, or nothing when the field is marked
`skip_serializing_if = "Option::is_none"`. -/
def docEntries (m : Meta) : List (Field × List Nat × Bool) → List Bytes
  | [] => []
  | (f, key, skip) :: rest =>
    match cborField m f with
    | some v => (cborText key ++ v) :: docEntries m rest
    | none => if skip then docEntries m rest else (cborText key ++ cborNull) :: docEntries m rest

/-- `cbor2::to_writer(&meta)`. -/
def encodeDoc (m : Meta) : Bytes :=
  let es := docEntries m serdeFields
  cborHead 5 es.length ++ es.flatten

/-! ## backend keys -/

def slash : Nat := 47
/-- `meta/<loc>` -/
def metaPath (loc : Bytes) : Bytes := [109, 101, 116, 97, slash] ++ loc
/-- `gen/<loc>/<generation>` or the legacy `data/<loc>` -/
def payloadPath (loc : Bytes) : Option Bytes → Bytes
  | some g => [103, 101, 110, slash] ++ loc ++ [slash] ++ g
  | none => [100, 97, 116, 97, slash] ++ loc

structure BackendWrite where
  path : Bytes
  bytes : Bytes
  deriving DecidableEq, Repr

/-! ## what the operations write -/

/-- `put_opts`: the ciphertext object, then the commit point. -/
def putWrites (A : AEAD) (c : Nat) (loc plain : Bytes) (f : Fresh) : List BackendWrite :=
  let w := writeObject A c loc plain f
  [⟨payloadPath loc w.2.generation, w.1⟩, ⟨metaPath loc, encodeDoc w.2⟩]

/-- The unsealed document of a fresh write, from public values only. -/
def freshDoc (c len : Nat) (tags : List Bytes) (f : Fresh) : Meta :=
  { size := len, eTag := some f.eTag, originalTag := none, originalVersion := none,
    aesNonce := f.baseNonce, aesTags := tags, chunkSize := some c,
    chunkAadVersion := some chunkAadBound, authNonce := none, authTag := none,
    generation := some f.generation, committedAtMs := some f.committedAtMs }

/-- The backend writes of a put computed from the plaintext **length**, the AEAD outputs
`(ciphertext, tag)` of the chunks and the fresh values — no plaintext argument. -/
def assemble (A : AEAD) (c : Nat) (loc : Bytes) (len : Nat) (sealed : List (Bytes × Bytes)) (f : Fresh) :
    List BackendWrite :=
  let doc := sealMeta A loc f.authNonce (freshDoc c len (sealed.map (·.2)) f)
  [⟨payloadPath loc (some f.generation), (sealed.map (·.1)).flatten⟩, ⟨metaPath loc, encodeDoc doc⟩]

/-- Multipart upload: the parts forwarded to the backend upload (in order), one per `put_part` that
completed at least one chunk. -/
def mpForward (A : AEAD) (c : Nat) (base : Bytes) : MpState → List Bytes → List Bytes × MpState
  | s, [] => ([], s)
  | s, part :: rest =>
    let s' := mpPutPart A c base s part
    let fwd := s'.out.drop s.out.length
    let (more, sEnd) := mpForward A c base s' rest
    (if (s.buf ++ part).length < c then more else fwd :: more, sEnd)

/-- Everything a multipart upload writes: the forwarded parts and the tail (all under the generation
path), then the commit point. -/
def mpWrites (A : AEAD) (c : Nat) (loc : Bytes) (parts : List Bytes) (f : Fresh) : List BackendWrite :=
  let (fwd, s) := mpForward A c f.baseNonce MpState.init parts
  let fin := mpComplete A c loc f s
  let tail := fin.1.drop s.out.length
  (fwd ++ (if s.buf.isEmpty then [] else [tail])).map (fun b => ⟨payloadPath loc (some f.generation), b⟩) ++
    [⟨metaPath loc, encodeDoc fin.2⟩]

/-- `copy_opts`: the payload bytes copied verbatim to the new generation of the target, then the
resealed document. -/
def copyWrites (A : AEAD) (toLoc : Bytes) (src : Meta) (payload : Bytes) (f : Fresh) :
    Except RErr (List BackendWrite) :=
  match copyMeta A toLoc src f with
  | .error e => .error e
  | .ok doc => .ok [⟨payloadPath toLoc doc.generation, payload⟩, ⟨metaPath toLoc, encodeDoc doc⟩]

end AndaVerif.Enc
