import AndaVerif.Model.Schema
/-
Document / schema level of `anda_db_schema` (property C13), on top of `Model/Schema.lean`:

* `FieldType::extract` / `FieldValue::try_from` (+ `*_from` helpers, `map_from_at`)  → `extract`, `tryFrom`
* `FieldType::is_compatible_upgrade_of`                                            → `compatible`
* `SchemaBuilder::{new, add_field, build}`                                          → `Schema.build`
* `Schema::{allocated_idx_end, validate, upgrade_with}`                             → same names
* `Document::{set_field, try_from, try_from_doc, drop_retired_fields, normalize_fields}`
                                                                                    → `Doc.setField`, `tryFromTyped`, `tryFromDoc`

A schema is the list of its entries in field-name order (`BTreeMap<String, FieldEntry>`; the
harness presents that order, names are distinct). A document is an association list idx ↦ value.
CBOR maps handed to `extract` are presented in key order (the result is a `BTreeMap`).
-/
namespace AndaVerif.Schema

/-! ## `FieldValue::try_from` (shape-driven, from a CBOR value) -/

/-- `impl TryFrom<Value> for FieldKey`: no integer-sequence keys here (unlike `KeyVisitor`). -/
def keyFrom : DM → Option FieldKey
  | .text s => some (.text s)
  | .int i => if i64Min ≤ i ∧ i ≤ i64Max then some (.i64 i) else none
  | .bytes b => some (.bytes b)
  | _ => none

mutual
def tryFrom (fm : FloatModel) : DM → Option FieldValue
  | .bool b => some (.bool b)
  | .int i =>
    if 0 ≤ i then (if i ≤ (u64Max : Int) then some (.u64 i.toNat) else none)
    else (if i64Min ≤ i then some (.i64 i) else none)
  | .float d => if fm.isNaN64 d then none else some (.f64 d)
  | .bytes b => some (.bytes b)
  | .text s => some (.text s)
  | .array xs => match tryFromL fm xs with
    | some vs => some (.array vs)
    | none => none
  | .map kvs => match tryFromM fm kvs with
    | some vs => some (.map vs)
    | none => none
  | .null => some .null
def tryFromL (fm : FloatModel) : List DM → Option (List FieldValue)
  | [] => some []
  | x :: xs => match tryFrom fm x, tryFromL fm xs with
    | some v, some vs => some (v :: vs)
    | _, _ => none
def tryFromM (fm : FloatModel) : List (DM × DM) → Option (List (FieldKey × FieldValue))
  | [] => some []
  | (k, x) :: xs => match keyFrom k, tryFrom fm x, tryFromM fm xs with
    | some k', some v, some vs => if vs.any (fun kv => kv.1 == k') then none else some ((k', v) :: vs)
    | _, _, _ => none
end

/-! ## `FieldType::extract` (type-driven) -/

def bytesFromInts : List DM → Option (List Nat)
  | [] => some []
  | .int i :: xs => if 0 ≤ i ∧ i ≤ 255 then (bytesFromInts xs).map (i.toNat :: ·) else none
  | _ :: _ => none

def bf16FromInts : List DM → Option (List Nat)
  | [] => some []
  | .int i :: xs => if 0 ≤ i ∧ i ≤ (u16Max : Int) then (bf16FromInts xs).map (i.toNat :: ·) else none
  | _ :: _ => none

def zipExtract : List (DM → Option FieldValue) → List DM → Option (List FieldValue)
  | [], [] => some []
  | f :: fs, x :: xs => match f x, zipExtract fs xs with
    | some v, some vs => some (v :: vs)
    | _, _ => none
  | _, _ => none

def mapMOpt {α β : Type} (f : α → Option β) : List α → Option (List β)
  | [] => some []
  | x :: xs => match f x, mapMOpt f xs with
    | some v, some vs => some (v :: vs)
    | _, _ => none

/-- the entry loop of `map_from_at`: key conversion, per-entry extraction, duplicate refusal -/
def extractEntries (step : FieldKey → DM → Option FieldValue) : List (DM × DM) → Option (List (FieldKey × FieldValue))
  | [] => some []
  | (k, x) :: rest => match keyFrom k with
    | none => none
    | some k' => match step k' x, extractEntries step rest with
      | some v, some vs => if vs.any (fun kv => kv.1 == k') then none else some ((k', v) :: vs)
      | _, _ => none

mutual
def extract (fm : FloatModel) : FieldType → DM → Option FieldValue
  | .bool, c => match c with | .bool b => some (.bool b) | _ => none
  | .i64, c => match c with
    | .int i => if i64Min ≤ i ∧ i ≤ i64Max then some (.i64 i) else none
    | _ => none
  | .u64, c => match c with
    | .int i => if 0 ≤ i ∧ i ≤ (u64Max : Int) then some (.u64 i.toNat) else none
    | _ => none
  | .f64, c => match c with
    | .float d => if fm.isNaN64 d then none else some (.f64 d)
    | _ => none
  | .f32, c => match c with
    | .float d =>
      if fm.isNaN64 d then none
      else
        let v := fm.narrow d
        if fm.isInf32 v && fm.isFinite64 d then none else some (.f32 v)
    | _ => none
  | .bytes, c => match c with
    | .bytes b => some (.bytes b)
    | .array xs => (bytesFromInts xs).map .bytes
    | _ => none
  | .text, c => match c with | .text s => some (.text s) | _ => none
  | .json, c => (jsonFrom fm c).map .json
  | .vector, c => match c with
    | .array xs => (bf16FromInts xs).map .vector
    | _ => none
  | .array ts, c => match c with
    | .array xs => (match ts with
      | [] => (tryFromL fm xs).map .array
      | [t] => (mapMOpt (extract fm t) xs).map .array
      | ts => (zipExtract (extractors fm ts) xs).map .array)
    | _ => none
  | .map kts, c => match c with
    | .map kvs =>
      let fs := keyExtractors fm kts
      if fs.isEmpty then (tryFromM fm kvs).map .map
      else match asWildcard fs with
        | some (w, f) =>
          (extractEntries (fun k x => if k.sameVariant w then f x else none) kvs).map .map
        | none =>
          match extractEntries (fun k x => match fs.lookup k with | some f => f x | none => none) kvs with
          | none => none
          | some vs =>
            -- missing declared keys must accept `Null`
            if (keyValidators fm kts).all (fun c => (vs.any (fun kv => kv.1 == c.1)) || c.2 .null)
            then some (.map vs) else none
    | _ => none
  | .option t, c => match c with
    | .null => some .null
    | c => extract fm t c
def extractors (fm : FloatModel) : List FieldType → List (DM → Option FieldValue)
  | [] => []
  | t :: ts => extract fm t :: extractors fm ts
def keyExtractors (fm : FloatModel) : List (FieldKey × FieldType) → List (FieldKey × (DM → Option FieldValue))
  | [] => []
  | (k, t) :: rest => (k, extract fm t) :: keyExtractors fm rest
end

/-- value part of `Document::try_from`: `FieldEntry::extract(v, false)` then the complexity pass. -/
def extractField (fm : FloatModel) (ft : FieldType) (c : DM) : Option FieldValue :=
  match extract fm ft c with
  | some v => if complexityOk Budget.default v then some v else none
  | none => none

/-! ## structural equality of types (`PartialEq`) and `is_compatible_upgrade_of` -/

mutual
def FieldType.beq : FieldType → FieldType → Bool
  | .bool, .bool | .i64, .i64 | .u64, .u64 | .f64, .f64 | .f32, .f32
  | .bytes, .bytes | .text, .text | .json, .json | .vector, .vector => true
  | .array a, .array b => FieldType.beqL a b
  | .map a, .map b => FieldType.beqM a b
  | .option a, .option b => FieldType.beq a b
  | _, _ => false
def FieldType.beqL : List FieldType → List FieldType → Bool
  | [], [] => true
  | a :: as, b :: bs => FieldType.beq a b && FieldType.beqL as bs
  | _, _ => false
def FieldType.beqM : List (FieldKey × FieldType) → List (FieldKey × FieldType) → Bool
  | [], [] => true
  | (k, a) :: as, (l, b) :: bs => k == l && FieldType.beq a b && FieldType.beqM as bs
  | _, _ => false
end

def zipAllT : List (FieldType → Bool) → List FieldType → Bool
  | [], [] => true
  | f :: fs, t :: ts => f t && zipAllT fs ts
  | _, _ => false

mutual
/-- `new.is_compatible_upgrade_of(old)`, structural in `new`. -/
def compatible : FieldType → FieldType → Bool
  | .array nts, old => match old with
    | .array ots => zipAllT (compatibles nts) ots
    | _ => false
  | .map nkts, old => match old with
    | .map okts =>
      let cs := keyCompatibles nkts
      (match asWildcard cs, asWildcard okts with
      | some (nk, c), some (ok, ot) => nk == ok && c.1 ot
      | some _, none => false
      | none, some _ => false
      -- the untyped map `Map({})` cannot be narrowed to explicit keys (repo commit 0e46ab3)
      | none, none => if okts.isEmpty && !cs.isEmpty then false else cs.all (fun c => match okts.lookup c.1 with
        | some ot => c.2.1 ot
        | none => c.2.2))
    | _ => false
  | .option n, old => match old with
    | .option o => compatible n o
    | _ => false
  | n, o => FieldType.beq n o
def compatibles : List FieldType → List (FieldType → Bool)
  | [] => []
  | t :: ts => compatible t :: compatibles ts
def keyCompatibles : List (FieldKey × FieldType) → List (FieldKey × (FieldType → Bool) × Bool)
  | [] => []
  | (k, t) :: rest => (k, compatible t, t.allowsNull) :: keyCompatibles rest
end

/-! ## Schema -/

structure FieldEntry where
  name : String
  ty : FieldType
  unique : Bool
  idx : Nat
  deriving Repr, Inhabited

def FieldEntry.required (f : FieldEntry) : Bool := !f.ty.allowsNull

structure Schema where
  /-- entries in field-name order -/
  fields : List FieldEntry
  version : Nat
  nextIdx : Nat
  deriving Repr, Inhabited

def Schema.idxs (s : Schema) : List Nat := s.fields.map (·.idx)

def listMax : List Nat → Nat
  | [] => 0
  | x :: xs => max x (listMax xs)

/-- `next_idx.max(idx.last().map_or(0, |l| l + 1))` -/
def Schema.allocatedIdxEnd (s : Schema) : Nat :=
  max s.nextIdx (if s.fields.isEmpty then 0 else listMax s.idxs + 1)

def Schema.byName (s : Schema) (n : String) : Option FieldEntry := s.fields.find? (·.name == n)
def Schema.byIdx (s : Schema) (i : Nat) : Option FieldEntry := s.fields.find? (·.idx == i)

/-- insert keeping name order (`BTreeMap::insert` of a fresh key) -/
def insertByName (f : FieldEntry) : List FieldEntry → List FieldEntry
  | [] => [f]
  | g :: gs => if f.name < g.name then f :: g :: gs else g :: insertByName f gs

def idEntry : FieldEntry := { name := "_id", ty := .u64, unique := true, idx := 0 }

/-- `SchemaBuilder::new` + `add_field`* + `build`: `added` in call order; idx 1, 2, … in that order. -/
def Schema.build (version : Nat) (added : List (String × FieldType × Bool)) : Option Schema :=
  let rec go (idx : Nat) (acc : List FieldEntry) : List (String × FieldType × Bool) → Option (List FieldEntry)
    | [] => some acc
    | (n, t, u) :: rest =>
      if acc.any (·.name == n) then none
      else if idx + 1 > u16Max then none
      else go (idx + 1) (insertByName { name := n, ty := t, unique := u, idx := idx + 1 } acc) rest
  match go 0 [idEntry] added with
  | none => none
  | some fs => some { fields := fs, version := version, nextIdx := listMax (fs.map (·.idx)) + 1 }

/-- `Schema::upgrade_with`: `new` is the freshly built schema, `old` the persisted one. -/
def Schema.upgradeWith (new old : Schema) : Option Schema :=
  if !(decide (new.version > old.version)) then none
  else
    let start := old.allocatedIdxEnd
    -- first pass: validation only
    let rec check (next : Nat) : List FieldEntry → Bool
      | [] => true
      | f :: rest => match old.byName f.name with
        | some g => compatible f.ty g.ty && (f.unique == g.unique) && check next rest
        | none => !f.required && decide (next ≤ u16Max) && check (next + 1) rest
    -- second pass: index assignment
    let rec assign (next : Nat) : List FieldEntry → List FieldEntry × Nat
      | [] => ([], next)
      | f :: rest => match old.byName f.name with
        | some g => let (fs, n) := assign next rest; ({ f with idx := g.idx } :: fs, n)
        | none => let (fs, n) := assign (next + 1) rest; ({ f with idx := next } :: fs, n)
    if check start new.fields then
      let (fs, n) := assign start new.fields
      some { fields := fs, version := new.version, nextIdx := n }
    else none

/-! ## Documents -/

abbrev Doc := List (Nat × FieldValue)

/-- `Schema::validate` -/
def Schema.validate (fm : FloatModel) (s : Schema) (d : Doc) : Bool :=
  d.all (fun e => s.idxs.contains e.1) &&
  s.fields.all (fun f => match d.lookup f.idx with
    | some v => fieldValidate fm f.ty v
    | none => !f.required)

/-- `normalize_fields`, one entry: prune then normalize under the field declared for the index -/
def renorm (fm : FloatModel) (s : Schema) (e : Nat × FieldValue) : Nat × FieldValue :=
  match s.byIdx e.1 with
  | some f => (e.1, normalize fm f.ty (prune f.ty e.2))
  | none => e

/-- `Document::try_from_doc`: reject never-allocated indexes, drop retired ones, prune + normalize
each declared field, validate. -/
def tryFromDoc (fm : FloatModel) (s : Schema) (d : Doc) : Option Doc :=
  if d.any (fun e => decide (e.1 ≥ s.allocatedIdxEnd)) then none
  else
    let d1 := d.filter (fun e => s.idxs.contains e.1)
    let d2 := d1.map (renorm fm s)
    if s.validate fm d2 then some d2 else none

/-- insert / replace keeping idx order (`BTreeMap::insert`) -/
def Doc.insert (i : Nat) (v : FieldValue) : Doc → Doc
  | [] => [(i, v)]
  | e :: es => if i < e.1 then (i, v) :: e :: es else if i = e.1 then (i, v) :: es else e :: Doc.insert i v es

/-- `Document::set_field` -/
def Doc.setField (fm : FloatModel) (s : Schema) (d : Doc) (name : String) (v : FieldValue) : Option Doc :=
  match s.byName name with
  | none => none
  | some f => match _root_.AndaVerif.Schema.setField fm f.ty v with
    | some v' => some (Doc.insert f.idx v' d)
    | none => none

/-- `Document::try_from` on a name-keyed CBOR map (entries as serialized, any order). -/
def tryFromTyped (fm : FloatModel) (s : Schema) (entries : List (DM × DM)) : Option Doc :=
  let rec go (acc : Doc) : List (DM × DM) → Option Doc
    | [] => some acc
    | (k, c) :: rest => match k with
      | .text n => match s.byName n with
        | none => none
        | some f => match extractField fm f.ty c with
          | none => none
          | some v => if acc.any (fun e => e.1 == f.idx) then none else go (Doc.insert f.idx v acc) rest
      | _ => none
  match go [] entries with
  | none => none
  | some d => if s.fields.all (fun f => !f.required || d.any (fun e => e.1 == f.idx)) then some d else none

/-- stored form of a document and back (`cbor2` on `DocumentOwned`), field by field -/
def Doc.storeDecode (fm : FloatModel) : Doc → Option Doc
  | [] => some []
  | (i, v) :: rest => match toDM fm v with
    | none => none
    | some dm => match readBack fm dm, Doc.storeDecode fm rest with
      | some r, some rs => some ((i, r) :: rs)
      | _, _ => none

end AndaVerif.Schema
