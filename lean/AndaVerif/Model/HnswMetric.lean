/-
The four metrics of `anda_db_hnsw::DistanceMetric` (distance.rs) in EXACT arithmetic.

Vectors are lists of integers: every bf16 / f32 component of a finite workload is a dyadic rational, so
a common power of two scales all of them to integers without changing any comparison below.
What the real kernels return is an f32 rounding of
  Euclidean      √Σ(aᵢ−bᵢ)²            Manhattan   Σ|aᵢ−bᵢ|
  InnerProduct   −Σ aᵢbᵢ                Cosine      1 − clamp(Σaᵢbᵢ / (‖a‖‖b‖)),  1 when a norm is (near) zero
Only the ORDER of distances matters to the search, so each metric is given by its exact comparison
`closer m q a b` ("a is at most as far from q as b"): √ and x ↦ 1−x are monotone, and the cosine
comparison is done on sign(dot)·dot²/‖x‖² by cross-multiplication (the factor ‖q‖ is common).
The code's threshold `norm < f32::EPSILON ⇒ 1.0` is `norm = 0` here.

Quantisation rule of the code: `insert_f32` stores `bf16::from_f32(x)` per component, `insert` stores
the caller's bf16 values; `search_f32` keeps the query in f32 and `compute_mixed` promotes the STORED
bf16 vector — so every reported distance is the metric between the query and the ROUNDED vector.
The rounding is a parameter `rnd` here.
-/
namespace AndaVerif.Hnsw

inductive Metric where
  | euclidean | cosine | innerProduct | manhattan
deriving Repr, DecidableEq

abbrev Vec := List Int

def vsum : List Int → Int
  | [] => 0
  | x :: r => x + vsum r

def dot (a b : Vec) : Int := vsum (List.zipWith (· * ·) a b)
def sqDist (a b : Vec) : Int := vsum (List.zipWith (fun x y => (x - y) * (x - y)) a b)
def l1Dist (a b : Vec) : Int := vsum (List.zipWith (fun x y => ((x - y).natAbs : Int)) a b)
def normSq (a : Vec) : Int := dot a a

/-- sign(dot)·dot² — numerator of the monotone image of cos(q, x); `0` when x has no direction -/
def cosNum (q x : Vec) : Int :=
  if normSq x = 0 then 0 else (if 0 ≤ dot q x then dot q x * dot q x else -(dot q x * dot q x))
/-- its (positive) denominator -/
def cosDen (x : Vec) : Int := if normSq x = 0 then 1 else normSq x

/-- `a` is at most as far from `q` as `b`, in exact arithmetic -/
def closer (m : Metric) (q a b : Vec) : Bool :=
  match m with
  | .euclidean => decide (sqDist q a ≤ sqDist q b)
  | .manhattan => decide (l1Dist q a ≤ l1Dist q b)
  | .innerProduct => decide (dot q b ≤ dot q a)
  | .cosine =>
      -- a zero query has distance 1 to everything
      if normSq q = 0 then true else decide (cosNum q b * cosDen a ≤ cosNum q a * cosDen b)

/-- what is stored for a caller's vector: each component rounded (bf16 at `insert_f32`) -/
def stored (rnd : Int → Int) (v : Vec) : Vec := v.map rnd

end AndaVerif.Hnsw
