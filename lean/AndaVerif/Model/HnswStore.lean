import AndaVerif.Model.Hnsw
/-
Model of the state side of `HnswIndex` (rs/anda_db_hnsw/src/hnsw.rs): `remove` with entry-point
repair and reverse-edge pruning, the durable write sequence of a flush
(`flush_with`: node blobs → ids → metadata, then `purge_removed_nodes` as the collection wrapper
calls it), and `load_all` (`load_metadata` → `load_ids` → `load_nodes`: validation, ids whose blob is
missing are dropped, edges to them pruned, a dangling entry point repaired).

Two places of the code iterate a hash map and keep "the" maximum (`max_by_key` over papaya's
iteration order): the replacement entry point of `remove` and `repair_entry_point`.  Which of several
top-layer nodes wins is not determined by the source, so the model takes the winner as an input
`pick` (the harness passes the one the real code chose) and falls back to a fixed representative
when `pick` is not admissible; every theorem quantifies over all `pick`s.

`insert`'s graph construction (random level, `select_neighbors`) and the re-linking of
`reconnect_on_delete` are NOT modelled: the re-linker is an arbitrary function parameter, and the
search theorems hold for every node map anyway.
-/
namespace AndaVerif.Hnsw

structure Index where
  nodes : NodeMap := []
  /-- the live-id bitmap -/
  ids : List Nat := []
  entry : Nat × Nat := (0, 0)
  /-- tombstones (`removed_nodes`) -/
  removed : List Nat := []
  dirty : List Nat := []
  version : Nat := 1
  savedVersion : Nat := 0
  /-- `stats.max_layer` -/
  maxLayer : Nat := 0
  /-- `config.max_layers` (normalised) -/
  maxLayers : Nat := 16
deriving Repr

def eraseKey (m : NodeMap) (i : Nat) : NodeMap := m.filter (fun p => p.1 != i)

def setInsert (l : List Nat) (x : Nat) : List Nat := if l.contains x then l else x :: l

/-- highest layer among the nodes (`0` for the empty map) -/
def topLayer : NodeMap → Nat
  | [] => 0
  | p :: r => max p.2.layer (topLayer r)

/-- could `nodes.iter().max_by_key(|n| n.layer)` return `pick = (id, layer)`? -/
def pickOk (m : NodeMap) (pick : Nat × Nat) : Bool :=
  match getNode m pick.1 with
  | some n => n.layer == pick.2 && decide (topLayer m ≤ n.layer)
  | none => false

/-- a fixed representative of the top layer -/
def defaultPick (m : NodeMap) : Option (Nat × Nat) :=
  match m.find? (fun p => p.2.layer == topLayer m) with
  | some p => some (p.1, p.2.layer)
  | none => none

/-- result of the `max_by_key` scan: `none` on an empty map -/
def choose (m : NodeMap) (pick : Nat × Nat) : Option (Nat × Nat) :=
  if m.isEmpty then none else if pickOk m pick then some pick else defaultPick m

/-- `iter().position(|&(idx, _)| idx == id)` -/
def posOf (id : Nat) : List Nat → Option Nat
  | [] => none
  | x :: r => if x = id then some 0 else (posOf id r).map (· + 1)

/-- `Vec::swap_remove(pos)` -/
def swapRemove (l : List Nat) (pos : Nat) : List Nat :=
  match l.getLast? with
  | none => l
  | some last => if pos + 1 = l.length then l.dropLast else (l.set pos last).dropLast

/-- the `for layer in 0..=n.layer` loop of `remove` over one neighbour's lists.  `L` is the index of
the head of the list argument.  (The code indexes `n.neighbors[layer]` directly and would panic
if a node had fewer than `layer + 1` lists; `load` validates and `insert` establishes that length,
and the model simply stops at the end of the list.) -/
def pruneLists (id : Nat) (relink : Nat → List Nat → List Nat) (top : Nat) :
    Nat → List (List Nat) → List (List Nat) × Bool
  | _, [] => ([], false)
  | L, l :: r =>
    let rest := pruneLists id relink top (L + 1) r
    if L ≤ top then
      match posOf id l with
      | none => (l :: rest.1, rest.2)
      | some p => (relink L (swapRemove l p) :: rest.1, true)
    else (l :: rest.1, rest.2)

/-- the ids in the removed node's own lists (the `FxHashSet neighbor_ids`) -/
def neighborIds (id : Nat) (n : Node) : List Nat := n.nbrs.flatten.filter (fun x => x != id)

/-- per surviving node: (id, node after pruning, was it rewritten) -/
def pruneAll (id : Nat) (relink : Nat → Nat → List Nat → List Nat) (nbs : List Nat) (m : NodeMap) :
    List (Nat × Node × Bool) :=
  m.map (fun p =>
    if nbs.contains p.1 then
      let r := pruneLists id (relink p.1) p.2.layer 0 p.2.nbrs
      (p.1, { p.2 with nbrs := r.1 }, r.2)
    else (p.1, p.2, false))

/-- `HnswIndex::remove`.  `relink j layer list` is the identity when `reconnect_on_delete` is off. -/
def remove (s : Index) (id : Nat) (pick : Nat × Nat) (relink : Nat → Nat → List Nat → List Nat) :
    Index × Bool :=
  match getNode s.nodes id with
  | none => (s, false)
  | some node =>
    let rest := eraseKey s.nodes id
    let entryWasRemoved : Bool := s.entry.1 == id
    let repl : Option (Nat × Nat) := if entryWasRemoved then choose rest pick else none
    let entry' : Nat × Nat :=
      if entryWasRemoved then (match repl with | some p => p | none => (0, 0)) else s.entry
    let maxLayer' : Nat :=
      if entryWasRemoved then (match repl with | some p => p.2 | none => 0)
      else if s.maxLayer ≤ node.layer then topLayer rest else s.maxLayer
    let pr := pruneAll id relink (neighborIds id node) rest
    let nodes' : NodeMap := pr.map (fun t => (t.1, t.2.1))
    let rewritten : List Nat := (pr.filter (fun t => t.2.2)).map (fun t => t.1)
    ({ s with
        nodes := nodes'
        ids := s.ids.filter (fun x => x != id)
        entry := entry'
        removed := setInsert s.removed id
        dirty := rewritten.foldl setInsert (s.dirty.filter (fun x => x != id))
        version := s.version + 1
        maxLayer := maxLayer' }, true)

/-- the rewritten copy of node `j`, if `insert` rewrote it -/
def applyEdit (edits : List (Nat × Node)) (j : Nat) (n : Node) : Node :=
  match getNode edits j with
  | some n' => n'
  | none => n

/-- `HnswIndex::insert`, bookkeeping only.  The new node and the rewritten neighbours (`edits`) are
inputs: graph construction — random level, `search_layer`, `select_neighbors`, pruning — is not
modelled.  `valid` = dimension and finiteness checks passed.  Only existing keys are rewritten
(`match nodes.get(&neighbor_id) { None => continue }`). -/
def insertAbs (s : Index) (id : Nat) (node : Node) (edits : List (Nat × Node)) (pick : Nat × Nat) (valid : Bool) :
    Index × Bool :=
  if !valid then (s, false)
  else if (getNode s.nodes id).isSome then (s, false)        -- AlreadyExists
  else if s.nodes.isEmpty then
    -- first node: becomes the entry point
    ({ s with
        nodes := [(id, node)]
        ids := setInsert s.ids id
        entry := (id, node.layer)
        removed := s.removed.filter (fun x => x != id)
        dirty := setInsert s.dirty id
        version := s.version + 1
        maxLayer := node.layer }, true)
  else
    -- self-heal of a stale entry point before the descent
    let entry0 : Nat × Nat :=
      if (getNode s.nodes s.entry.1).isNone then (match choose s.nodes pick with | some p => p | none => (0, 0))
      else s.entry
    let edited : NodeMap := s.nodes.map (fun p => (p.1, applyEdit edits p.1 p.2))
    let nodes' : NodeMap := (id, node) :: edited
    let entry' : Nat × Nat :=
      if decide (entry0.2 < node.layer) || (getNode nodes' entry0.1).isNone then (id, node.layer) else entry0
    let touchedIds : List Nat := (edits.map (·.1)).filter (fun j => (getNode s.nodes j).isSome)
    ({ s with
        nodes := nodes'
        ids := setInsert s.ids id
        entry := entry'
        removed := s.removed.filter (fun x => x != id)
        dirty := (id :: touchedIds).foldl setInsert s.dirty
        version := s.version + 1
        maxLayer := max s.maxLayer node.layer }, true)

/-! ### durable objects -/

/-- a node blob as `validate_loaded_node` sees it -/
structure Blob where
  id : Nat
  layer : Nat
  nbrs : List (List Nat)
  /-- `vector.len() == dimension` -/
  dimOk : Bool := true
  /-- vector and cached edge distances finite -/
  finite : Bool := true
deriving Repr, DecidableEq

/-- the metadata object (commit record): entry point, version, tombstones, stats, config -/
structure Meta where
  entry : Nat × Nat
  version : Nat
  removed : List Nat
  maxLayer : Nat
  maxLayers : Nat
deriving Repr, DecidableEq

structure Durable where
  blobs : List (Nat × Blob) := []
  ids : Option (List Nat) := none
  metaObj : Option Meta := none
deriving Repr

inductive Write where
  | node (id : Nat) (b : Blob)
  | ids (l : List Nat)
  | metaPut (m : Meta)
  | del (id : Nat)
deriving Repr, DecidableEq

def getBlob : List (Nat × Blob) → Nat → Option Blob
  | [], _ => none
  | (j, b) :: r, i => if j = i then some b else getBlob r i

/-- one atomic, durable object-store mutation -/
def applyWrite (D : Durable) : Write → Durable
  | .node i b => { D with blobs := (i, b) :: D.blobs.filter (fun p => p.1 != i) }
  | .ids l => { D with ids := some l }
  | .metaPut m => { D with metaObj := some m }
  | .del i => { D with blobs := D.blobs.filter (fun p => p.1 != i) }

def applyWrites (D : Durable) (ws : List Write) : Durable := ws.foldl applyWrite D

def blobOf (i : Nat) (n : Node) : Blob := { id := i, layer := n.layer, nbrs := n.nbrs }

/-- the snapshot's node blobs: dirty ids that still have a live node -/
def nodeWrites (s : Index) : List Write :=
  s.dirty.filterMap (fun i =>
    match getNode s.nodes i with
    | some n => some (Write.node i (blobOf i n))
    | none => none)

def metaOf (s : Index) : Meta :=
  { entry := s.entry, version := s.version, removed := s.removed, maxLayer := s.maxLayer, maxLayers := s.maxLayers }

/-- the durable writes of phase `p` (codes of `Gen.HnswOrder.flushOrder`) -/
def phaseWrites (s : Index) : Nat → List Write
  | 0 => nodeWrites s
  | 1 => [.ids s.ids]
  | 2 => [.metaPut (metaOf s)]
  | _ => []

/-- `capture_flush_snapshot` returns `None` when nothing is pending -/
def flushPending (s : Index) : Bool := !(decide (s.version ≤ s.savedVersion) && s.dirty.isEmpty)

/-- durable write sequence of `flush_with`, in the GENERATED phase order -/
def flushWrites (s : Index) : List Write :=
  if flushPending s then Gen.HnswOrder.flushOrder.flatMap (phaseWrites s) else []

/-- does `purge_removed_nodes` hand tombstone `i` to the deletion callback?  The rule is the GENERATED
one: with `purgeConsultsNodeMap` the node map is consulted and a live id is skipped; without it (an
edit that drops the check) every tombstone is deleted. -/
def purgeDeletes (s : Index) (i : Nat) : Bool :=
  !Gen.HnswOrder.purgeConsultsNodeMap || (getNode s.nodes i).isNone

/-- `purge_removed_nodes` as the wrapper's callback performs it: the deleted set is a function of the
tombstone set AND the node map — a tombstone whose id has a live node (re-inserted, or live in a newer
ids object than the metadata that carried the tombstone after a torn flush) is skipped -/
def purgeWrites (s : Index) : List Write :=
  (s.removed.filter (purgeDeletes s)).map Write.del

/-- everything `anda_db::index::Hnsw::flush` makes durable, in order -/
def wrapperWrites (s : Index) : List Write := flushWrites s ++ purgeWrites s

/-- in-memory effect of a complete flush + purge -/
def afterFlush (s : Index) : Index :=
  let s1 : Index := if flushPending s then { s with dirty := [], savedVersion := max s.savedVersion s.version } else s
  -- every tombstone is retired (deleted or skipped as re-inserted), one version bump each
  { s1 with removed := [], version := s1.version + s1.removed.length }

/-! ### the flush as snapshot → writes → commit, with mutations inside the write window

`flush_with` captures its snapshot under the structural lock, releases the lock and only then awaits
the write callbacks, so `insert` / `remove` may run between any two writes and between the last
write and the commit.  `commit_flush_snapshot` clears the snapshot's dirty marks ONLY IF the global
version is still the snapshot's version (no mutation crossed the window); otherwise every mark stays
and the next flush rewrites those nodes. -/

structure Snapshot where
  version : Nat
  dirtyIds : List Nat
  writes : List Write
deriving Repr

/-- `capture_flush_snapshot` -/
def capture (s : Index) : Option Snapshot :=
  if flushPending s then some { version := s.version, dirtyIds := s.dirty, writes := flushWrites s } else none

/-- does the commit clear the snapshot's dirty marks?  The guard is the GENERATED one: with
`commitClearsOnlyIfVersionUnchanged` it is `stats.version == snapshot.version`; without it (an edit
that drops the guard) the marks are always cleared. -/
def commitClears (s : Index) (sn : Snapshot) : Bool :=
  !Gen.HnswOrder.commitClearsOnlyIfVersionUnchanged || decide (s.version = sn.version)

/-- `commit_flush_snapshot` -/
def commit (s : Index) (sn : Snapshot) : Index :=
  { s with
      dirty := if commitClears s sn then s.dirty.filter (fun i => !sn.dirtyIds.contains i) else s.dirty
      savedVersion := max s.savedVersion sn.version }

inductive Mut where
  | ins (id : Nat) (node : Node) (edits : List (Nat × Node)) (pick : Nat × Nat) (valid : Bool)
  | rem (id : Nat) (pick : Nat × Nat) (relink : Nat → Nat → List Nat → List Nat)

def applyMut (s : Index) : Mut → Index
  | .ins id node edits pick valid => (insertAbs s id node edits pick valid).1
  | .rem id pick relink => (remove s id pick relink).1

/-- one step inside the window: the next write of the snapshot becomes durable, or a mutation runs -/
inductive WStep where
  | write
  | mutate (m : Mut)

def runWindow : List WStep → Durable → Index → List Write → Durable × Index × List Write
  | [], D, s, rem => (D, s, rem)
  | .write :: r, D, s, [] => runWindow r D s []
  | .write :: r, D, s, w :: rem => runWindow r (applyWrite D w) s rem
  | .mutate m :: r, D, s, rem => runWindow r D (applyMut s m) rem

/-- a complete `flush_with` with an arbitrary interleaving of mutations into its window: whatever
writes the step list did not reach are performed afterwards (the flush runs to completion), then
the commit.  When nothing is pending no callback runs (the mutations of the list still happen). -/
def windowFlush (D : Durable) (s : Index) (steps : List WStep) : Durable × Index :=
  match capture s with
  | none => (D, (runWindow steps D s []).2.1)
  | some sn =>
    let r := runWindow steps D s sn.writes
    (applyWrites r.1 r.2.2, commit r.2.1 sn)

/-- durable objects right after `anda_db::index::Hnsw::new`: the empty index has been flushed -/
def createD (mls : Nat) : Durable := { blobs := [], ids := some [], metaObj := some ⟨(0, 0), 1, [], 0, mls⟩ }
/-- the in-memory index at that point -/
def createS (mls : Nat) : Index := { version := 1, savedVersion := 1, maxLayers := mls }

/-! ### load -/

inductive LoadErr where
  | noObject                -- metadata or ids object absent
  | invalidBlob (id : Nat)  -- `validate_loaded_node` refused a blob
deriving Repr, DecidableEq

def validBlob (maxLayers : Nat) (id : Nat) (b : Blob) : Bool :=
  b.id == id && b.dimOk && decide (b.layer < maxLayers) && (b.nbrs.length == b.layer + 1) && b.finite

/-- `HnswConfig::normalized`: `max_layers.clamp(MIN_MAX_LAYERS, MAX_MAX_LAYERS)` -/
def clampLayers (n : Nat) : Nat := max Gen.HnswOrder.minMaxLayers (min n Gen.HnswOrder.maxMaxLayers)

/-- the loader stream of `load_nodes`: (loaded nodes, ids whose blob is missing) -/
def loadNodes (maxLayers : Nat) (blobs : List (Nat × Blob)) : List Nat → Except LoadErr (NodeMap × List Nat)
  | [] => .ok ([], [])
  | i :: r =>
    match loadNodes maxLayers blobs r with
    | .error e => .error e
    | .ok (ns, miss) =>
      match getBlob blobs i with
      | none => .ok (ns, i :: miss)
      | some b =>
        if validBlob maxLayers i b then .ok ((i, { layer := b.layer, nbrs := b.nbrs }) :: ns, miss)
        else .error (.invalidBlob i)

/-- `prune_missing_node_edges`: `retain` on every list -/
def pruneMissing (miss : List Nat) (m : NodeMap) : NodeMap :=
  m.map (fun p => (p.1, { p.2 with nbrs := p.2.nbrs.map (fun l => l.filter (fun x => !miss.contains x)) }))

def hasEdgeTo (miss : List Nat) (n : Node) : Bool := n.nbrs.any (fun l => l.any (fun x => miss.contains x))

/-- `load_all` -/
def load (D : Durable) (pick : Nat × Nat) : Except LoadErr Index :=
  match D.metaObj, D.ids with
  | some m, some ids =>
    let ml := clampLayers m.maxLayers
    let base : Index :=
      { nodes := [], ids := ids, entry := (m.entry.1, min m.entry.2 (ml - 1)), removed := m.removed, dirty := [],
        version := m.version, savedVersion := m.version, maxLayer := m.maxLayer, maxLayers := ml }
    if ids.isEmpty then .ok base
    else
      match loadNodes ml D.blobs ids with
      | .error e => .error e
      | .ok (ns, miss) =>
        if !miss.isEmpty then
          let ns' := pruneMissing miss ns
          let e' : Nat × Nat := match choose ns' pick with | some p => p | none => (0, 0)
          .ok { base with
                  nodes := ns'
                  ids := ids.filter (fun x => !miss.contains x)
                  entry := e'
                  dirty := (ns.filter (fun p => hasEdgeTo miss p.2)).map (·.1)
                  version := m.version + 1
                  maxLayer := e'.2 }
        else if (getNode ns base.entry.1).isNone then
          let e' : Nat × Nat := match choose ns pick with | some p => p | none => (0, 0)
          .ok { base with nodes := ns, entry := e', version := m.version + 1, maxLayer := e'.2 }
        else .ok { base with nodes := ns }
  | _, _ => .error .noObject

end AndaVerif.Hnsw
