/-
Model of the governance decision logic of rs/anda_cognitive_nexus (property C19):

  governance/rows.rs      AuthorityScope / AuthorityConditions / AuthorityConstraints / PolicyStatement /
                          PolicyObligations, `contains`, `narrows`, `within_ceiling`, `at_least`, `at_most`,
                          `merge`, the rank ladders                         → `Scope` … `Obligations.merge`
  governance/mod.rs       `classification::rank`, `authority::rank`, `Decision`   → `classRank`, `Decision`
  governance/decision.rs  `ResourceContext`, `Candidate`, `EffectiveAuthority::{resolve, resolve_at_depth,
                          authorize, may_read, reads_whole_space, permission_names, statement_matches}`,
                          `candidate_matches`, `scope_matches`, `reaches_classification`, `conditions_hold`,
                          `covers`, `candidate_of_grant`, `resolve_delegation`, `resolve_named_chain`
                                                                            → same names in camelCase
  governance/store.rs     `groups_of`, `grants_for`, `delegations_to`, `active_policy`, `delegation`,
                          `row_id_of`, the status flips of `revoke_*` / `set_principal_status`, `put_group`,
                          `publish_policy`, `create_*` (row ids = insertion ordinals)  → `World` operations
  governance/redact.rs    `apply`                                           → `redact`
  kql/mod.rs              `Context::admit` (the read choke point)            → `admit`, `universe`

Quirks that are mirrored on purpose (they are what the code does):
  * the owner's synthetic candidate carries `export: true`, so an owner decision is
    `AllowWithConstraints`, never `Allow`;
  * a Space-scope resource (all four members empty) skips `scope_matches` and
    `reaches_classification` for candidates and statements alike;
  * a resource that names something but no classification is judged at the Space default
    (`internal` when the Space states none);
  * `min_by_key` keeps the *first* least-restrictive allow; owner first, then Grants (direct, then per
    group in group-row order), then Delegations, then allow statements in policy order;
  * obligations accumulate over *all* matching allow statements, also when another allow is chosen;
  * an unregistered delegator makes the *delegate's* whole resolution fail (`Unauthenticated`), because
    `resolve_delegation` propagates the error of the nested `resolve_at_depth`;
  * `depth >= MAX_DELEGATION_DEPTH` silently yields no candidate;
  * in the re-delegation branch an unregistered or inactive re-delegating Principal yields no candidate (since the
    repair of F-C19-4), whereas an unregistered *direct* delegator is still an error.

Encodings (stated in notes/C19.md): instants are `Nat` with `0` for the empty string (the code
compares fixed-width RFC 3339 UTC strings, an order embedding); Governance ids (`owner:…`,
`kip:grant:N`, `kip:delegation:N`, `policy:id@v`) are a structured type rendered by the driver;
JSON blobs that `parse_or_default` reads are always well-formed because the host API serialises typed
drafts.
-/
import AndaVerif.Gen.GateTables

namespace AndaVerif.Authz

open AndaVerif.Gen.GateTables (maxDelegationDepth permissionNames alwaysAuditedNames)

/-! ## Rank ladders -/

/-- `classification::rank` — an unknown label outranks every known one; the empty label is `internal`. -/
def classRank (s : String) : Nat :=
  if s = "public" then 0 else if s = "internal" then 1 else if s = "private" then 2
  else if s = "sensitive" then 3 else if s = "secret" then 4 else if s = "" then 1 else 255

/-- `authority::rank` — an unknown class is the lowest rung. -/
def authorityRank (s : String) : Nat :=
  if s = "advisory" then 1 else if s = "behavioral" then 2 else if s = "executable" then 3 else 0

/-- `auth_strength::rank`. -/
def authStrengthRank (s : String) : Nat :=
  if s = "strong" then 2 else if s = "standard" then 1 else 0

/-- `purpose_assurance::rank`. -/
def purposeRank (s : String) : Nat :=
  if s = "approved" then 3 else if s = "system_bound" then 2 else if s = "session_bound" then 1 else 0

/-! ## The shared shapes (rows.rs) -/

structure Scope where
  kinds : List String := []
  schemaRefs : List String := []
  classifications : List String := []
  elements : List String := []
deriving DecidableEq, Repr, Inhabited

structure Conditions where
  purpose : List String := []
  minPurposeAssurance : String := ""
  minAuthStrength : String := ""
  validFrom : Nat := 0
  validUntil : Nat := 0
deriving DecidableEq, Repr, Inhabited

structure Constraints where
  fields : List String := []
  maxResults : Option Nat := none
  maxInfluence : String := ""
  maxClassification : String := ""
  mayExport : Bool := false
deriving DecidableEq, Repr, Inhabited

structure Obligations where
  audit : Bool := false
  approvalsRequired : Nat := 0
  redactionProfile : String := ""
deriving DecidableEq, Repr, Inhabited

structure Statement where
  effect : String := ""
  principals : List String := []
  groups : List String := []
  actions : List String := []
  resource : Scope := {}
  conditions : Conditions := {}
  constraints : Constraints := {}
  obligations : Obligations := {}
deriving DecidableEq, Repr, Inhabited

/-- `PolicyObligations::merge`. -/
def Obligations.merge (a b : Obligations) : Obligations :=
  { audit := a.audit || b.audit
    approvalsRequired := max a.approvalsRequired b.approvalsRequired
    redactionProfile := if b.redactionProfile = "" then a.redactionProfile else b.redactionProfile }

/-- `narrows(parent, child)`. -/
def narrows (parent child : List String) : Bool :=
  parent.isEmpty || (!child.isEmpty && child.all (fun v => parent.contains v))

/-- `within_ceiling(parent, child, rank)`. -/
def withinCeiling (rank : String → Nat) (parent child : String) : Bool :=
  parent = "" || (child ≠ "" && rank child ≤ rank parent)

/-- `at_least(parent, child)` on instants (`0` = empty). -/
def atLeast (parent child : Nat) : Bool := parent = 0 || (child ≠ 0 && child ≥ parent)

/-- `at_most(parent, child)`. -/
def atMost (parent child : Nat) : Bool := parent = 0 || (child ≠ 0 && child ≤ parent)

/-- `AuthorityScope::contains`. -/
def Scope.contains (p c : Scope) : Bool :=
  narrows p.kinds c.kinds && narrows p.schemaRefs c.schemaRefs &&
  narrows p.classifications c.classifications && narrows p.elements c.elements

/-- `AuthorityConditions::contains`. -/
def Conditions.contains (p c : Conditions) : Bool :=
  narrows p.purpose c.purpose &&
  decide (purposeRank c.minPurposeAssurance ≥ purposeRank p.minPurposeAssurance) &&
  decide (authStrengthRank c.minAuthStrength ≥ authStrengthRank p.minAuthStrength) &&
  atLeast p.validFrom c.validFrom && atMost p.validUntil c.validUntil

/-- `AuthorityConstraints::contains`. -/
def Constraints.contains (p c : Constraints) : Bool :=
  let boundedResults := match p.maxResults with
    | none => true
    | some pm => match c.maxResults with
      | none => false
      | some cm => decide (cm ≤ pm)
  narrows p.fields c.fields && boundedResults &&
  withinCeiling authorityRank p.maxInfluence c.maxInfluence &&
  withinCeiling classRank p.maxClassification c.maxClassification &&
  (p.mayExport || !c.mayExport)

/-! ## decision.rs: resources, callers, candidates -/

structure Resource where
  kind : String := ""
  schemaRef : String := ""
  classification : String := ""
  elementId : String := ""
deriving DecidableEq, Repr, Inhabited

def Resource.isSpaceScope (r : Resource) : Bool :=
  r.kind = "" && r.schemaRef = "" && r.classification = "" && r.elementId = ""

/-- The members of `AuthContext` a decision reads. -/
structure Auth where
  principalId : String := ""
  authStrength : String := ""
  purpose : String := ""
  purposeAssurance : String := ""
  delegationChain : List String := []
deriving DecidableEq, Repr, Inhabited

/-- The id an authority answers to in `authorities_used`. -/
inductive AuthId where
  | owner (principal : String)
  | grant (row : Nat)
  | delegation (row : Nat)
  | policy (id : String) (version : Nat)
deriving DecidableEq, Repr, Inhabited

structure Candidate where
  id : AuthId
  actions : List String := []
  scope : Scope := {}
  conditions : Conditions := {}
  constraints : Constraints := {}
  delegationAllowed : Bool := false
deriving DecidableEq, Repr, Inhabited

def Candidate.isUnrestricted (c : Candidate) : Bool :=
  c.scope = ({} : Scope) && c.constraints.fields.isEmpty && c.constraints.maxClassification = "" &&
  c.constraints.maxResults.isNone

def Candidate.restrictiveness (c : Candidate) : Nat :=
  c.scope.kinds.length + c.scope.schemaRefs.length + c.scope.classifications.length +
  c.scope.elements.length + c.constraints.fields.length +
  (if c.constraints.mayExport then 0 else 1) + (if c.constraints.maxResults.isSome then 1 else 0) +
  (if c.constraints.maxClassification = "" then 0 else 1)

/-- `covers(bound, value)`: empty bound covers everything; an empty value is covered by no bound. -/
def covers (bound : List String) (value : String) : Bool :=
  bound.isEmpty || (value ≠ "" && bound.contains value)

def scopeMatches (s : Scope) (r : Resource) : Bool :=
  covers s.kinds r.kind && covers s.schemaRefs r.schemaRef &&
  covers s.classifications r.classification && covers s.elements r.elementId

def reachesClassification (c : Constraints) (r : Resource) : Bool :=
  c.maxClassification = "" || decide (classRank r.classification ≤ classRank c.maxClassification)

def conditionsHold (c : Conditions) (a : Auth) (now : Nat) : Bool :=
  if c.validFrom ≠ 0 ∧ now < c.validFrom then false
  else if c.validUntil ≠ 0 ∧ now ≥ c.validUntil then false
  else if authStrengthRank a.authStrength < authStrengthRank c.minAuthStrength then false
  else if purposeRank a.purposeAssurance < purposeRank c.minPurposeAssurance then false
  else if !c.purpose.isEmpty && !c.purpose.contains a.purpose then false
  else true

def candidateMatches (c : Candidate) (perm : String) (r : Resource) (a : Auth) (now : Nat) : Bool :=
  c.actions.contains perm &&
  (r.isSpaceScope || (scopeMatches c.scope r && reachesClassification c.constraints r)) &&
  conditionsHold c.conditions a now

/-! ## The resolved authority and `authorize` -/

inductive Decision where
  | allow | allowWithConstraints | deny | requireApproval
deriving DecidableEq, Repr, Inhabited

def Decision.isPermitted : Decision → Bool
  | .allow | .allowWithConstraints => true
  | _ => false

structure Authorization where
  decision : Decision
  permission : String
  constraints : Constraints
  obligations : Obligations
  policyId : String
  policyVersion : Nat
  authoritiesUsed : List AuthId
  unrestricted : Bool
  /-- which stage of `authorize` produced the answer (the code's one-line `reason`, as a tag):
  `inactive` | `suspended` | `explicit_deny` | `nothing_grants:<label>` | `needs_approvals:<n>` | `granted:<label>` -/
  stage : String := ""
deriving DecidableEq, Repr, Inhabited

/-- `ResourceContext::label`, as a token. -/
def Resource.label (r : Resource) : String :=
  if r.elementId ≠ "" then r.elementId else if r.kind ≠ "" then r.kind else "the_Space"

/-- What `EffectiveAuthority::resolve` loaded. -/
structure EA where
  spaceStatus : String := "active"
  spaceDefaultClass : String := ""
  auditMode : String := "standard"
  principalId : String := ""
  principalStatus : String := "active"
  groups : List String := []
  isOwner : Bool := false
  policyId : String := ""
  policyVersion : Nat := 0
  statements : List Statement := []
  candidates : List Candidate := []
deriving DecidableEq, Repr, Inhabited

def EA.defaultClassification (ea : EA) : String :=
  if ea.spaceDefaultClass = "" then "internal" else ea.spaceDefaultClass

def EA.baselineObligations (ea : EA) (perm : String) : Obligations :=
  { audit := alwaysAuditedNames.contains perm || ea.auditMode = "verbose" }

def statementMatches (ea : EA) (s : Statement) (perm : String) (r : Resource) (a : Auth) (now : Nat) : Bool :=
  if !s.principals.isEmpty && !s.principals.contains ea.principalId then false
  else if !s.groups.isEmpty && !s.groups.any (fun g => ea.groups.contains g) then false
  else if !s.actions.isEmpty && !s.actions.contains perm then false
  else (r.isSpaceScope || scopeMatches s.resource r) && conditionsHold s.conditions a now

/-- The classification substitution at the top of `authorize`. -/
def EA.effectiveResource (ea : EA) (r : Resource) : Resource :=
  if r.isSpaceScope || r.classification ≠ "" then r
  else { r with classification := ea.defaultClassification }

def ownerCandidate (principal : String) : Candidate :=
  { id := .owner principal, constraints := { mayExport := true }, delegationAllowed := true }

def statementCandidate (ea : EA) (s : Statement) : Candidate :=
  { id := .policy ea.policyId ea.policyVersion, actions := s.actions, scope := s.resource,
    conditions := s.conditions, constraints := s.constraints, delegationAllowed := false }

/-- `Iterator::min_by_key`: the first element with the least key. -/
def minByKey {α : Type} (key : α → Nat) : List α → Option α
  | [] => none
  | x :: xs =>
    match minByKey key xs with
    | none => some x
    | some y => if key y < key x then some y else some x

def EA.denyMatches (ea : EA) (perm : String) (r : Resource) (a : Auth) (now : Nat) : Bool :=
  ea.statements.any (fun s => s.effect = "deny" && statementMatches ea s perm r a now)

def EA.allowStatements (ea : EA) (perm : String) (r : Resource) (a : Auth) (now : Nat) : List Statement :=
  ea.statements.filter (fun s => s.effect = "allow" && statementMatches ea s perm r a now)

/-- The `allows` vector of `authorize`, in the order the code pushes it. -/
def EA.allows (ea : EA) (perm : String) (r : Resource) (a : Auth) (now : Nat) : List Candidate :=
  (if ea.isOwner then [ownerCandidate ea.principalId] else []) ++
  ea.candidates.filter (fun c => candidateMatches c perm r a now) ++
  (ea.allowStatements perm r a now).map (statementCandidate ea)

def EA.denied (ea : EA) (perm : String) (stage : String := "") : Authorization :=
  { decision := .deny, permission := perm, constraints := {}, obligations := ea.baselineObligations perm,
    policyId := ea.policyId, policyVersion := ea.policyVersion, authoritiesUsed := [], unrestricted := false,
    stage := stage }

/-- `EffectiveAuthority::authorize`. -/
def authorize (ea : EA) (perm : String) (res : Resource) (a : Auth) (now : Nat) : Authorization :=
  if ea.principalStatus ≠ "active" then ea.denied perm "inactive"
  else if ea.spaceStatus = "suspended" then ea.denied perm "suspended"
  else
    let r := ea.effectiveResource res
    if ea.denyMatches perm r a now then ea.denied perm "explicit_deny"
    else
      let obligations :=
        (ea.allowStatements perm r a now).foldl (fun o s => o.merge s.obligations) (ea.baselineObligations perm)
      match minByKey Candidate.restrictiveness (ea.allows perm r a now) with
      | none => ea.denied perm ("nothing_grants:" ++ r.label)
      | some chosen =>
        if obligations.approvalsRequired > 0 then
          { decision := .requireApproval, permission := perm, constraints := chosen.constraints,
            obligations := obligations, policyId := ea.policyId, policyVersion := ea.policyVersion,
            authoritiesUsed := [chosen.id], unrestricted := false,
            stage := "needs_approvals:" ++ toString obligations.approvalsRequired }
        else
          { decision := if chosen.constraints ≠ ({} : Constraints) then .allowWithConstraints else .allow,
            permission := perm, constraints := chosen.constraints, obligations := obligations,
            policyId := ea.policyId, policyVersion := ea.policyVersion,
            authoritiesUsed := [chosen.id], unrestricted := chosen.isUnrestricted,
            stage := "granted:" ++ r.label }

/-- `EffectiveAuthority::may_read` on the resource an element presents. -/
def mayRead (ea : EA) (res : Resource) (a : Auth) (now : Nat) : Option Constraints :=
  let d := authorize ea "read" res a now
  if d.decision.isPermitted then some d.constraints else none

/-- `EffectiveAuthority::reads_whole_space`. -/
def readsWholeSpace (ea : EA) (a : Auth) (now : Nat) : Bool :=
  ea.isOwner ||
    (let d := authorize ea "read" {} a now
     d.decision.isPermitted && d.unrestricted)

/-- `EffectiveAuthority::permission_names` (registry order, then sorted by the caller). -/
def permissionNamesHeld (ea : EA) (a : Auth) (now : Nat) : List String :=
  permissionNames.filter (fun p => (authorize ea p {} a now).decision.isPermitted)

/-! ## The control plane (store.rs) -/

structure PrincipalRow where
  id : String
  status : String := "active"
deriving DecidableEq, Repr, Inhabited

structure GroupRow where
  id : String
  members : List String := []
  status : String := "active"
deriving DecidableEq, Repr, Inhabited

structure GrantRow where
  rowId : Nat
  spaceId : String
  granteePrincipal : String := ""
  granteeGroup : String := ""
  actions : List String := []
  scope : Scope := {}
  conditions : Conditions := {}
  constraints : Constraints := {}
  delegationAllowed : Bool := false
  status : String := "active"
deriving DecidableEq, Repr, Inhabited

structure DelegationRow where
  rowId : Nat
  spaceId : String
  delegator : String
  delegate : String
  actions : List String := []
  scope : Scope := {}
  conditions : Conditions := {}
  constraints : Constraints := {}
  parent : String := ""
  /-- `row_id_of(parent_delegation)`, computed once when the row is written (the driver fills it with
  `rowIdOf parent`; kept beside the text so that the kernel can evaluate examples without reducing
  string splitting). Invariant of every world the driver builds: `parentRow = rowIdOf parent`. -/
  parentRow : Option Nat := none
  mayRedelegate : Bool := false
  status : String := "active"
deriving DecidableEq, Repr, Inhabited

structure PolicyRow where
  policyId : String
  version : Nat
  statements : List Statement := []
deriving DecidableEq, Repr, Inhabited

structure SpaceRow where
  id : String
  ownerPrincipal : String := ""
  owners : List String := []
  status : String := "active"
  defaultPolicyId : String := ""
  defaultClassification : String := "internal"
  auditMode : String := "standard"
deriving DecidableEq, Repr, Inhabited

/-- The Governance collections, each in row-id order. -/
structure World where
  principals : List PrincipalRow := []
  groups : List GroupRow := []
  grants : List GrantRow := []
  delegations : List DelegationRow := []
  policies : List PolicyRow := []
  spaces : List SpaceRow := []
deriving DecidableEq, Repr, Inhabited

inductive Err where
  | spaceNotFound       -- `get_space`: NotFoundOrNotVisible
  | unauthenticated     -- no Principal record
  | notAuthorized       -- a named Delegation chain that does not link
deriving DecidableEq, Repr, Inhabited

def World.findPrincipal (w : World) (id : String) : Option PrincipalRow :=
  w.principals.find? (fun p => p.id = id)

def World.findSpace (w : World) (id : String) : Option SpaceRow :=
  w.spaces.find? (fun s => s.id = id)

/-- `groups_of`: the active groups listing the Principal, in row order. -/
def World.groupsOf (w : World) (pid : String) : List String :=
  (w.groups.filter (fun g => g.members.contains pid && g.status = "active")).map (·.id)

/-- `grants_for`: direct Grants, then each group's Grants in group order. -/
def World.grantsFor (w : World) (space pid : String) (groups : List String) : List GrantRow :=
  w.grants.filter (fun g => g.spaceId = space && g.granteePrincipal = pid && g.status = "active") ++
  groups.flatMap (fun grp =>
    w.grants.filter (fun g => g.spaceId = space && g.granteeGroup = grp && g.status = "active"))

/-- `delegations_to`. -/
def World.delegationsTo (w : World) (space pid : String) : List DelegationRow :=
  w.delegations.filter (fun d => d.spaceId = space && d.delegate = pid && d.status = "active")

/-- `delegation(row_id)`. -/
def World.delegation (w : World) (row : Nat) : Option DelegationRow :=
  w.delegations.find? (fun d => d.rowId = row)

/-- `active_policy`: the greatest version (the later row on a tie, as `sort_by_key` + `pop`). -/
def World.activePolicy (w : World) (policyId : String) : Option PolicyRow :=
  (w.policies.filter (fun p => p.policyId = policyId)).foldl
    (fun best p => match best with
      | none => some p
      | some b => if b.version ≤ p.version then some p else some b) none

/-- `row_id_of`: the decimal after the last `:` (requires a `:`). -/
def rowIdOf (s : String) : Option Nat :=
  match (s.splitOn ":").reverse with
  | [] => none
  | [_] => none
  | last :: _ => last.toNat?

def delegationIdText (row : Nat) : String := "kip:delegation:" ++ toString row

def candidateOfGrant (g : GrantRow) : Candidate :=
  { id := .grant g.rowId, actions := g.actions, scope := g.scope, conditions := g.conditions,
    constraints := g.constraints, delegationAllowed := g.delegationAllowed }

/-- Collects the candidates of a list of Delegations, stopping at the first error. -/
def collectCandidates (f : DelegationRow → Except Err (Option Candidate)) :
    List DelegationRow → Except Err (List Candidate)
  | [] => .ok []
  | d :: ds =>
    match f d with
    | .error e => .error e
    | .ok r =>
      match collectCandidates f ds with
      | .error e => .error e
      | .ok rs => .ok (match r with | some c => c :: rs | none => rs)

/-- What the nested `resolve_at_depth(delegator, &[], depth + 1)` contributes to `resolve_delegation`:
whether the delegator owns the Space, and its candidates. -/
structure ParentView where
  isOwner : Bool
  candidates : List Candidate
deriving DecidableEq, Repr, Inhabited

/-- The action filter of the direct (parent-less) branch of `resolve_delegation`. -/
def conferrable (pv : ParentView) (scope : Scope) (cond : Conditions) (cons : Constraints) (action : String) : Bool :=
  permissionNames.contains action &&
  (pv.candidates.any (fun c =>
      c.delegationAllowed && c.actions.contains action && c.scope.contains scope &&
      c.conditions.contains cond && c.constraints.contains cons)
    || pv.isOwner)

def isOwnerOf (sp : SpaceRow) (pid : String) : Bool :=
  sp.ownerPrincipal = pid || sp.owners.contains pid

/-- The candidate half of `resolve_at_depth(principal, &[], depth)`: the Principal's own Grants (direct,
then per group) followed by the Delegations made to it, each resolved by `rec`; nothing when the
Principal is not live. -/
def candidatesOf (w : World) (sp : SpaceRow) (rec : DelegationRow → Except Err (Option Candidate))
    (pid : String) (live : Bool) : Except Err (List Candidate) :=
  if live then
    match collectCandidates rec (w.delegationsTo sp.id pid) with
    | .error e => .error e
    | .ok ds => .ok ((w.grantsFor sp.id pid (w.groupsOf pid)).map candidateOfGrant ++ ds)
  else .ok []

/-- The Candidate a Delegation row resolves to once its actions have been attenuated. -/
def delegatedCandidate (d : DelegationRow) (actions : List String) : Candidate :=
  { id := .delegation d.rowId, actions := actions, scope := d.scope, conditions := d.conditions,
    constraints := d.constraints, delegationAllowed := false }

/-- `resolve_delegation(store, space, delegation, depth)` with `fuel = MAX_DELEGATION_DEPTH - depth`.
The Space row is the one the outer resolution already loaded. -/
def resolveDelegation (w : World) (sp : SpaceRow) : Nat → DelegationRow → Except Err (Option Candidate)
  | 0, _ => .ok none
  | fuel + 1, d =>
    if d.parent ≠ "" then
      match d.parentRow with
      | none => .ok none
      | some pid =>
        match w.delegation pid with
        | none => .ok none
        | some linked =>
          if linked.status ≠ "active" ∨ linked.spaceId ≠ sp.id ∨ linked.delegate ≠ d.delegator ∨
              linked.mayRedelegate = false then .ok none
          else
            -- the Principal who re-delegated must be registered and active (commit 3f00f56, F-C19-4)
            match w.findPrincipal d.delegator with
            | none => .ok none
            | some rp =>
              if rp.status ≠ "active" then .ok none
              else
                match resolveDelegation w sp fuel linked with
                | .error e => .error e
                | .ok none => .ok none
                | .ok (some inherited) =>
                  if !inherited.scope.contains d.scope || !inherited.conditions.contains d.conditions ||
                      !inherited.constraints.contains d.constraints then .ok none
                  else
                    let actions := d.actions.filter (fun a => inherited.actions.contains a)
                    if actions.isEmpty then .ok none
                    else .ok (some (delegatedCandidate d actions))
    else
      -- nested `resolve_at_depth(delegator, &[], depth + 1)`
      match w.findPrincipal d.delegator with
      | none => .error .unauthenticated
      | some p =>
        match candidatesOf w sp (resolveDelegation w sp fuel) d.delegator (p.status = "active") with
        | .error e => .error e
        | .ok cands =>
          let pv : ParentView :=
            { isOwner := decide (p.status = "active") && isOwnerOf sp d.delegator, candidates := cands }
          let actions := d.actions.filter (conferrable pv d.scope d.conditions d.constraints)
          if actions.isEmpty then .ok none
          else .ok (some (delegatedCandidate d actions))

/-- The walk of `resolve_named_chain` over the named ids: returns the last row. -/
def walkChain (w : World) (space : String) :
    Option DelegationRow → List String → Except Err (Option DelegationRow)
  | prev, [] => .ok prev
  | prev, id :: rest =>
    match rowIdOf id with
    | none => .error .notAuthorized
    | some rid =>
      match w.delegation rid with
      | none => .error .notAuthorized
      | some row =>
        if row.status ≠ "active" ∨ row.spaceId ≠ space then .error .notAuthorized
        else
          match prev with
          | some parent =>
            if row.parent ≠ delegationIdText parent.rowId then .error .notAuthorized
            else if parent.mayRedelegate = false then .error .notAuthorized
            else walkChain w space (some row) rest
          | none => walkChain w space (some row) rest

/-- `resolve_named_chain`. -/
def resolveNamedChain (w : World) (sp : SpaceRow) (pid : String) (chain : List String) (fuel : Nat) :
    Except Err (List Candidate) :=
  match walkChain w sp.id none chain with
  | .error e => .error e
  | .ok none => .ok []
  | .ok (some last) =>
    if last.delegate ≠ pid then .error .notAuthorized
    else
      match resolveDelegation w sp fuel last with
      | .error e => .error e
      | .ok none => .ok []
      | .ok (some c) => .ok [c]

/-- `EffectiveAuthority::resolve(store, space_id, auth)`. -/
def resolve (w : World) (space : String) (a : Auth) : Except Err EA :=
  match w.findSpace space with
  | none => .error .spaceNotFound
  | some sp =>
    match w.findPrincipal a.principalId with
    | none => .error .unauthenticated
    | some p =>
      let live := p.status = "active"
      let groups := if live then w.groupsOf a.principalId else []
      let cands : Except Err (List Candidate) :=
        if a.delegationChain.isEmpty then
          candidatesOf w sp (resolveDelegation w sp maxDelegationDepth) a.principalId live
        else if live then resolveNamedChain w sp a.principalId a.delegationChain maxDelegationDepth
        else .ok []
      match cands with
      | .error e => .error e
      | .ok cs =>
        let policy := if sp.defaultPolicyId = "" then none else w.activePolicy sp.defaultPolicyId
        .ok { spaceStatus := sp.status, spaceDefaultClass := sp.defaultClassification,
              auditMode := sp.auditMode, principalId := p.id, principalStatus := p.status,
              groups := groups, isOwner := live && isOwnerOf sp a.principalId,
              policyId := (policy.map (·.policyId)).getD "", policyVersion := (policy.map (·.version)).getD 0,
              statements := (policy.map (·.statements)).getD [], candidates := cs }

/-- One request: resolve, then decide. This is what `Session::execute` does per permission. -/
def request (w : World) (space : String) (a : Auth) (perm : String) (res : Resource) (now : Nat) :
    Except Err Authorization :=
  match resolve w space a with
  | .error e => .error e
  | .ok ea => .ok (authorize ea perm res a now)

/-! ## Control-plane operations (host API only) -/

def World.ensurePrincipal (w : World) (id : String) : World :=
  match w.findPrincipal id with
  | some _ => w
  | none => { w with principals := w.principals ++ [{ id := id }] }

def World.setPrincipalStatus (w : World) (id status : String) : World :=
  { w with principals := w.principals.map (fun p => if p.id = id then { p with status := status } else p) }

/-- `put_group`: replaces the membership of an existing group, else appends a new active row. -/
def World.putGroup (w : World) (id : String) (members : List String) : World :=
  if w.groups.any (fun g => g.id = id) then
    { w with groups := w.groups.map (fun g => if g.id = id then { g with members := members } else g) }
  else { w with groups := w.groups ++ [{ id := id, members := members }] }

def World.createGrant (w : World) (g : GrantRow) : World :=
  { w with grants := w.grants ++ [{ g with rowId := w.grants.length + 1, status := "active" }] }

def World.revokeGrant (w : World) (row : Nat) : World :=
  { w with grants := w.grants.map (fun g => if g.rowId = row then { g with status := "revoked" } else g) }

def World.createDelegation (w : World) (d : DelegationRow) : World :=
  { w with delegations := w.delegations ++ [{ d with rowId := w.delegations.length + 1, status := "active" }] }

def World.revokeDelegation (w : World) (row : Nat) : World :=
  { w with delegations :=
      w.delegations.map (fun d => if d.rowId = row then { d with status := "revoked" } else d) }

/-- `publish_policy`: always a new row, version = greatest + 1. -/
def World.publishPolicy (w : World) (policyId : String) (statements : List Statement) : World :=
  let version := match w.activePolicy policyId with
    | some p => p.version + 1
    | none => 1
  { w with policies := w.policies ++ [{ policyId := policyId, version := version, statements := statements }] }

def World.putSpace (w : World) (sp : SpaceRow) : World :=
  if w.spaces.any (fun s => s.id = sp.id) then
    { w with spaces := w.spaces.map (fun s => if s.id = sp.id then sp else s) }
  else { w with spaces := w.spaces ++ [sp] }

/-- What `CognitiveNexus::connect` bootstraps. -/
def World.bootstrap : World :=
  { principals := [{ id := "kip:principal:system" }, { id := "kip:principal:anonymous" }]
    spaces := [{ id := "kip:space:default", ownerPrincipal := "kip:principal:system",
                 owners := ["kip:principal:system"] }] }

/-! ## The read choke point (kql/mod.rs `Context::admit`, redact.rs `apply`) -/

/-- A rendered view: top-level members in order. `Val` is opaque content. -/
abbrev View (Val : Type) := List (String × Val)

def alwaysVisible : List String := ["id", "kind", "space_id"]

/-- `redact::apply`: `originRedacted` rewrites the `_system` member (it replaces `_system.origin`),
then the field mask keeps the always-visible members and the listed ones. -/
def redact {Val : Type} (originRedacted : Val → Val) (cons : Constraints) (mayReadOrigin : Bool)
    (v : View Val) : View Val :=
  let v1 := if mayReadOrigin then v else v.map (fun kv => if kv.1 = "_system" then (kv.1, originRedacted kv.2) else kv)
  if cons.fields.isEmpty then v1
  else v1.filter (fun kv => alwaysVisible.contains kv.1 || cons.fields.contains kv.1)

/-- An element as the read path sees it: what authorization reads, and the rendered content. -/
structure Elem (Val : Type) where
  id : Nat
  res : Resource
  view : View Val

/-- `Context::admit`: `None` for an element the caller may not read, else the redacted view. -/
def admit {Val : Type} (originRedacted : Val → Val) (ea : EA) (a : Auth) (now : Nat) (mayReadOrigin : Bool)
    (e : Elem Val) : Option (Nat × View Val) :=
  match mayRead ea e.res a now with
  | none => none
  | some cons => some (e.id, redact originRedacted cons mayReadOrigin e.view)

/-- The query universe of one caller over one store. -/
def queryUniverse {Val : Type} (originRedacted : Val → Val) (ea : EA) (a : Auth) (now : Nat) (mayReadOrigin : Bool)
    (s : List (Elem Val)) : List (Nat × View Val) :=
  s.filterMap (admit originRedacted ea a now mayReadOrigin)

end AndaVerif.Authz
