/-
C15 — executable model of the JSON sub-parser of the KIP parsers (rs/anda_kip/src/parser/json.rs) and
of the public entry point `parse_json` (parser.rs), combinator by combinator:

* `R`            = nom's three outcomes (`Ok`, `Err::Error` = soft, `Err::Failure` = hard after `cut`),
                   plus `oof` (the model ran out of its recursion fuel — never an outcome of the code).
* `pString`      = `string()` / `character()` / `unicode_escape()` / `u16_hex()`: every escape, surrogate
                   pairs, control characters refused, anything after a bad escape is a hard failure.
* `recognizeFloat`, `pNumber` = `recognize_float` (nom) followed by `parse_number`: serde_json's strict
                   number grammar, integer literals exact within i64/u64 (`-0` is the integer 0),
                   out-of-range integers and non-finite floats refused. Floats carry no value (`float`):
                   the f64 is std's / serde_json's business, not the parser's.
* `sepList`      = `separated_list0(ws(char(',')), item)` incl. its quirk: a separator that is not followed
                   by an item is given back (so a trailing comma is read by the `opt(ws(char(',')))` after
                   it, and `[,]` is the empty array).
* `pArray`, `pObject`, `pValue` = `array()`, `object()` (string or identifier keys, duplicate keys a hard
                   failure), `JsonParser` (`alt` order: null, true, false, string, number, array, object).
* `parseJson`    = `parse_json`: `validate_parser_budget`, then `all_consuming(ws(json_value()))`.

The recursion of `pValue` is on a fuel that counts nesting only; the loops run on the input length.
No imports outside `AndaVerif.Model` / `AndaVerif.Gen`.
-/
import AndaVerif.Model.KipLex

namespace AndaVerif.Model.KipJson
open AndaVerif.Model.KipLex

inductive Json where
  | null
  | bool (b : Bool)
  /-- an integer literal (exact) -/
  | int (v : Int)
  /-- a finite non-integer-literal number; its f64 value is not modelled -/
  | float
  | str (s : List Char)
  | arr (items : List Json)
  | obj (fields : List (List Char × Json))
  deriving Repr, Inhabited

/-- nom's outcomes. -/
inductive R (α : Type) where
  | ok (a : α) (rest : List Char)
  /-- `Err::Error`: a wrong branch, `alt` / `opt` / `many` go on -/
  | err
  /-- `Err::Failure`: after a `cut`, the whole parse is over -/
  | fail
  /-- the model's fuel ran out (no counterpart in the code) -/
  | oof
  deriving Repr, Inhabited

/-! ## lexical helpers -/

def isDigit (c : Char) : Bool := 0x30 ≤ c.toNat && c.toNat ≤ 0x39
def isAsciiAlpha (c : Char) : Bool :=
  (0x41 ≤ c.toNat && c.toNat ≤ 0x5A) || (0x61 ≤ c.toNat && c.toNat ≤ 0x7A)

def hexVal (c : Char) : Option Nat :=
  let n := c.toNat
  if 0x30 ≤ n ∧ n ≤ 0x39 then some (n - 0x30)
  else if 0x41 ≤ n ∧ n ≤ 0x46 then some (n - 0x41 + 10)
  else if 0x61 ≤ n ∧ n ≤ 0x66 then some (n - 0x61 + 10)
  else none

/-- `u16_hex`: exactly four hex digits. -/
def hex4 : List Char → Option (Nat × List Char)
  | a :: b :: c :: d :: rest =>
    match hexVal a, hexVal b, hexVal c, hexVal d with
    | some x, some y, some z, some w => some (((x * 16 + y) * 16 + z) * 16 + w, rest)
    | _, _, _, _ => none
  | _ => none

def startsWith : List Char → List Char → Option (List Char)
  | [], s => some s
  | _ :: _, [] => none
  | p :: ps, c :: cs => if p == c then startsWith ps cs else none

/-- `ws(char(c))` : trivia, the character, trivia. -/
def wsChar (c : Char) (s : List Char) : Option (List Char) :=
  match skipTrivia s with
  | d :: rest => if d == c then some (skipTrivia rest) else none
  | [] => none

/-! ## strings -/

/-- The body of a string after the opening quote (`fold(0.., character())` then `char('"')`, under `cut`).
`fuel` bounds the loop (the input length suffices). -/
def pChars : Nat → List Char → List Char → R (List Char)
  | 0, _, _ => .oof
  | fuel + 1, acc, s =>
    match s with
    | [] => .fail
    | c :: rest =>
      if c == '"' then .ok acc.reverse rest
      else if c == '\\' then
        match rest with
        | [] => .fail
        | e :: rest2 =>
          if e == '"' || e == '\\' || e == '/' then pChars fuel (e :: acc) rest2
          else if e == 'b' then pChars fuel ('\x08' :: acc) rest2
          else if e == 'f' then pChars fuel ('\x0c' :: acc) rest2
          else if e == 'n' then pChars fuel ('\n' :: acc) rest2
          else if e == 'r' then pChars fuel ('\r' :: acc) rest2
          else if e == 't' then pChars fuel ('\t' :: acc) rest2
          else if e == 'u' then
            match hex4 rest2 with
            | none => .fail
            | some (hi, rest3) =>
              if hi < 0xD800 ∨ 0xE000 ≤ hi then pChars fuel (Char.ofNat hi :: acc) rest3
              else if hi < 0xDC00 then
                -- a high surrogate needs `\u` + a low surrogate
                match rest3 with
                | b :: u :: rest4 =>
                  if b == '\\' && u == 'u' then
                    match hex4 rest4 with
                    | some (lo, rest5) =>
                      if 0xDC00 ≤ lo ∧ lo < 0xE000 then
                        pChars fuel (Char.ofNat ((hi - 0xD800) * 1024 + (lo - 0xDC00) + 0x10000) :: acc) rest5
                      else .fail
                    | none => .fail
                  else .fail
                | _ => .fail
              else .fail
          else .fail
      else if 0x20 ≤ c.toNat then pChars fuel (c :: acc) rest
      else .fail

/-- `string()`. -/
def pString (s : List Char) : R (List Char) :=
  match s with
  | c :: rest => if c == '"' then pChars (rest.length + 1) [] rest else .err
  | [] => .err

/-! ## numbers -/

def spanDigits : List Char → List Char × List Char
  | [] => ([], [])
  | c :: cs => if isDigit c then let (d, r) := spanDigits cs; (c :: d, r) else ([], c :: cs)

def natOfDigits (ds : List Char) : Nat := ds.foldl (fun acc c => acc * 10 + (c.toNat - 0x30)) 0

/-- The pieces of a `recognize_float` lexeme. -/
structure NumLex where
  sign : Option Char := none
  intDigits : List Char := []
  hasDot : Bool := false
  fracDigits : List Char := []
  hasExp : Bool := false
  expNeg : Bool := false
  expDigits : List Char := []
  deriving Repr

/-- `recognize_float` of nom 8: `[+-]? (digit+ ('.' digit*)? | '.' digit+) ([eE] [+-]? cut(digit+))?`. -/
def recognizeFloat (s : List Char) : R NumLex :=
  let (sign, s1) :=
    match s with
    | c :: r => if c == '+' || c == '-' then (some c, r) else (none, s)
    | [] => (none, s)
  let (ints, s2) := spanDigits s1
  -- mantissa
  let mant : Option (NumLex × List Char) :=
    if ints ≠ [] then
      match s2 with
      | d :: r =>
        if d == '.' then
          let (fr, s3) := spanDigits r
          some ({ sign := sign, intDigits := ints, hasDot := true, fracDigits := fr }, s3)
        else some ({ sign := sign, intDigits := ints }, s2)
      | [] => some ({ sign := sign, intDigits := ints }, s2)
    else
      match s2 with
      | d :: r =>
        if d == '.' then
          let (fr, s3) := spanDigits r
          if fr ≠ [] then some ({ sign := sign, hasDot := true, fracDigits := fr }, s3) else none
        else none
      | [] => none
  match mant with
  | none => .err
  | some (lx, s3) =>
    match s3 with
    | e :: r =>
      if e == 'e' || e == 'E' then
        let (neg, r1) :=
          match r with
          | c :: r' => if c == '-' then (true, r') else if c == '+' then (false, r') else (false, r)
          | [] => (false, r)
        let (ex, r2) := spanDigits r1
        if ex ≠ [] then .ok { lx with hasExp := true, expNeg := neg, expDigits := ex } r2 else .fail
      else .ok lx s3
    | [] => .ok lx s3

/-- serde_json's strict grammar on the lexeme: no `+`, an integer part without leading zeros, digits
after a dot. -/
def strictNumber (lx : NumLex) : Bool :=
  lx.sign != some '+' && lx.intDigits != [] &&
  (lx.intDigits == ['0'] || lx.intDigits.head? != some '0') &&
  (!lx.hasDot || lx.fracDigits != [])

/-- 2^1024 − 2^970: decimal values from here on round to infinity. -/
def f64Overflow : Nat := 2 ^ 1024 - 2 ^ 970

def dropLeadingZeros : List Char → List Char
  | [] => []
  | c :: cs => if c == '0' then dropLeadingZeros cs else c :: cs

/-- Does the decimal `digits × 10^e10` overflow an f64? -/
def floatOverflows (lx : NumLex) : Bool :=
  let ds := dropLeadingZeros (lx.intDigits ++ lx.fracDigits)
  if ds == [] then false
  else
    let k : Int := ds.length
    let e : Int := (if lx.expNeg then -(natOfDigits lx.expDigits : Int) else (natOfDigits lx.expDigits : Int))
                   - (lx.fracDigits.length : Int)
    -- 10^(k-1) ≤ digits < 10^k
    if k + e > 310 then true
    else if k + e < 300 then false
    else
      let d := natOfDigits ds
      if e ≥ 0 then decide (d * 10 ^ e.toNat ≥ f64Overflow)
      else decide (d ≥ f64Overflow * 10 ^ (-e).toNat)

/-- the integer an integer literal denotes -/
def intOf (lx : NumLex) : Int :=
  if lx.sign == some '-' then -(natOfDigits lx.intDigits : Int) else (natOfDigits lx.intDigits : Int)

/-- What `parse_number` makes of a recognised lexeme (`none`: refused). -/
def numValue (lx : NumLex) : Option Json :=
  if !strictNumber lx then none
  else if !lx.hasDot && !lx.hasExp then
    if -(2 : Int) ^ 63 ≤ intOf lx ∧ intOf lx < (2 : Int) ^ 64 then some (.int (intOf lx)) else none
  else if floatOverflows lx then none
  else some .float

/-- `parse_number`. -/
def pNumber (s : List Char) : R Json :=
  match recognizeFloat s with
  | .ok lx rest =>
    match numValue lx with
    | some v => .ok v rest
    | none => .err
  | .err => .err
  | .fail => .fail
  | .oof => .oof

/-! ## lists -/

/-- The loop of `separated_list0(ws(char(',')), item)` after the first item. -/
def sepLoop {α : Type} (item : List Char → R α) : Nat → List α → List Char → R (List α)
  | 0, _, _ => .oof
  | fuel + 1, acc, s =>
    match wsChar ',' s with
    | none => .ok acc.reverse s
    | some s1 =>
      match item s1 with
      | .ok v rest => sepLoop item fuel (v :: acc) rest
      | .err => .ok acc.reverse s      -- the separator is given back
      | .fail => .fail
      | .oof => .oof

/-- `separated_list0(ws(char(',')), item)`. -/
def sepList {α : Type} (item : List Char → R α) (s : List Char) : R (List α) :=
  match item s with
  | .ok v rest => sepLoop item (rest.length + 1) [v] rest
  | .err => .ok [] s
  | .fail => .fail
  | .oof => .oof

/-- `cut(ws(terminated(list, opt(ws(char(','))))))` then `cut(char(close))`, after the opener. -/
def bracketed {α : Type} (item : List Char → R α) (close : Char) (s : List Char) : R (List α) :=
  match sepList item (skipTrivia s) with
  | .ok items rest =>
    let rest1 := match wsChar ',' rest with | some r => r | none => rest
    match skipTrivia rest1 with
    | c :: rest2 => if c == close then .ok items rest2 else .fail
    | [] => .fail
  | .err => .fail
  | .fail => .fail
  | .oof => .oof

/-- `identifier()`: `[A-Za-z_][A-Za-z0-9_]*`. -/
def pIdent (s : List Char) : R (List Char) :=
  match s with
  | c :: rest =>
    if isAsciiAlpha c || c == '_' then
      let body := rest.takeWhile (fun d => isAsciiAlpha d || isDigit d || d == '_')
      .ok (c :: body) (rest.drop body.length)
    else .err
  | [] => .err

/-- an object key: `alt((string(), identifier()))` -/
def pKey (s : List Char) : R (List Char) :=
  match pString s with
  | .err => pIdent s
  | r => r

/-- one `key: value` pair of an object -/
def pPair (pv : List Char → R Json) (s : List Char) : R (List Char × Json) :=
  match pKey s with
  | .ok k rest =>
    match wsChar ':' rest with
    | none => .fail
    | some rest1 =>
      match pv rest1 with
      | .ok v rest2 => .ok (k, v) rest2
      | .err => .fail
      | .fail => .fail
      | .oof => .oof
  | .err => .err
  | .fail => .fail
  | .oof => .oof

def hasDuplicateKey : List (List Char × Json) → Bool
  | [] => false
  | (k, _) :: rest => rest.any (fun p => p.1 == k) || hasDuplicateKey rest

/-- `JsonParser`: the `alt` of the seven alternatives, with the parser used for nested values as a
parameter. -/
def pValueBody (pv : List Char → R Json) (s : List Char) : R Json :=
  match startsWith ['n', 'u', 'l', 'l'] s with
  | some r => .ok .null r
  | none =>
  match startsWith ['t', 'r', 'u', 'e'] s with
  | some r => .ok (.bool true) r
  | none =>
  match startsWith ['f', 'a', 'l', 's', 'e'] s with
  | some r => .ok (.bool false) r
  | none =>
  match pString s with
  | .ok v r => .ok (.str v) r
  | .fail => .fail
  | .oof => .oof
  | .err =>
  match pNumber s with
  | .ok v r => .ok v r
  | .fail => .fail
  | .oof => .oof
  | .err =>
  match s with
  | c :: rest =>
    if c == '[' then
      match bracketed pv ']' rest with
      | .ok items r => .ok (.arr items) r
      | .err => .err
      | .fail => .fail
      | .oof => .oof
    else if c == '{' then
      match bracketed (pPair pv) '}' rest with
      | .ok fields r => if hasDuplicateKey fields then .fail else .ok (.obj fields) r
      | .err => .err
      | .fail => .fail
      | .oof => .oof
    else .err
  | [] => .err

/-- `json_value()`; `n` bounds the nesting (each level of brackets spends one). -/
def pValue : Nat → List Char → R Json
  | 0 => fun _ => .oof
  | n + 1 => pValueBody (pValue n)

/-- Fuel that suffices once the budget has accepted the text: one level per open bracket, plus the
value itself (the harness reports every `oof` as a disagreement). -/
def jsonFuel : Nat := Gen.KipLimits.maxKipNestingDepth + 2

inductive JsonOutcome where
  | ok (v : Json)
  | tooLong
  | tooDeep
  | syntaxErr
  | outOfFuel
  deriving Repr

/-- `parse_json`. -/
def parseJson (s : List Char) : JsonOutcome :=
  match validateBudgetKip s with
  | .error .tooLong => .tooLong
  | .error .tooDeep => .tooDeep
  | .ok () =>
    match pValue jsonFuel (skipTrivia s) with
    | .ok v rest => if skipTrivia rest == [] then .ok v else .syntaxErr
    | .err => .syntaxErr
    | .fail => .syntaxErr
    | .oof => .outOfFuel

/-- nesting depth of a value (a scalar is 0) -/
def Json.depth : Json → Nat
  | .arr items => 1 + depthList items
  | .obj fields => 1 + depthFields fields
  | _ => 0
where
  depthList : List Json → Nat
    | [] => 0
    | v :: vs => max (Json.depth v) (depthList vs)
  depthFields : List (List Char × Json) → Nat
    | [] => 0
    | (_, v) :: fs => max (Json.depth v) (depthFields fs)

end AndaVerif.Model.KipJson
