/-
Model of `time::normalize` (rs/anda_cognitive_nexus/src/time.rs): an RFC 3339 timestamp text is
read as an INSTANT (milliseconds since 1970-01-01T00:00:00Z, sub-millisecond digits truncated, the
UTC offset subtracted) and stored / compared in one canonical spelling
`YYYY-MM-DDTHH:MM:SS.mmmZ`. What the projection's `eligible` compares with the validity window is
the instant, never the text the caller wrote.
Accepted (as chrono's `parse_from_rfc3339` does): `T`/`t`/space separator, `Z`/`z` or `±hh:mm`,
any number ≥ 1 of fractional digits. Not modelled: the leap-second spelling `:60` (the harness does
not generate it). Import-free.
-/
namespace AndaVerif.BeliefTime

def digit? (c : Char) : Option Nat :=
  if '0' ≤ c ∧ c ≤ '9' then some (c.toNat - '0'.toNat) else none

/-- exactly `n` digits -/
def digits (n : Nat) (cs : List Char) : Option (Nat × List Char) :=
  match n, cs with
  | 0, rest => some (0, rest)
  | n + 1, c :: rest =>
    match digit? c, digits n rest with
    | some d, some (v, rest') => some (d * 10 ^ n + v, rest')
    | _, _ => none
  | _ + 1, [] => none

def expect (c : Char) : List Char → Option (List Char)
  | d :: rest => if d = c then some rest else none
  | [] => none

def isLeap (y : Nat) : Bool := (y % 4 == 0 && y % 100 != 0) || y % 400 == 0

def daysInMonth (y m : Nat) : Nat :=
  if m = 2 then (if isLeap y then 29 else 28)
  else if m = 4 ∨ m = 6 ∨ m = 9 ∨ m = 11 then 30 else 31

/-- days since 1970-01-01 of a civil date (proleptic Gregorian), for `y ≥ 1`. -/
def daysFromCivil (y m d : Nat) : Int :=
  let y' : Int := if m ≤ 2 then (y : Int) - 1 else y
  let era : Int := y' / 400
  let yoe : Int := y' - era * 400
  let mp : Int := ((m : Int) + 9) % 12
  let doy : Int := (153 * mp + 2) / 5 + (d : Int) - 1
  let doe : Int := yoe * 365 + yoe / 4 - yoe / 100 + doy
  era * 146097 + doe - 719468

/-- the first three fractional digits as milliseconds, the rest (digits) dropped -/
def fraction (cs : List Char) : Option (Nat × List Char) :=
  let ds := cs.takeWhile (fun c => (digit? c).isSome)
  let rest := cs.dropWhile (fun c => (digit? c).isSome)
  if ds.isEmpty then none
  else
    let three := (ds ++ ['0', '0']).take 3
    match digits 3 three with
    | some (ms, _) => some (ms, rest)
    | none => none

/-- the UTC offset in minutes -/
def offset (cs : List Char) : Option Int :=
  match cs with
  | ['Z'] => some 0
  | ['z'] => some 0
  | sign :: rest =>
    if sign = '+' ∨ sign = '-' then
      match digits 2 rest with
      | some (hh, r1) =>
        match expect ':' r1 with
        | some r2 =>
          match digits 2 r2 with
          | some (mm, []) =>
            if hh ≤ 23 ∧ mm ≤ 59 then
              let v : Int := (hh * 60 + mm : Nat)
              some (if sign = '-' then -v else v)
            else none
          | _ => none
        | none => none
      | none => none
    else none
  | [] => none

/-- `time::normalize`: the instant of an RFC 3339 text in milliseconds since the epoch. -/
def parseInstant (text : String) : Option Int :=
  match digits 4 text.toList with
  | none => none
  | some (y, r0) =>
  match expect '-' r0 with
  | none => none
  | some r1 =>
  match digits 2 r1 with
  | none => none
  | some (mo, r2) =>
  match expect '-' r2 with
  | none => none
  | some r3 =>
  match digits 2 r3 with
  | none => none
  | some (d, r4) =>
  match r4 with
  | [] => none
  | sep :: r5 =>
  if ¬ (sep = 'T' ∨ sep = 't' ∨ sep = ' ') then none else
  match digits 2 r5 with
  | none => none
  | some (hh, r6) =>
  match expect ':' r6 with
  | none => none
  | some r7 =>
  match digits 2 r7 with
  | none => none
  | some (mi, r8) =>
  match expect ':' r8 with
  | none => none
  | some r9 =>
  match digits 2 r9 with
  | none => none
  | some (ss, r10) =>
  let fracAndRest : Option (Nat × List Char) :=
    match r10 with
    | '.' :: r11 => fraction r11
    | _ => some (0, r10)
  match fracAndRest with
  | none => none
  | some (ms, r12) =>
  match offset r12 with
  | none => none
  | some off =>
    if y = 0 ∨ mo = 0 ∨ mo > 12 ∨ d = 0 ∨ d > daysInMonth y mo ∨ hh > 23 ∨ mi > 59 ∨ ss > 59 then none
    else
      some ((daysFromCivil y mo d * 86400 + ((hh * 3600 + mi * 60 + ss : Nat) : Int) - off * 60) * 1000 + (ms : Int))

end AndaVerif.BeliefTime
