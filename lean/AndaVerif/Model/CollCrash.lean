import AndaVerif.Model.Collection
/-
Durability layer of the collection model (C02 / C04 "after crash recovery"): what a power loss at a
quiescent point leaves behind, and what `Collection::open` rebuilds from it.

Mirrors rs/anda_db/src/collection.rs:

* what is durable when: a document object the moment its `add` / `update` / `remove` returns
  (`storage.create / put / delete`); a *mutation intent* `(id, previous image, proposed image)` the
  moment `update_impl` / `remove_impl` get past their validation (`record_mutation_intent`, before
  either the indexes or the object change — also for an update that is then rejected by an index);
  the id bitmap, every index and the metadata only at `flush_inner`, which then sets the storage
  checkpoint to the highest allocated id and retires the intents (`clear_mutation_intents`);
* `Collection::open` after the crash: load ids / indexes / metadata of the last flush (`load_indexes`:
  registry in name order, unique first), run the callback, then the recovery phases **in the order
  the code has them** — `replay_mutation_intents` (remove the indexed values of *every* recorded
  image of *every* intent first; then, id by id, make the stored document authoritative: remove its
  values, re-insert them, stopping at the first index that refuses, register the id; a document that
  is gone completes the crashed remove) and then `auto_repair_indexes` (the repair scan over every
  id above the checkpoint that has a document object: register it, insert into every index, each
  index on its own, a refusal is logged and skipped);
* `AndaDB::open_collection` ends with a flush.

The order of the phases is a parameter (`Phase` list) so that the property theorems can be stated
for the order the translator extracts from `Collection::open` (`Gen/CollOrder.lean`).
Storage calls do not fail and the crash is at a quiescent point (between two API calls): crashes in
the middle of an operation or of a flush are C01.
-/
namespace AndaVerif.Collection

abbrev Doc := List (Nat × FVal)

/-- `MutationIntent` (sequence order = list order) -/
structure Intent where
  id : Nat
  previous : Option Doc
  proposed : Option Doc

/-- the volatile handle plus what the object store holds beyond the document objects (`s.docs`) -/
structure DState where
  s : State
  /-- `ids.cbor` of the last flush -/
  dIds : List Nat
  /-- the index objects + registry of the last flush -/
  dIx : Idx
  /-- `StorageStats::check_point` -/
  checkpoint : Nat
  /-- `mutation_intents/*` -/
  intents : List Intent

def dinit (schema : List (Nat × FieldDef)) : DState :=
  { s := init schema, dIds := [], dIx := { bt := [], tx := [], hn := [] }, checkpoint := 0, intents := [] }

/-- the intent an `update` / `remove` writes (none when it is refused before `record_mutation_intent`) -/
def intentOf (s : State) : Op → Option Intent
  | .update id fs =>
    if s.poisoned || !s.ids.contains id || fs.isEmpty then none
    else
      match lookupD s.docs id with
      | none => none
      | some o =>
        match applyFields s.schema o fs with
        | none => none
        | some n => if validate s.schema n then some { id := id, previous := some o, proposed := some n } else none
  | .remove id =>
    if s.poisoned || !s.ids.contains id then none
    else (lookupD s.docs id).map (fun d => { id := id, previous := some d, proposed := none })
  | _ => none

/-- `flush_inner`: persists ids, indexes, metadata and the checkpoint when the version moved; retires
the intents whenever there are any -/
def dflush (x : DState) : DState :=
  let x := if x.s.dirty then { x with dIds := x.s.ids, dIx := x.s.ix, checkpoint := max x.checkpoint x.s.maxId } else x
  { x with s := flush x.s, intents := [] }

-- ------------------------------------------------------------------------------------------------
-- recovery
-- ------------------------------------------------------------------------------------------------

/-- `remove_document_from_indexes`: value-keyed for B-tree and BM25, by id for HNSW -/
def removeDocFromIndexes (ix : Idx) (id : Nat) (d : Doc) : Idx :=
  { bt := ix.bt.map (fun x => (x.1, btRemove x.2 id (valueOf x.1 d))),
    tx := ix.tx.map (fun t => txRemoveO t id (textOf t.fields d)),
    hn := ix.hn.map (fun h => hnRemove h id) }

/-- one family of `insert_document_into_indexes`: stop at the first index that refuses -/
def insertSeq {α : Type} (ins : α → Except Err α) : List α → List α × Bool
  | [] => ([], true)
  | a :: rest =>
    match ins a with
    | .error _ => (a :: rest, false)
    | .ok a' => let r := insertSeq ins rest; (a' :: r.1, r.2)

/-- `insert_document_into_indexes`: B-tree, BM25, HNSW; the first refusal ends it (logged by the caller) -/
def insertDocIntoIndexes (ix : Idx) (id : Nat) (d : Doc) : Idx :=
  let b := insertSeq (fun x : BtDef × List (Key × Nat) => (btInsert x.1.unique x.2 id (valueOf x.1 d)).map (fun r => (x.1, r))) ix.bt
  if !b.2 then { ix with bt := b.1 }
  else
    let t := insertSeq (fun t : Tx => txInsertO t id (textOf t.fields d)) ix.tx
    if !t.2 then { ix with bt := b.1, tx := t.1 }
    else
      let h := insertSeq (fun h : Hn => hnInsertO h id (vecOf h.field d)) ix.hn
      { bt := b.1, tx := t.1, hn := h.1 }

def orKeep {α : Type} (a : α) : Except Err α → α
  | .ok a' => a'
  | .error _ => a

/-- the index part of `repair_document`: every index on its own, a refusal is logged and skipped -/
def repairInsert (ix : Idx) (id : Nat) (d : Doc) : Idx :=
  { bt := ix.bt.map (fun x => (x.1, orKeep x.2 (btInsert x.1.unique x.2 id (valueOf x.1 d)))),
    tx := ix.tx.map (fun t => orKeep t (txInsertO t id (textOf t.fields d))),
    hn := ix.hn.map (fun h => orKeep h (hnInsertO h id (vecOf h.field d))) }

def addId (ids : List Nat) (id : Nat) : List Nat := if ids.contains id then ids else insertAsc id ids

/-- first loop of `reconcile_mutation_intents`: the indexed values of every image of every intent go -/
def replayRemoveImages (ix : Idx) : List Intent → Idx
  | [] => ix
  | it :: rest =>
    let ix := match it.previous with | some d => removeDocFromIndexes ix it.id d | none => ix
    let ix := match it.proposed with | some d => removeDocFromIndexes ix it.id d | none => ix
    replayRemoveImages ix rest

/-- one step of the second loop: the stored document is authoritative -/
def reindexOne (s : State) (id : Nat) : State :=
  match lookupD s.docs id with
  | some cur =>
    let ix := insertDocIntoIndexes (removeDocFromIndexes s.ix id cur) id cur
    { s with ix := ix, maxId := max s.maxId id, ids := addId s.ids id }
  | none =>
    { s with ix := { s.ix with hn := s.ix.hn.map (fun h => hnRemove h id) }, ids := s.ids.filter (fun i => i != id) }

/-- second loop of `reconcile_mutation_intents`, ascending ids -/
def replayReindex (s : State) : List Nat → State
  | [] => s
  | id :: rest => replayReindex (reindexOne s id) rest

/-- how `reconcile_mutation_intents` is organised: two global passes (un-index the images of *all* intents,
then re-index document by document — what the code does), or one fused pass per document (un-index this
document's own images and re-index it at once — not what the code does; kept to state what would break) -/
inductive ReplayMode where
  | twoPass | fused
  deriving DecidableEq, Repr

def replayFusedLoop (s : State) (intents : List Intent) : List Nat → State
  | [] => s
  | id :: rest =>
    let s := { s with ix := replayRemoveImages s.ix (intents.filter (fun it => it.id == id)) }
    replayFusedLoop (reindexOne s id) intents rest

/-- `replay_mutation_intents` -/
def replayWith (mode : ReplayMode) (s : State) (intents : List Intent) : State :=
  if intents.isEmpty then s
  else
    let ids := sortAsc (intents.map (·.id)).eraseDups
    let s := match mode with
      | .twoPass => replayReindex { s with ix := replayRemoveImages s.ix intents } ids
      | .fused => replayFusedLoop s intents ids
    { s with dirty := true }

def replay (s : State) (intents : List Intent) : State := replayWith .twoPass s intents

def scanOne (s : State) (id : Nat) (d : Doc) : State :=
  let isNew := !s.ids.contains id
  { s with maxId := max s.maxId id, ids := addId s.ids id, ix := repairInsert s.ix id d, dirty := s.dirty || isNew }

/-- `auto_repair_indexes`: every id above the checkpoint that has a document object, ascending -/
def repairScan (s : State) (checkpoint : Nat) : State :=
  ((sortAsc (s.docs.map (·.1))).filter (fun i => decide (checkpoint < i))).foldl
    (fun s id => match lookupD s.docs id with | some d => scanOne s id d | none => s) s

inductive Phase where
  | replay | scan
  deriving DecidableEq, Repr

/-- the order `Collection::open` has them in (kept equal to the generated `Gen.CollOrder.recoveryOrder`
by `gen_recover_order`) -/
def codePhases : List Phase := [.replay, .scan]

/-- the two structural parameters of recovery that the translator extracts from the code -/
structure RecCfg where
  phases : List Phase
  mode : ReplayMode

def codeCfg : RecCfg := { phases := codePhases, mode := .twoPass }

def runPhase (cfg : RecCfg) (x : DState) (s : State) : Phase → State
  | .replay => replayWith cfg.mode s x.intents
  | .scan => repairScan s x.checkpoint

/-- what a fresh process loads: ids, indexes and the allocator of the last flush; the document objects
(`s.docs`) and the intents are what they were when the power went -/
def crashLoad (x : DState) : DState :=
  { x with s := { x.s with ids := x.dIds, ix := { x.dIx with bt := reorder x.dIx.bt }, maxId := x.s.savedMax,
                            dirty := false, poisoned := false } }

/-- the recovery phases of `Collection::open` (after the callback), then the flush `open_collection` ends with -/
def recoverWith (cfg : RecCfg) (x : DState) : DState :=
  dflush { x with s := cfg.phases.foldl (runPhase cfg x) x.s }

def recover (x : DState) : DState := recoverWith codeCfg x

inductive DOp where
  | op (o : Op)
  /-- power loss at this point, then `open_collection` -/
  | crash

def dstepWith (cfg : RecCfg) (x : DState) : DOp → DState × Out
  | .op .flush => if x.s.poisoned then (x, .err .state) else (dflush x, .ok)
  | .op .reopen =>
    if x.s.poisoned then (x, .err .state)
    else
      let y := dflush x
      ({ y with s := (step y.s .reopen).1 }, .ok)
  | .op o =>
    let r := step x.s o
    ({ x with s := r.1, intents := match intentOf x.s o with | some it => x.intents ++ [it] | none => x.intents }, r.2)
  | .crash => (recoverWith cfg (crashLoad x), .ok)

def dstep (x : DState) (o : DOp) : DState × Out := dstepWith codeCfg x o

def drunWith (cfg : RecCfg) (x : DState) : List DOp → DState
  | [] => x
  | o :: rest => drunWith cfg (dstepWith cfg x o).1 rest

def drun (x : DState) (ops : List DOp) : DState := drunWith codeCfg x ops

end AndaVerif.Collection
