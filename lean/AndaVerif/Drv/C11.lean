import AndaVerif.Model.Bm25Flush
import AndaVerif.Model.Bm25Conc
import AndaVerif.Drv.Util
/-
Driver of the C11 model. Lines (tokens are numbers, `tf` = `tok:freq,tok:freq` or `-`):
  reset
  ins <id> <tf>            -> ok | err:tokenize | err:exists
  rem <id> <tf>            -> true | false
  purge <ids csv>          -> <number of ids that were present>
  st                       -> n=<len> total=<total_tokens> docs=<id:len,…>
  q <scored> <query>       -> ok set=<ids asc> rank=<ids in compare_scored_docs order> | err:notlimit
  topk <k> <scored>        -> <ids of top_k_results>
  cmp <id:bits> <id:bits>  -> lt | eq | gt
  gq <toks csv>            -> what `term_general` predicts from the ghost state of the history (or n/a after a load)
  gflags <toks csv>        -> cover=<all removes so far named the original tokens> vstale=<a live doc has a left-over entry under toks>
  dq <query>               -> the live ids that satisfy the set-algebra reading `denote`
  si <toks csv>            -> N=<n> total=<t> dup=<bool> | <tok>:<id>/<tf>/<len>+…  | …   (inputs of the scores of a term query)
  dreset | dobj <b> <g> <payload> | dmeta <version> <max_bucket> <manifest b:g,…>     durable state D
  wreset | wobj <b> <g> <payload> | wmeta <version> <max_bucket> <manifest> | wdel <b> <g>   writes W
  loadprefix <k>           -> contents of load_all(D + first k writes of W)
  flushcheck               -> ok | shape-violation | snapshot-mismatch (load(D+W) vs the in-memory model)
  adopt                    -> the in-memory model becomes load_all(D); prints its contents
payload ::= <tok=id:f+id:f,…|-> <id:len,…|->
L3 (threads at the yield points of hook H3, Model/Bm25Conc):
  cinit zero|large         -> fresh concurrent configuration (bucket_overload_size 0 / 512 KiB)
  cseq <op>                -> one operation run alone to completion (setup); prints its result
  cthr <op>                -> adds a thread parked at its `.gate` point
  crun <schedule csv>      -> runs the schedule strictly: res=<r0>;<r1>;… quiescent=<bool> | disabled@<k>
  cstate                   -> n= total= docs= terms= dirty=<token sets of the dirty buckets> lost=<postings no bucket lists>
  cflushed                 -> every bucket becomes clean (a completed flush)
  csync                    -> the sequential model state becomes the concurrent one (for flushcheck / loadprefix)
op ::= ins <id> <tf> | rem <id> <tf> | purge <ids> | compact
query  ::= T <toks csv> | A <n> q… | O <n> q… | N q
scored ::= id:bits,id:bits,…  (bits = the f32 bit pattern as a decimal u32) or `-`
-/
open AndaVerif.Bm25 AndaVerif.Drv

namespace AndaVerif.DrvC11

def parsePair (s : String) : Option (Nat × Nat) :=
  match s.splitOn ":" with
  | [a, b] => do let a ← a.toNat?; let b ← b.toNat?; pure (a, b)
  | _ => none

def pairs? (s : String) : Option (List (Nat × Nat)) :=
  if s = "-" ∨ s = "" then some [] else (s.splitOn ",").mapM parsePair

def scored? (s : String) : Option (List Scored) :=
  (pairs? s).map (fun l => l.map (fun p => (p.1, BitVec.ofNat 32 p.2)))

partial def parseQ : List String → Option (Query × List String)
  | "T" :: toks :: r => (natList? toks).map (fun t => (.term t, r))
  | "A" :: n :: r => do let n ← n.toNat?; let (qs, r) ← parseQs n r; pure (.and qs, r)
  | "O" :: n :: r => do let n ← n.toNat?; let (qs, r) ← parseQs n r; pure (.or qs, r)
  | "N" :: r => do let (q, r) ← parseQ r; pure (.not q, r)
  | _ => none
where
  parseQs : Nat → List String → Option (List Query × List String)
    | 0, r => some ([], r)
    | n + 1, r => do let (q, r) ← parseQ r; let (qs, r) ← parseQs n r; pure (q :: qs, r)

def sortNats (xs : List Nat) : List Nat := xs.mergeSort (fun a b => decide (a ≤ b))

def showPairs (xs : List (Nat × Nat)) : String :=
  if xs.isEmpty then "-" else ",".intercalate (xs.map (fun p => s!"{p.1}:{p.2}"))

def sortPairs (xs : List (Nat × Nat)) : List (Nat × Nat) := xs.mergeSort (fun a b => decide (a.1 ≤ b.1))

structure St where
  ix : Index
  D : Durable
  ws : List Write
  cc : Bm25Conc.Cfg
  /-- ghost state of the history so far (`Bm25.gstep`), valid until the index is replaced by a loaded one -/
  g : Ghost
  gvalid : Bool
  cover : Bool

def St.init : St :=
  { ix := Index.empty, D := Durable.empty, ws := [], cc := { sh := Bm25Conc.Shared.init false, threads := [] },
    g := Ghost.init, gvalid := true, cover := true }

/-- the ghost follows every mutation line -/
def ghostStep (st : St) (line : String) : St :=
  match words line with
  | ["ins", id, tf] =>
      match id.toNat?, pairs? tf with
      | some id, some tf => { st with g := gstep st.g (.insert id tf) }
      | _, _ => st
  | ["rem", id, tf] =>
      match id.toNat?, pairs? tf with
      | some id, some tf => { st with cover := st.cover && removeCovers st.g id tf, g := gstep st.g (.remove id tf) }
      | _, _ => st
  | ["purge", ids] =>
      match natList? ids with
      | some ids => { st with g := gstep st.g (.purge ids) }
      | none => st
  | _ => st

def parsePosting (s : String) : Option (Nat × Entries) :=
  match s.splitOn "=" with
  | [t, es] => do
      let t ← t.toNat?
      let es ← (es.splitOn "+").mapM parsePair
      pure (t, es)
  | _ => none

def payload? (p d : String) : Option Payload := do
  let ps ← if p = "-" then some [] else (p.splitOn ",").mapM parsePosting
  let ds ← pairs? d
  pure { postings := ps, docs := ds }

def meta? (v mb man : String) : Option Meta := do
  let v ← v.toNat?
  let mb ← mb.toNat?
  let man ← pairs? man
  pure { version := v, maxBucket := mb, manifest := man }

def showVisible (s : Index) : String :=
  let v := (visible s).mergeSort (fun a b => decide (a.1 ≤ b.1))
  if v.isEmpty then "-" else
    ",".intercalate (v.map (fun p => s!"{p.1}={"+".intercalate ((sortNats p.2).map toString)}"))

def showLoaded (s : Index) : String :=
  s!"n={s.len} total={s.totalTokens} docs={showPairs (sortPairs s.docTokens)} terms={showVisible s}"

def stepIx (s : Index) (line : String) : Index × String :=
  match words line with
  | ["reset"] => (Index.empty, "ok")
  | ["ins", id, tf] =>
      match id.toNat?, pairs? tf with
      | some id, some tf =>
          match insert s id tf with
          | .ok s' => (s', "ok")
          | .error .tokenize => (s, "err:tokenize")
          | .error .exists => (s, "err:exists")
          | .error .notLimit => (s, "err:notlimit")
      | _, _ => (s, "bad-op")
  | ["rem", id, tf] =>
      match id.toNat?, pairs? tf with
      | some id, some tf => let (s', b) := remove s id tf; (s', if b then "true" else "false")
      | _, _ => (s, "bad-op")
  | ["purge", ids] =>
      match natList? ids with
      | some ids => let (s', n) := purgeIds s ids; (s', toString n)
      | none => (s, "bad-op")
  | ["st"] => (s, s!"n={s.len} total={s.totalTokens} docs={showPairs (sortPairs s.docTokens)}")
  | "q" :: sc :: rest =>
      match scored? sc, parseQ rest with
      | some sc, some (q, []) =>
          match searchAdvanced s q with
          | .ok ids => (s, s!"ok set={showNats (sortNats ids)} rank={showNats ((sortScored sc).map (·.1))}")
          | .error _ => (s, "err:notlimit")
      | _, _ => (s, "bad-op")
  | ["topk", k, sc] =>
      match k.toNat?, scored? sc with
      | some k, some sc => (s, showNats ((topK sc k).map (·.1)))
      | _, _ => (s, "bad-op")
  | ["si", toks] =>
      match natList? toks with
      | some toks =>
          let (n, total, infos) := scoreInputs s toks
          let dup := toks.any (fun t => match Bm25.get? s.postings t with | some es => hasDupEntries es | none => false)
          let showInfo (p : Nat × List (Nat × Nat × Nat)) : String :=
            s!"{p.1}:{"+".intercalate (p.2.map (fun x => s!"{x.1}/{x.2.1}/{x.2.2}"))}"
          (s, s!"N={n} total={total} dup={dup} |{" |".intercalate (infos.map (fun p => " " ++ showInfo p))}")
      | none => (s, "bad-op")
  | ["cmp", a, b] =>
      match scored? a, scored? b with
      | some [a], some [b] =>
          (s, match cmpScored a b with | .lt => "lt" | .eq => "eq" | .gt => "gt")
      | _, _ => (s, "bad-op")
  | _ => (s, "bad-op")

def kind? : List String → Option Bm25Conc.Kind
  | ["ins", id, tf] => do let id ← id.toNat?; let tf ← pairs? tf; pure (.insert id tf)
  | ["rem", id, tf] => do let id ← id.toNat?; let tf ← pairs? tf; pure (.remove id tf)
  | ["purge", ids] => do let ids ← natList? ids; pure (.purge ids)
  | ["compact"] => some .compact
  | _ => none

def showRes : Bm25Conc.Res → String
  | .pending => "pending"
  | .ok => "ok"
  | .errTokenize => "err:tokenize"
  | .errExists => "err:exists"
  | .bool b => if b then "true" else "false"
  | .count n => toString n
  | .compacted => "compacted"

/-- runs thread `t` alone until it finishes (at most `fuel` actions) -/
def runAlone (t : Nat) : Nat → Bm25Conc.Cfg → Bm25Conc.Cfg
  | 0, c => c
  | fuel + 1, c =>
    match Bm25Conc.step t c with
    | some c' => runAlone t fuel c'
    | none => c

def showTokSet (ts : List Nat) : String :=
  if ts.isEmpty then "e" else "+".intercalate ((sortNats ts).map toString)

def showConc (s : Bm25Conc.Shared) : String :=
  let ix := s.toIndex
  let dirty := (s.buckets.filter (fun p => p.2.dirty)).map (fun p => showTokSet (Bm25Conc.ownedTokens s p.1 p.2))
  let dirty := dirty.mergeSort (fun a b => decide (a ≤ b))
  let lost := (s.postings.filter (fun p =>
      match Bm25.get? s.buckets p.2.bucket with
      | some bk => !bk.tokens.contains p.1
      | none => true)).map (·.1)
  s!"n={ix.len} total={ix.totalTokens} docs={showPairs (sortPairs ix.docTokens)} terms={showVisible ix} dirty={if dirty.isEmpty then "-" else ",".intercalate dirty} lost={showNats (sortNats lost)} gate={s.readers}/{s.writer}"

def step (st : St) (line : String) : St × String :=
  match words line with
  | ["reset"] => (St.init, "ok")
  | ["cinit", m] => ({ st with cc := { sh := Bm25Conc.Shared.init (m == "zero"), threads := [] } }, "ok")
  | "cseq" :: op =>
      match kind? op with
      | some k =>
          let c0 : Bm25Conc.Cfg := { sh := st.cc.sh, threads := [Bm25Conc.Thread.new k] }
          let c1 := runAlone 0 10000 c0
          match c1.threads with
          | [th] => ({ st with cc := { sh := c1.sh, threads := [] } }, if th.finished then showRes th.res else "stuck")
          | _ => (st, "bad-op")
      | none => (st, "bad-op")
  | "cthr" :: op =>
      match kind? op with
      | some k => ({ st with cc := { st.cc with threads := st.cc.threads ++ [Bm25Conc.Thread.new k] } }, "ok")
      | none => (st, "bad-op")
  | ["crun", sched] =>
      match natList? sched with
      | some sc =>
          let rec go (k : Nat) (sc : List Nat) (c : Bm25Conc.Cfg) : Bm25Conc.Cfg × Option Nat :=
            match sc with
            | [] => (c, none)
            | t :: r =>
              match Bm25Conc.step t c with
              | some c' => go (k + 1) r c'
              | none => (c, some k)
          match go 0 sc st.cc with
          | (c, some k) => ({ st with cc := c }, s!"disabled@{k}")
          | (c, none) =>
              let out := ";".intercalate (c.threads.map (fun th => showRes th.res))
              ({ st with cc := { sh := c.sh, threads := [] } }, s!"res={out} quiescent={Bm25Conc.quiescent c}")
      | none => (st, "bad-op")
  | ["cstate"] => (st, showConc st.cc.sh)
  | ["cflushed"] =>
      ({ st with cc := { st.cc with sh := { st.cc.sh with buckets := st.cc.sh.buckets.map (fun p => (p.1, { p.2 with dirty := false })) } } }, "ok")
  | ["csync"] => ({ st with ix := st.cc.sh.toIndex }, "ok")
  | ["dreset"] => ({ st with D := Durable.empty }, "ok")
  | ["dobj", b, g, p, d] =>
      match b.toNat?, g.toNat?, payload? p d with
      | some b, some g, some pl => ({ st with D := st.D.apply (.putObj (b, g) pl) }, "ok")
      | _, _, _ => (st, "bad-op")
  | ["dmeta", v, mb, man] =>
      match meta? v mb man with
      | some m => ({ st with D := st.D.apply (.putMeta m) }, "ok")
      | none => (st, "bad-op")
  | ["wreset"] => ({ st with ws := [] }, "ok")
  | ["wobj", b, g, p, d] =>
      match b.toNat?, g.toNat?, payload? p d with
      | some b, some g, some pl => ({ st with ws := st.ws ++ [.putObj (b, g) pl] }, "ok")
      | _, _, _ => (st, "bad-op")
  | ["wmeta", v, mb, man] =>
      match meta? v mb man with
      | some m => ({ st with ws := st.ws ++ [.putMeta m] }, "ok")
      | none => (st, "bad-op")
  | ["wdel", b, g] =>
      match b.toNat?, g.toNat? with
      | some b, some g => ({ st with ws := st.ws ++ [.delObj (b, g)] }, "ok")
      | _, _ => (st, "bad-op")
  | ["loadprefix", k] =>
      match k.toNat? with
      | some k => (st, showLoaded (load (applyAll st.D (st.ws.take k))))
      | none => (st, "bad-op")
  | ["flushcheck"] =>
      let puts := st.ws.filter (fun w => match w with | .putObj _ _ => true | _ => false)
      let nonDel := st.ws.filter (fun w => match w with | .delObj _ => false | _ => true)
      let arranged := match metaOf st.ws with
        | some m => decide ((arrange Gen.Bm25Order.flushOrder puts m).length = nonDel.length)
            && (putBuckets (arrange Gen.Bm25Order.flushOrder puts m) == putBuckets nonDel)
            && (commitLen (arrange Gen.Bm25Order.flushOrder puts m) == commitLen st.ws)
        | none => st.ws.isEmpty
      -- the statement of `load_prefix_bm25`, evaluated on the observed writes
      let lawOk := (List.range (st.ws.length + 1)).all (fun k =>
        let l := load (applyAll st.D (st.ws.take k))
        let r := if k < commitLen st.ws then load st.D else load (applyAll st.D st.ws)
        l == r)
      if !(flushShape st.D st.ws && flushStrict st.D st.ws) then (st, "shape-violation")
      else if !arranged then (st, "shape-violation:arrange")
      else if !lawOk then (st, "prefix-law-violation")
      else
        let l := load (applyAll st.D st.ws)
        let a := s!"docs={showPairs (sortPairs l.docTokens)} terms={showVisible l}"
        let b := s!"docs={showPairs (sortPairs st.ix.docTokens)} terms={showVisible st.ix}"
        if a = b then (st, "ok") else (st, s!"snapshot-mismatch loaded[{a}] memory[{b}]")
  | ["adopt"] =>
      let l := load st.D
      ({ st with ix := l, gvalid := false }, showLoaded l)
  | ["gq", toks] =>
      match natList? toks with
      | some toks => (st, if st.gvalid then showNats (sortNats (ghostTermIds st.g st.ix.docIds toks)) else "n/a")
      | none => (st, "bad-op")
  | ["gflags", toks] =>
      match natList? toks with
      | some toks =>
          (st, if st.gvalid then s!"cover={st.cover} vstale={ghostVisibleStale st.g st.ix.docIds toks}" else "n/a")
      | none => (st, "bad-op")
  | "dq" :: rest =>
      match parseQ rest with
      | some (q, []) => (st, showNats (sortNats (st.ix.docIds.filter (fun i => denote st.ix q i))))
      | _ => (st, "bad-op")
  | _ =>
      let (ix, out) := stepIx st.ix line
      let st' := ghostStep st line
      ({ st' with ix := ix }, out)

end AndaVerif.DrvC11

def main : IO Unit := lineLoop AndaVerif.DrvC11.St.init AndaVerif.DrvC11.step
