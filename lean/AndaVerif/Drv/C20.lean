import AndaVerif.Model.Belief
import AndaVerif.Model.BeliefTime
import AndaVerif.Drv.Util
/-
Driver of the C20 model (belief projection). One request line in, one response line out.

  reset
  policy <b|f> <custom 0|1> <version> <den> <accept> <material> <unstated> <expand 0|1> <modes>
  settings <k> <name -|b|f|u|x> <accept -|x|int> <material -|x|int> <modes -|e|letters>
        Policy::from_settings at resolution 10*k; answers `ok <policy line>` or `err:<kind>`
  now <t>
  slot <functional 0|1> <p,p,…|->       the active Propositions of the target's slot, in id order
  a <prop> <actor|-> <ev,ev…|-> <s|r|u> <conf> <mode> <status a|r|s|e|x> <visible 0|1> <from|-> <until|->
        one stored Assertion; its id is its ordinal (0,1,2…) in the case
  raise <ordinal> <conf>                 rewrite the stored confidence of one Assertion
  status <ordinal> <a|r|s|e|x>           rewrite its lifecycle status (RETRACT / SUPERSEDE / expiry)
  retract <ordinal> <t|->                RETRACT ASSERTION at instant t (the model ignores t: no clock in the lifecycle stage)
  supersede <old> <new> <t|->            SUPERSEDE ASSERTION old BY new at instant t (same)
  spell <k>                              harness-side: how the KML route spells the evaluation instant in FOR TIME; `ok`
  norm <text>                            `time::normalize`: `ok <milliseconds since the epoch>` or `err`
  route <name>                           harness-side marker (which route the real code is driven by); `ok`
  project <target>
  slotproject                            every Proposition of the slot, `|`-separated, then `slot accepted=<props> contested=<0|1>`

modes: letters o(bserved) s(tated) i(nferred) p(redicted) h(ypothetical) m (imported), `-`/`e` = empty list;
in `settings` a `?` letter is a value that is not a mode. A row's mode `?` = unparsable.
Confidences and thresholds are numerators over the resolution `den` in force (`policy … <den> …`, or
`10*k` after `settings k …`); the resolution must not change once an Assertion has been recorded.
-/
open AndaVerif.Belief AndaVerif.Drv

namespace AndaVerif.DrvC20

structure St where
  pol : Policy := Policy.baseline
  now : Nat := 0
  functional : Bool := false
  slot : List Nat := []
  rows : List Row := []

def modeOfChar : Char → Option Mode
  | 'o' => some .observed
  | 's' => some .stated
  | 'i' => some .inferred
  | 'p' => some .predicted
  | 'h' => some .hypothetical
  | 'm' => some .imported
  | _ => none

def charOfMode : Mode → Char
  | .observed => 'o' | .stated => 's' | .inferred => 'i' | .predicted => 'p'
  | .hypothetical => 'h' | .imported => 'm'

def parseModesStrict (s : String) : Option (List Mode) :=
  if s = "-" ∨ s = "e" then some [] else s.toList.mapM modeOfChar

def parseBool : String → Option Bool
  | "0" => some false
  | "1" => some true
  | _ => none

def parseOptNat (s : String) : Option (Option Nat) :=
  if s = "-" then some none else s.toNat?.map some

def showVerdict : Verdict → String
  | .accepted => "accepted" | .rejected => "rejected" | .contested => "contested"
  | .uncertain => "uncertain" | .insufficient => "insufficient"

def showReason : Reason → String
  | .retracted => "retracted" | .superseded => "superseded" | .expired => "expired"
  | .invalidSchema => "invalid_schema" | .notVisible => "not_visible"
  | .outsideValidTime => "outside_valid_time"
  | .hypotheticalNotRequested => "hypothetical_not_requested"
  | .predictionNotRequested => "prediction_not_requested"
  | .policyExcluded => "policy_excluded"

def showPolicyId (p : PolicyId) : String :=
  (match p.base with | .baseline => "kip:policy:baseline" | .forecast => "kip:policy:forecast")
    ++ (if p.custom then "+custom" else "")

def showFrac (f : Frac) : String := toString f.num ++ "/" ++ toString f.den

def showExcluded (xs : List (Nat × Reason)) : String :=
  if xs.isEmpty then "-" else ";".intercalate (xs.map (fun x => toString x.1 ++ ":" ++ showReason x.2))

def showAnswer : Option Answer → String
  | none => "panic"
  | some a =>
    s!"st={showVerdict a.status} sup={showFrac a.support} sg={a.supportGroups} opp={showFrac a.opposition} og={a.oppositionGroups} S={showNats a.ledger.supporting} O={showNats a.ledger.opposing} U={showNats a.ledger.uncertain} X={showExcluded a.ledger.excluded} pol={showPolicyId a.policyId}@{a.policyVersion} at={a.validAt}"

def showPolicy (p : Policy) : String :=
  let modes := if p.modes.isEmpty then "-" else String.ofList (p.modes.map charOfMode)
  s!"{showPolicyId p.id}@{p.version} den={p.den} accept={p.accept} material={p.material} unstated={p.unstated} expand={if p.expand then 1 else 0} modes={modes}"

def parseThreshold (s : String) : Option ThresholdSetting :=
  if s = "-" then some .absent
  else if s = "x" then some .notANumber
  else s.toInt?.map .num

def parseName : String → Option PolicyName
  | "-" => some .absent
  | "b" => some .baseline
  | "f" => some .forecast
  | "u" => some .unknown
  | "x" => some .notAString
  | _ => none

def parseSettingModes (s : String) : Option (List (Option Mode)) :=
  if s = "-" then none
  else if s = "e" then some []
  else some (s.toList.map modeOfChar)

def showPolicyErr : PolicyErr → String
  | .unavailable => "err:unavailable"
  | .typeMismatch => "err:type"
  | .invalidSyntax => "err:invalid"

def step (st : St) (line : String) : St × String :=
  match words line with
  | ["reset"] => ({}, "ok")
  | ["policy", base, custom, ver, den, acc, mat, uns, exp, modes] =>
    match (if base = "b" then some PolicyBase.baseline else if base = "f" then some PolicyBase.forecast else none),
          parseBool custom, ver.toNat?, den.toNat?, acc.toInt?, mat.toInt?, uns.toInt?, parseBool exp,
          parseModesStrict modes with
    | some b, some c, some v, some d, some a, some m, some u, some e, some ms =>
      if d = 0 then (st, "bad-op")
      else ({ st with pol := { id := ⟨b, c⟩, version := v, modes := ms, den := d, accept := a,
                               material := m, unstated := u, expand := e } }, "ok")
    | _, _, _, _, _, _, _, _, _ => (st, "bad-op")
  | ["settings", k, name, acc, mat, modes] =>
    match k.toNat?, parseName name, parseThreshold acc, parseThreshold mat with
    | some k, some n, some a, some m =>
      if k = 0 then (st, "bad-op")
      else
        match Policy.fromSettings k { policy := n, accept := a, material := m, modes := parseSettingModes modes } with
        | .ok p => ({ st with pol := p }, "ok " ++ showPolicy p)
        | .error e => (st, showPolicyErr e)
    | _, _, _, _ => (st, "bad-op")
  | ["now", t] =>
    match t.toNat? with
    | some t => ({ st with now := t }, "ok")
    | none => (st, "bad-op")
  | ["slot", f, ps] =>
    match parseBool f, natList? ps with
    | some f, some ps => ({ st with functional := f, slot := ps }, "ok")
    | _, _ => (st, "bad-op")
  | ["a", prop, actor, evs, stance, conf, mode, status, visible, vfrom, vuntil] =>
    let stance? : Option Stance := match stance with
      | "s" => some .support | "r" => some .reject | "u" => some .uncertain | _ => none
    let status? : Option Status := match status with
      | "a" => some .active | "r" => some .retracted | "s" => some .superseded
      | "e" => some .expired | "x" => some .other | _ => none
    let mode? : Option (Option Mode) :=
      if mode = "?" then some none
      else match mode.toList with
        | [c] => (modeOfChar c).map some
        | _ => none
    match prop.toNat?, parseOptNat actor, natList? evs, stance?, conf.toInt?, mode?, status?,
          parseBool visible, parseOptNat vfrom, parseOptNat vuntil with
    | some p, some a, some es, some sc, some c, some m, some su, some v, some f, some u =>
      let row : Row := { id := st.rows.length, prop := p, actor := a, evidence := es, stance := sc,
                         conf := c, mode := m, status := su, visible := v, validFrom := f, validUntil := u }
      ({ st with rows := st.rows ++ [row] }, "ok")
    | _, _, _, _, _, _, _, _, _, _ => (st, "bad-op")
  | ["route", _] => (st, "ok")
  | ["spell", _] => (st, "ok")
  | ["norm", text] =>
    match AndaVerif.BeliefTime.parseInstant text with
    | some ms => (st, s!"ok {ms}")
    | none => (st, "err")
  | ["raise", i, c] =>
    match i.toNat?, c.toInt? with
    | some i, some c =>
      ({ st with rows := st.rows.map (fun r => if r.id = i then { r with conf := c } else r) }, "ok")
    | _, _ => (st, "bad-op")
  | ["status", i, s] =>
    let status? : Option Status := match s with
      | "a" => some .active | "r" => some .retracted | "s" => some .superseded
      | "e" => some .expired | "x" => some .other | _ => none
    match i.toNat?, status? with
    | some i, some su =>
      ({ st with rows := st.rows.map (fun r => if r.id = i then { r with status := su } else r) }, "ok")
    | _, _ => (st, "bad-op")
  | ["retract", i, _t] =>
    -- the instant of the retraction is not an input of the model: lifecycle exclusion has no clock
    match i.toNat? with
    | some i =>
      ({ st with rows := st.rows.map (fun r => if r.id = i then { r with status := .retracted } else r) }, "ok")
    | none => (st, "bad-op")
  | ["supersede", i, j, _t] =>
    match i.toNat?, j.toNat? with
    | some i, some j =>
      if j < st.rows.length ∧ i ≠ j then
        ({ st with rows := st.rows.map (fun r => if r.id = i then { r with status := .superseded } else r) }, "ok")
      else (st, "ok")
    | _, _ => (st, "bad-op")
  | ["project", target] =>
    match target.toNat? with
    | some t => (st, showAnswer (project st.pol st.now st.rows st.functional st.slot t))
    | none => (st, "bad-op")
  | ["slotproject"] =>
    let rs := projectSlot st.pol st.now st.rows st.functional st.slot
    let sum := slotSummary rs
    (st, if rs.isEmpty then "-" else " | ".intercalate (rs.map (fun r => s!"p={r.1} " ++ showAnswer r.2))
      ++ s!" | slot accepted={showNats sum.accepted} contested={if sum.contested then 1 else 0}")
  | _ => (st, "bad-op")

end AndaVerif.DrvC20

def main : IO Unit := AndaVerif.Drv.lineLoop ({} : AndaVerif.DrvC20.St) AndaVerif.DrvC20.step
