/-
Line-protocol plumbing shared by the model drivers (`drv_cXX`).
One request line in, one response line out, flushed after every line so that the Rust harness can
talk to the driver interactively (generation, comparison and shrinking happen on the harness side).
No Mathlib / Batteries imports here or in any `Model/` file: the drivers are linked as `lean_exe`.
-/
namespace AndaVerif.Drv

/-- Runs `step` over stdin lines until EOF. -/
partial def lineLoop {σ : Type} (init : σ) (step : σ → String → σ × String) : IO Unit := do
  let stdin ← IO.getStdin
  let stdout ← IO.getStdout
  let rec loop (s : σ) : IO Unit := do
    let line ← stdin.getLine
    if line.isEmpty then return ()
    let (s', out) := step s line.trimAscii.toString
    stdout.putStrLn out
    stdout.flush
    loop s'
  loop init

/-- Space-separated tokens, empty tokens dropped. -/
def words (s : String) : List String :=
  (s.splitOn " ").filter (· ≠ "")

/-- `"1,2,3"` → `[1,2,3]`; `"-"` or `""` → `[]`; `none` on a malformed element. -/
def natList? (s : String) : Option (List Nat) :=
  if s = "-" ∨ s = "" then some [] else (s.splitOn ",").mapM String.toNat?

def intList? (s : String) : Option (List Int) :=
  if s = "-" ∨ s = "" then some [] else (s.splitOn ",").mapM String.toInt?

def showNats (xs : List Nat) : String :=
  if xs.isEmpty then "-" else ",".intercalate (xs.map toString)

def showInts (xs : List Int) : String :=
  if xs.isEmpty then "-" else ",".intercalate (xs.map toString)

end AndaVerif.Drv
