import AndaVerif.Model.Tx
import AndaVerif.Drv.Util
/-
Shared line-protocol driver of the transaction / history model (C17, C18). Lines:

  reset
  stmt <dry 0|1> <time> <clause> <clause> …      one KML statement → its outcome
  activate                                       a (non-first) schema activation → `ok <seq> <environment version>`
  envat <seq>                                    the environment version in force at the coordinate
  stage                                          where the last statement ended (diagnostic)
  dump                                           the whole store in canonical text
  asof <seq> | asofv <seq>                       every element as `element_at` reconstructs it at the coordinate (full / id,version,state)
  seqoftx <seq> | seqattime <t>                  AS OF TX / AS OF TIME resolution

clause tokens (`:`-separated, `-` = absent; id = kind letter + number, e.g. `C3`; ref = `h<n>` | id):
  cc:<h>:<ty>:<key>:<val>:<bad>                  CREATE CONCEPT
  up:<h>:<ty|->:<key>:<val|->:<expect|->         UPSERT CONCEPT
  en:<h|->:<ref>:<p>:<ref>:<expect|->:<bad>      ENSURE PROPOSITION
  cr:<A|E|X>:<h>:<pay>:<ref,ref,…|->:<bad>       CREATE ASSERTION / EVIDENCE / ACTIVITY
  ud:<ref>:<act,act,…>:<expect|->:<bad>          UPDATE; act = n<v> SET FIELDS name | a<v> SET ATTRIBUTES | ua UNSET ATTRIBUTES |
                                                 f<v> SET FACET | uf UNSET FACET (a bare number is n<v>)
  ss:<ref>:<r|t>:<a|r|t|->                       ARCHIVE (r) / TOMBSTONE (t) [EXPECT STATE]
  pg:<ref>:<bad>                                 PURGE … CONFIRM "PURGE"  (bad: refused while staged — still referenced)
  rt:<ref>:<0|1|->                               RETRACT ASSERTION [EXPECT STATE active (0) / retracted (1)]
  su:<ref>:<ref>:<status|->                      SUPERSEDE ASSERTION old BY new [EXPECT STATE]
  co:<ref>:<ref>                                 CORRECT EVIDENCE old BY new
  tr:<ref>:<status>:<status|->                   TRANSITION ACTIVITY target TO status [EXPECT STATE]
  sr:<ref>:<v>:<expect|->                        SET RETENTION target {retention_class: "r<v>"} [EXPECT VERSION]
  mg:<ref>:<ref>:<expect|->                      MERGE CONCEPT source INTO target [EXPECT VERSION]
status codes: 0 as created (active / an Activity's pending), 1 retracted, 2 empty (identity stub), 3 superseded,
4 corrected, 5 running, 6 completed, 7 failed
an element is printed as id/version/state/ty/key/val.att.fac.ret.links/pay/tuple/seq (links `_`-separated, `0` = none)
-/
open AndaVerif.Tx AndaVerif.Drv

namespace AndaVerif.DrvTx

def kindOfChar : Char → Option Kind
  | 'A' => some .assertion | 'C' => some .concept | 'E' => some .evidence
  | 'P' => some .proposition | 'X' => some .activity | _ => none

def kindChar : Kind → String
  | .assertion => "A" | .concept => "C" | .evidence => "E" | .proposition => "P" | .activity => "X"

def parseId (s : String) : Option Id :=
  match s.toList with
  | c :: rest => do
      let k ← kindOfChar c
      let n ← (String.ofList rest).toNat?
      pure ⟨k, n⟩
  | [] => none

def parseRef (s : String) : Option Ref :=
  match s.toList with
  | 'h' :: rest => (String.ofList rest).toNat?.map Ref.h
  | _ => (parseId s).map Ref.id

def parseOptNat (s : String) : Option (Option Nat) :=
  if s = "-" then some none else s.toNat?.map some

def parseBool (s : String) : Option Bool :=
  if s = "1" then some true else if s = "0" then some false else none

def parseSt (s : String) : Option St :=
  match s with
  | "a" => some .active | "r" => some .archived | "t" => some .tombstoned | "p" => some .pending
  | "x" => some .purged | "m" => some .merged | _ => none

def parseRefs (s : String) : Option (List Ref) :=
  if s = "-" ∨ s = "" then some [] else (s.splitOn ",").mapM parseRef

/-- `n3` set name, `a3` set attribute, `ua` unset attribute, `f3` set facet member, `uf` unset it; a
bare number is `n<number>` -/
def parseAct (s : String) : Option Act :=
  match s.toList with
  | ['u', 'a'] => some .unsetAttr
  | ['u', 'f'] => some .unsetFacet
  | 'n' :: r => (String.ofList r).toNat?.map Act.setName
  | 'a' :: r => (String.ofList r).toNat?.map Act.setAttr
  | 'f' :: r => (String.ofList r).toNat?.map Act.setFacet
  | _ => s.toNat?.map Act.setName

def parseActs (s : String) : Option (List Act) := (s.splitOn ",").mapM parseAct

def parseClause (tok : String) : Option Clause :=
  match tok.splitOn ":" with
  | ["cc", h, ty, key, val, bad] => do
      pure (.createConcept (← h.toNat?) (← ty.toNat?) (← key.toNat?) (← val.toNat?) (← parseBool bad))
  | ["up", h, ty, key, val, ex] => do
      pure (.upsert (← h.toNat?) (← parseOptNat ty) (← key.toNat?) (← parseOptNat val) (← parseOptNat ex))
  | ["en", h, s, p, o, ex, bad] => do
      pure (.ensure (← parseOptNat h) (← parseRef s) (← p.toNat?) (← parseRef o) (← parseOptNat ex) (← parseBool bad))
  | ["cr", k, h, pay, refs, bad] => do
      let kc ← k.toList.head?
      pure (.createRec (← kindOfChar kc) (← h.toNat?) (← pay.toNat?) (← parseRefs refs) (← parseBool bad))
  | ["ud", t, acts, ex, bad] => do
      pure (.update (← parseRef t) (← parseActs acts) (← parseOptNat ex) (← parseBool bad))
  | ["pg", t, bad] => do
      pure (.purge (← parseRef t) (← parseBool bad))
  | ["rt", t, ex] => do
      pure (.retract (← parseRef t) (← parseOptNat ex))
  | ["su", t, b, ex] => do
      pure (.supersede (← parseRef t) (← parseRef b) (← parseOptNat ex))
  | ["co", t, b] => do
      pure (.correct (← parseRef t) (← parseRef b))
  | ["tr", t, to, ex] => do
      pure (.transition (← parseRef t) (← to.toNat?) (← parseOptNat ex))
  | ["sr", t, v, ex] => do
      pure (.setRetention (← parseRef t) (← v.toNat?) (← parseOptNat ex))
  | ["mg", a, b, ex] => do
      pure (.merge (← parseRef a) (← parseRef b) (← parseOptNat ex))
  | ["ss", t, to, ex] => do
      let ex ← if ex = "-" then some none else (parseSt ex).map some
      pure (.setState (← parseRef t) (← parseSt to) ex)
  | _ => none

def showId (i : Id) : String := kindChar i.kind ++ toString i.n

def showSt : St → String
  | .pending => "pending" | .active => "active" | .archived => "archived" | .tombstoned => "tombstoned"
  | .purged => "purged" | .merged => "merged"

def showOp : Op → String
  | .create => "create" | .update => "update" | .archive => "archive" | .tombstone => "tombstone" | .retract => "retract" | .purge => "purge"
  | .supersede => "supersede" | .correct => "correct" | .transition => "transition" | .setRetention => "set_retention" | .merge => "merge"

def showErr : Err → String
  | .dupHandle => "invalid" | .invalid => "invalid" | .unknownHandle => "invalid" | .notFound => "notfound"
  | .versionConflict => "version" | .precond => "precond" | .identityConflict => "identity" | .unique => "identity"

def showChange (c : Change) : String := s!"{showId c.id}.{showOp c.op}.{c.version}"

def showChanges (cs : List Change) : String :=
  if cs.isEmpty then "-" else "+".intercalate (cs.map showChange)

def showStatus : JStatus → String
  | .committed => "committed" | .noEffect => "no_effect"

def showOutcome : Outcome → String
  | .refusedPlan e => s!"refused {showErr e}"
  | .refusedCheck e => s!"refused {showErr e}"
  | .refusedWrite e _ => s!"refused {showErr e}"
  | .dryRun cs => s!"dry {showChanges cs}"
  | .done seq st cs => s!"done {seq} {showStatus st} {showChanges cs}"

def showStage : Outcome → String
  | .refusedPlan _ => "plan" | .refusedCheck _ => "check" | .refusedWrite _ w => s!"write {showChanges w}"
  | .dryRun _ => "dry" | .done .. => "done"

def showTup : Option (Id × Nat × Id) → String
  | none => "-"
  | some (a, p, b) => s!"{showId a}>{p}>{showId b}"

def showLinks (l : List Nat) : String := if l.isEmpty then "0" else "_".intercalate (l.map toString)

def showElem (i : Id) (e : Elem) : String :=
  s!"{showId i}/{e.version}/{showSt e.state}/{e.row.ty}/{e.row.key}/{e.row.val}.{e.row.att}.{e.row.fac}.{e.row.ret}.{showLinks e.row.links}/{e.row.pay}/{showTup e.row.tup}/{e.seq}"

def allIds (s : Store) : List Id := Kind.all.flatMap (idsOf s)

def join (sep : String) (xs : List String) : String := if xs.isEmpty then "-" else sep.intercalate xs

def dump (s : Store) : String :=
  let elems := (allIds s).filterMap (fun i => (s.elems i).map (showElem i))
  let journal := s.journal.reverse.map (fun e => s!"{e.seq}/{showStatus e.status}/{showChanges e.changes}")
  let vlog := s.vlog.reverse.map (fun v => s!"{showId v.id}/{v.version}/{v.seq}/{showOp v.op}")
  let next := ",".intercalate (Kind.all.map (fun k => toString (s.next k)))
  s!"seq={s.seq} env={s.envVersion} next={next} elems={join ";" elems} journal={join ";" journal} vlog={join ";" vlog}"

def asOf (s : Store) (c : Nat) : String :=
  join ";" ((allIds s).filterMap (fun i => (elementAt s.vlog i c).map (fun v => showElem i v.elem)))

/-- what an `AS OF SEQ c` answer carries of every element: id, version, state (tuple patterns read
active Propositions only) -/
def asOfV (s : Store) (c : Nat) : String :=
  join ";" ((allIds s).filterMap (fun i =>
    match elementAt s.vlog i c with
    | some v =>
        if i.kind = .proposition ∧ v.elem.state ≠ .active then none
        else some s!"{showId i}/{v.version}/{showSt v.elem.state}"
    | none => none))

structure DS where
  s : Store
  last : Option Outcome

def step (d : DS) (line : String) : DS × String :=
  match words line with
  | ["reset"] => ({ s := Store.init, last := none }, "ok")
  | "stmt" :: dry :: time :: toks =>
      match parseBool dry, time.toNat?, toks.mapM parseClause with
      | some dry, some time, some cs =>
          let r := exec d.s { dry := dry, clauses := cs, time := time }
          ({ s := r.1, last := some r.2 }, showOutcome r.2)
      | _, _, _ => (d, "bad-op")
  | ["activate"] => ({ s := activate d.s, last := none }, s!"ok {d.s.seq + 1} {d.s.envVersion + 1}")
  | ["envat", c] =>
      match c.toNat? with
      | some c => (d, toString (schemaVersionAt d.s.envs c))
      | none => (d, "bad-op")
  | ["stage"] => (d, match d.last with | some o => showStage o | none => "-")
  | ["dump"] => (d, dump d.s)
  | ["asof", c] =>
      match c.toNat? with
      | some c => (d, asOf d.s c)
      | none => (d, "bad-op")
  | ["asofv", c] =>
      match c.toNat? with
      | some c => (d, asOfV d.s c)
      | none => (d, "bad-op")
  | ["seqoftx", t] =>
      match t.toNat? with
      | some t => (d, match seqOfTx d.s.journal t with | some q => toString q | none => "unknown")
      | none => (d, "bad-op")
  | ["seqattime", t] =>
      match t.toNat? with
      | some t => (d, toString (seqAtTime d.s.journal t))
      | none => (d, "bad-op")
  | ["purge", i] =>
      match parseId i with
      | some i => ({ d with s := { d.s with vlog := purgeVersions d.s.vlog i } }, "ok")
      | none => (d, "bad-op")
  | _ => (d, "bad-op")

def main : IO Unit := lineLoop ({ s := Store.init, last := none } : DS) step

end AndaVerif.DrvTx
