import AndaVerif.Model.KipLex
import AndaVerif.Model.KipJson
import AndaVerif.Drv.Util
/-
Driver of the C15 model (budget pre-scan and head-keyword classification). One request per line:

  k <hex> <alnum>     hex   = the input's UTF-8 bytes in lowercase hex, `-` for the empty input
                      alnum = comma-separated decimal code points of the non-ASCII characters of the
                              input that `char::is_alphanumeric` accepts (std's Unicode table is a
                              parameter of the model), `-` for none
      -> `<budget> <family>`   budget ∈ ok | too_long | too_deep      (validate_parser_budget)
                               family ∈ kql | kml | meta | none       (head keyword after trivia)
  x <hex>             -> the reference lexer's class of every character, one letter each
                         (`c` code, `s` string, `m` comment), `-` for the empty input
  w <hex1> <hex2> <hex> <alnum>
                      -> `yes` / `no`: does `words(&[w1, w2])` match at the start of the input
                         (w1, w2, input in hex)
  j <hex>             -> the model of `parse_json` on the input: `ok <depth> <canonical value>` | `too_long` |
                         `too_deep` | `err` | `oof` (model fuel exhausted: never expected).
                         canonical value: n | t | f | i<decimal> | F | s<hex utf-8> | [v,…] | {s<hex>:v,…}
                         with object members sorted by key (code point order)
  d <hex>             -> `<max net depth> <strictReads: yes|no> <strictDepth>` of the bracket tokens of the
                         input (`codeBrackets`, `netDepth` over every prefix, `strictReads`, `strictDepth`):
                         the specification functions the budget theorems are stated with
  cov                 -> `name=count;…`: which branches of the model this driver process has executed so
                         far (branches of `step` per character, budget verdicts, families, JSON outcomes
                         and value kinds, `words` answers)
  limits              -> `<MAX_KIP_INPUT_LEN> <MAX_KIP_NESTING_DEPTH>` as generated from the source
  wsset               -> every code point the model's `isWhitespace` accepts (all of Unicode scanned)
  alnumset            -> every ASCII code point the model's `isAsciiAlnum` accepts

Malformed requests answer `err:bad-request` (never compared with the implementation).
-/
open AndaVerif.Model.KipLex AndaVerif.Model.KipJson AndaVerif.Drv

namespace AndaVerif.DrvC15

def hexVal (b : UInt8) : Option UInt8 :=
  if 48 ≤ b ∧ b ≤ 57 then some (b - 48)
  else if 97 ≤ b ∧ b ≤ 102 then some (b - 87)
  else if 65 ≤ b ∧ b ≤ 70 then some (b - 55)
  else none

def decodeHex (s : String) : Option ByteArray := Id.run do
  if s = "-" then return some ByteArray.empty
  let bytes := s.toUTF8
  if bytes.size % 2 ≠ 0 then return none
  let mut out := ByteArray.emptyWithCapacity (bytes.size / 2)
  let mut i := 0
  while i + 1 < bytes.size do
    match hexVal bytes[i]!, hexVal bytes[i + 1]! with
    | some h, some l => out := out.push (h * 16 + l)
    | _, _ => return none
    i := i + 2
  return some out

def decodeInput (s : String) : Option (List Char) := do
  let b ← decodeHex s
  let str ← String.fromUTF8? b
  pure str.toList

def showBudget : Except BudgetErr Unit → String
  | .ok () => "ok"
  | .error .tooLong => "too_long"
  | .error .tooDeep => "too_deep"

def showFamily : Option Family → String
  | some .kql => "kql"
  | some .kml => "kml"
  | some .metaC => "meta"
  | none => "none"

def showCls : Cls → Char
  | .code => 'c'
  | .str => 's'
  | .comment => 'm'

def hexOfString (str : String) : String :=
  let digits := "0123456789abcdef".toList.toArray
  let bytes := str.toUTF8
  String.ofList (bytes.toList.flatMap (fun b => [digits[(b.toNat / 16)]!, digits[(b.toNat % 16)]!]))

def ltKey : List Char → List Char → Bool
  | [], [] => false
  | [], _ :: _ => true
  | _ :: _, [] => false
  | a :: as, b :: bs => if a.toNat < b.toNat then true else if b.toNat < a.toNat then false else ltKey as bs

def insertSorted (x : List Char × String) : List (List Char × String) → List (List Char × String)
  | [] => [x]
  | y :: ys => if ltKey x.1 y.1 then x :: y :: ys else y :: insertSorted x ys

partial def showJson : Json → String
  | .null => "n"
  | .bool true => "t"
  | .bool false => "f"
  | .int v => "i" ++ toString v
  | .float => "F"
  | .str cs => "s" ++ hexOfString (String.ofList cs)
  | .arr items => "[" ++ ",".intercalate (items.map showJson) ++ "]"
  | .obj fields =>
    let rendered := fields.map (fun (k, v) => (k, "s" ++ hexOfString (String.ofList k) ++ ":" ++ showJson v))
    let sorted := rendered.foldl (fun acc x => insertSorted x acc) []
    "{" ++ ",".intercalate (sorted.map (·.2)) ++ "}"

partial def jsonKinds : Json → List String
  | .null => ["json:null"]
  | .bool _ => ["json:bool"]
  | .int v => [if v < 0 then "json:int-negative" else "json:int"]
  | .float => ["json:float"]
  | .str cs => [if cs.any (fun c => c.toNat ≥ 0x80) then "json:string-nonascii" else "json:string"]
  | .arr items => (if items.isEmpty then "json:array-empty" else "json:array") :: items.flatMap jsonKinds
  | .obj fields => (if fields.isEmpty then "json:object-empty" else "json:object") :: fields.flatMap (fun p => jsonKinds p.2)

/-- which branch of `step` a character takes (the driver's own bookkeeping for the coverage report) -/
def branchOf (st : BState) (ch : Char) : String :=
  if st.lex.inLineComment then (if ch == '\n' then "step:comment-ends" else "step:in-comment")
  else if st.lex.inString then
    if st.lex.escaped then "step:string-escaped-char"
    else if ch == '\\' then "step:string-backslash"
    else if ch == '"' then "step:string-closes"
    else "step:in-string"
  else if ch == '/' then (if st.lex.prevSlash then "step:comment-opens" else "step:slash-pending")
  else if ch == '"' then (if st.lex.prevSlash then "step:string-opens-after-slash" else "step:string-opens")
  else if isOpener ch then "step:opener"
  else
    match closerOf ch, st.stack with
    | some o, top :: _ => if top == o then "step:closer-pops" else "step:closer-mismatched"
    | some _, [] => "step:closer-on-empty-stack"
    | none, _ => (if st.lex.prevSlash then "step:plain-after-slash" else "step:plain")

abbrev Cov := List (String × Nat)

def bump (c : Cov) (k : String) (n : Nat := 1) : Cov :=
  match c with
  | [] => [(k, n)]
  | (k', m) :: rest => if k' == k then (k', m + n) :: rest else (k', m) :: bump rest k n

partial def scanCov (st : BState) (s : List Char) (c : Cov) : Cov :=
  match s with
  | [] => c
  | ch :: rest =>
    let c := bump c (branchOf st ch)
    match step Gen.KipLimits.maxKipNestingDepth st ch with
    | .ok st' => scanCov st' rest c
    | .error _ => bump c "step:refuses-too-deep"

def handle (cov : Cov) (line : String) : Cov × String :=
  match words line with
  | ["k", hex, alnum] =>
    match decodeInput hex, natList? alnum with
    | some s, some cps =>
      let uni : Char → Bool := fun c => cps.contains c.toNat
      let b := showBudget (validateBudgetKip s)
      let f := showFamily (classify uni s)
      -- branch coverage on inputs of moderate size (every branch is reachable on short inputs)
      let cov := if s.length ≤ 4000 then scanCov {} s cov else cov
      (bump (bump cov ("budget:" ++ b)) ("family:" ++ f), b ++ " " ++ f)
    | _, _ => (cov, "err:bad-request")
  | ["x", hex] =>
    match decodeInput hex with
    | some s =>
      let t := refLex s
      (bump cov "reflex", if t.isEmpty then "-" else String.ofList (t.map (fun p => showCls p.2)))
    | none => (cov, "err:bad-request")
  | ["w", h1, h2, hex, alnum] =>
    match decodeInput h1, decodeInput h2, decodeInput hex, natList? alnum with
    | some w1, some w2, some s, some cps =>
      let uni : Char → Bool := fun c => cps.contains c.toNat
      let a := if matchWords uni [w1, w2] s then "yes" else "no"
      (bump cov ("words:" ++ a), a)
    | _, _, _, _ => (cov, "err:bad-request")
  | ["j", hex] =>
    match decodeInput hex with
    | some s =>
      match parseJson s with
      | .ok v => ((jsonKinds v).foldl (fun c k => bump c k) (bump cov "parse_json:ok"), "ok " ++ toString v.depth ++ " " ++ showJson v)
      | .tooLong => (bump cov "parse_json:too_long", "too_long")
      | .tooDeep => (bump cov "parse_json:too_deep", "too_deep")
      | .syntaxErr => (bump cov "parse_json:err", "err")
      | .outOfFuel => (bump cov "parse_json:oof", "oof")
    | none => (cov, "err:bad-request")
  | ["d", hex] =>
    match decodeInput hex with
    | some s =>
      let bs := codeBrackets s
      -- max over all prefixes of netDepth (computed incrementally; `netDepth` itself on the whole list)
      let (_, best) := bs.foldl (fun (acc : Int × Int) c =>
        let d := acc.1 + netDepth [c]
        (d, if d > acc.2 then d else acc.2)) ((0 : Int), (0 : Int))
      (bump cov "depth-spec", toString best ++ " " ++ (if strictReads [] bs then "yes" else "no") ++ " " ++ toString (strictDepth [] bs 0))
    | none => (cov, "err:bad-request")
  | ["cov"] => (cov, if cov.isEmpty then "-" else ";".intercalate (cov.map (fun (k, n) => k ++ "=" ++ toString n)))
  | ["wsset"] =>
    (cov, showNats ((List.range 0x110000).filter (fun n => isWhitespace (Char.ofNat n) && (Char.ofNat n).toNat == n)))
  | ["alnumset"] =>
    (cov, showNats ((List.range 0x80).filter (fun n => isAsciiAlnum (Char.ofNat n))))
  | ["limits"] =>
    (cov, toString Gen.KipLimits.maxKipInputLen ++ " " ++ toString Gen.KipLimits.maxKipNestingDepth)
  | _ => (cov, "err:bad-request")

end AndaVerif.DrvC15

def main : IO Unit :=
  lineLoop ([] : AndaVerif.DrvC15.Cov) (fun cov line => AndaVerif.DrvC15.handle cov line)
