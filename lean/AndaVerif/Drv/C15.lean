import AndaVerif.Model.KipLex
import AndaVerif.Drv.Util
/-
Driver of the C15 model (budget pre-scan and head-keyword classification). One request per line:

  k <hex> <alnum>     hex   = the input's UTF-8 bytes in lowercase hex, `-` for the empty input
                      alnum = comma-separated decimal code points of the non-ASCII characters of the
                              input that `char::is_alphanumeric` accepts (std's Unicode table is a
                              parameter of the model), `-` for none
      -> `<budget> <family>`   budget ∈ ok | too_long | too_deep      (validate_parser_budget)
                               family ∈ kql | kml | meta | none       (head keyword after trivia)
  x <hex>             -> the reference lexer's class of every character, one letter each
                         (`c` code, `s` string, `m` comment), `-` for the empty input
  w <hex1> <hex2> <hex> <alnum>
                      -> `yes` / `no`: does `words(&[w1, w2])` match at the start of the input
                         (w1, w2, input in hex)
  limits              -> `<MAX_KIP_INPUT_LEN> <MAX_KIP_NESTING_DEPTH>` as generated from the source
  wsset               -> every code point the model's `isWhitespace` accepts (all of Unicode scanned)
  alnumset            -> every ASCII code point the model's `isAsciiAlnum` accepts

Malformed requests answer `err:bad-request` (never compared with the implementation).
-/
open AndaVerif.Model.KipLex AndaVerif.Drv

namespace AndaVerif.DrvC15

def hexVal (b : UInt8) : Option UInt8 :=
  if 48 ≤ b ∧ b ≤ 57 then some (b - 48)
  else if 97 ≤ b ∧ b ≤ 102 then some (b - 87)
  else if 65 ≤ b ∧ b ≤ 70 then some (b - 55)
  else none

def decodeHex (s : String) : Option ByteArray := Id.run do
  if s = "-" then return some ByteArray.empty
  let bytes := s.toUTF8
  if bytes.size % 2 ≠ 0 then return none
  let mut out := ByteArray.emptyWithCapacity (bytes.size / 2)
  let mut i := 0
  while i + 1 < bytes.size do
    match hexVal bytes[i]!, hexVal bytes[i + 1]! with
    | some h, some l => out := out.push (h * 16 + l)
    | _, _ => return none
    i := i + 2
  return some out

def decodeInput (s : String) : Option (List Char) := do
  let b ← decodeHex s
  let str ← String.fromUTF8? b
  pure str.toList

def showBudget : Except BudgetErr Unit → String
  | .ok () => "ok"
  | .error .tooLong => "too_long"
  | .error .tooDeep => "too_deep"

def showFamily : Option Family → String
  | some .kql => "kql"
  | some .kml => "kml"
  | some .metaC => "meta"
  | none => "none"

def showCls : Cls → Char
  | .code => 'c'
  | .str => 's'
  | .comment => 'm'

def handle (line : String) : String :=
  match words line with
  | ["k", hex, alnum] =>
    match decodeInput hex, natList? alnum with
    | some s, some cps =>
      let uni : Char → Bool := fun c => cps.contains c.toNat
      showBudget (validateBudgetKip s) ++ " " ++ showFamily (classify uni s)
    | _, _ => "err:bad-request"
  | ["x", hex] =>
    match decodeInput hex with
    | some s =>
      let t := refLex s
      if t.isEmpty then "-" else String.ofList (t.map (fun p => showCls p.2))
    | none => "err:bad-request"
  | ["w", h1, h2, hex, alnum] =>
    match decodeInput h1, decodeInput h2, decodeInput hex, natList? alnum with
    | some w1, some w2, some s, some cps =>
      let uni : Char → Bool := fun c => cps.contains c.toNat
      if matchWords uni [w1, w2] s then "yes" else "no"
    | _, _, _, _ => "err:bad-request"
  | ["wsset"] =>
    showNats ((List.range 0x110000).filter (fun n => isWhitespace (Char.ofNat n) && (Char.ofNat n).toNat == n))
  | ["alnumset"] =>
    showNats ((List.range 0x80).filter (fun n => isAsciiAlnum (Char.ofNat n)))
  | ["limits"] =>
    toString Gen.KipLimits.maxKipInputLen ++ " " ++ toString Gen.KipLimits.maxKipNestingDepth
  | _ => "err:bad-request"

end AndaVerif.DrvC15

def main : IO Unit :=
  lineLoop () (fun _ line => ((), AndaVerif.DrvC15.handle line))
