import AndaVerif.Drv.ObjStoreProto
/-
Driver of the C07 model (wrapper model and reference model side by side); protocol in
`Drv/ObjStoreProto.lean`.
-/
open AndaVerif.Drv AndaVerif.ObjStoreProto

namespace AndaVerif.DrvC07

def step (st : St) (line : String) : St × String :=
  match stepC07 st (words line) with
  | some r => r
  | none => (st, "bad-op")

end AndaVerif.DrvC07

def main : IO Unit := lineLoop ({} : AndaVerif.ObjStoreProto.St) AndaVerif.DrvC07.step
