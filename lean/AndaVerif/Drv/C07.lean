import AndaVerif.Drv.ObjStoreConcProto
/-
Driver of the C07 model (wrapper model and reference model side by side; replay of reader ∥ writer
interleavings on the concurrent model); protocol in `Drv/ObjStoreProto.lean` and
`Drv/ObjStoreConcProto.lean`.
-/
open AndaVerif.Drv AndaVerif.ObjStoreProto AndaVerif.ObjStoreConcProto

namespace AndaVerif.DrvC07

structure DSt where
  st : St := {}
  conc : Option ConcSt := none

def step (d : DSt) (line : String) : DSt × String :=
  let ws := words line
  match stepConc d.st d.conc ws with
  | some (st, conc, out) => ({ st := st, conc := conc }, out)
  | none =>
      match stepC07 d.st ws with
      | some (st, out) => ({ st := st, conc := if ws.head? = some "reset" then none else d.conc }, out)
      | none => (d, "bad-op")

end AndaVerif.DrvC07

def main : IO Unit := lineLoop ({} : AndaVerif.DrvC07.DSt) AndaVerif.DrvC07.step
