import AndaVerif.Drv.NexusTx
/- Driver of the C18 model: the shared transaction/history driver (`Drv/NexusTx.lean`). -/
def main : IO Unit := AndaVerif.DrvTx.main
