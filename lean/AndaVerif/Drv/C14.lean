/-
Line-protocol driver of the C14 model (`Model/ServerAuth`).

  cfg <admin:-|S> <primary:S> <maxDbs>                    → ok
  req <VERB> <target> <auth> <ct> <accept> <body…>        → one canonical response line
        target : / | db:S | dbp:S | badutf8:S | unrouted:S   (the last two carry the raw path for the harness)
                 | raw:S  (the raw request target, path and query: routed by `routePath`)
        auth   : - | S (the raw Authorization header bytes)
        ct, accept : cbor | json | -
        body   : malformed | rpc <method:S> <name:-|S> <apikey:-|S> <fresh:S> <pvar>
        S      : x<hex of UTF-8 bytes> | =<literal, `~` for a space>
  restart                                                  → ok dbs=<sorted open databases>   (clean stop, start)
  crash                                                    → ok dbs=…   (the process dies, the next one loads what is durable)
  begin <id> <VERB> <target> … (as req)                    → ok   (head of a request; its body is withheld)
  finish <id>                                              → the response, decided NOW (`handleSplit`)
  fault <k>                                                → ok   (the PUT of the primary's metadata object fails after k more such PUTs)
  fault2 <k>                                               → ok   (same, but the object IS written before the failure is reported)
  nofault                                                  → ok   (disarm)
  wire401 <cbor|json>                                      → status, header set and body bytes (hex) of the rejection
  route <S>                                                → root | db:<name> | badutf8 | unrouted for a raw target
  tables                                                   → the generated parse tables with their labels
  state                                                    → bound / opened / registry (debugging)
-/
import AndaVerif.Model.ServerAuth
import AndaVerif.Drv.Util

namespace AndaVerif.Drv.C14
open AndaVerif.ServerAuth
open AndaVerif.Gen.ServerMethods (Effect)

def hexVal (c : Char) : Option Nat :=
  if '0' ≤ c ∧ c ≤ '9' then some (c.toNat - '0'.toNat)
  else if 'a' ≤ c ∧ c ≤ 'f' then some (c.toNat - 'a'.toNat + 10)
  else none

def unhexBytes : List Char → Option (List Nat)
  | [] => some []
  | [_] => none
  | a :: b :: rest => do
    let x ← hexVal a
    let y ← hexVal b
    let r ← unhexBytes rest
    pure ((x * 16 + y) :: r)

/-- `x<hex>` → bytes; `=<literal>` → the literal's bytes with `~` read as a space -/
def xbytes? (t : String) : Option (List Nat) :=
  match t.toList with
  | 'x' :: cs => unhexBytes cs
  | '=' :: cs => some ((String.ofList (cs.map fun c => if c = '~' then ' ' else c)).toUTF8.toList.map (·.toNat))
  | _ => none

/-- `x<hex>` → string (the harness only sends UTF-8 it produced from a `String`) -/
def xstr? (t : String) : Option String :=
  (xbytes? t).map fun bs => String.fromUTF8! (ByteArray.mk (bs.map (·.toUInt8)).toArray)

def optX? (t : String) : Option (Option String) :=
  if t = "-" then some none else (xstr? t).map some

def hexDigit (n : Nat) : Char :=
  if n < 10 then Char.ofNat (n + '0'.toNat) else Char.ofNat (n - 10 + 'a'.toNat)

def xhex (s : String) : String :=
  "x" ++ String.ofList (s.toUTF8.toList.flatMap fun b => [hexDigit (b.toNat / 16), hexDigit (b.toNat % 16)])

def insertSorted (x : String) : List String → List String
  | [] => [x]
  | y :: ys => if x ≤ y then x :: y :: ys else y :: insertSorted x ys

def sortStrings (xs : List String) : List String := xs.foldr insertSorted []

def showNames (xs : List String) : String :=
  if xs.isEmpty then "-" else ",".intercalate ((sortStrings xs).map xhex)

def showEnc : Enc → String
  | .cbor => "cbor"
  | .json => "json"

def showEffect : Effect → String
  | .read => "R"
  | .mutating => "M"

def showPrincipal : Option Principal → String
  | none => "none"
  | some .admin => "admin"
  | some .database => "database"

/-- code and message class of an error; the status comes from the model (`ApiError.status`) -/
def showErrKind : ApiError → String
  | .unauthorized => "unauthorized -"
  | .unsupportedMediaType => "unsupported_media_type -"
  | .badBody => "bad_request body"
  | .methodNotFound m => s!"method_not_found m:{xhex m}"
  | .invalidParams => "invalid_input params"
  | .invalidName => "invalid_input name"
  | .emptyKey => "invalid_input emptykey"
  | .needsAdminKey => "conflict needsadmin"
  | .primaryNotDelegable => "conflict primarykey"
  | .primaryCannotClose => "invalid_input primaryclose"
  | .dbExists n => s!"already_exists db:{xhex n}"
  | .limitExceeded => "limit_exceeded -"
  | .dbNotFound n => s!"not_found db:{xhex n}"
  | .internal => "internal -"
  | .unknownHandler h => s!"unknown_handler {xhex h}"

def showErr (e : ApiError) : String := s!"{e.status} {showErrKind e}"

def showResult : RootResult → String
  | .info p dbs => s!"info primary={match p with | some x => xhex x | none => "-"} dbs={showNames dbs}"
  | .names dbs => s!"names dbs={showNames dbs}"
  | .metadata n => s!"metadata {xhex n}"
  | .unit => "unit"
  | .keySet n g => s!"keyset {xhex n} {if g then "generated" else "given"}"
  | .removed b => s!"removed {b}"

def showResponse (r : Response) : String :=
  let line := match r.reply with
    | .health => s!"{showEnc r.enc} 200 health"
    | .http n => s!"- {n} http"
    | .err e => s!"{showEnc r.enc} {showErr e}"
    | .root res => s!"{showEnc r.enc} 200 ok {showResult res}"
    | .handler n v h eff p => s!"{showEnc r.enc} dispatch {xhex n} {v} {h} {showEffect eff} {showPrincipal p}"
  s!"{line} # as={showPrincipal r.principal}"

def enc? (t : String) : Option (Option Enc) :=
  if t = "-" then some none else if t = "cbor" then some (some .cbor) else if t = "json" then some (some .json) else none

def verb? (t : String) : Verb :=
  if t = "GET" then .get else if t = "POST" then .post else .other

def target? (t : String) : Option Target :=
  if t = "/" then some .root
  else if t.startsWith "badutf8" then some .badUtf8
  else if t.startsWith "unrouted" then some .unrouted
  else if t.startsWith "db:" then (xstr? (t.drop 3).toString).map .db
  else if t.startsWith "dbp:" then (xstr? (t.drop 4).toString).map .db
  -- the raw request target (path and query): the model does the routing
  else if t.startsWith "raw:" then (xbytes? (t.drop 4).toString).map routePath
  else none

def body? : List String → Option (Body × String)
  | ["malformed"] => some (.malformed, "")
  | ["rpc", m, n, k, f, pvar] => do
    let m ← xstr? m
    let n ← optX? n
    let k ← optX? k
    let f ← xstr? f
    -- what the harness puts into `read_only` of the `*.set_read_only` parameters for this shape
    let ro : Option Bool := if pvar = "n" then none else some (pvar = "ro")
    pure (.rpc m ⟨n, k, ro⟩, f)
  | _ => none

def request? : List String → Option Request
  | v :: t :: a :: ct :: acc :: body => do
    let target ← target? t
    let auth ← if a = "-" then some none else (xbytes? a).map some
    let ct ← enc? ct
    let acc ← enc? acc
    let (b, fresh) ← body? body
    pure { verb := verb? v, target, auth, contentType := ct, accept := acc, body := b, fresh }
  | _ => none

def showTable (t : List Gen.ServerMethods.ParseRow) : String :=
  ",".intercalate (t.map fun r => s!"{r.name}={showEffect r.effect}:{r.variant}")

structure DrvState where
  cfg : Cfg
  s : State
  /-- requests whose body is withheld: id, the request, the state when its head arrived -/
  pending : List (String × Request × State) := []

def step (d : DrvState) (line : String) : DrvState × String :=
  match words line with
  | ["cfg", a, p, m] =>
    match optX? a, xstr? p, m.toNat? with
    | some admin, some primary, some maxDbs =>
      let cfg : Cfg := { admin, primary, maxDbs }
      ({ cfg, s := init cfg }, "ok")
    | _, _, _ => (d, "err:parse")
  | "req" :: rest =>
    match request? rest with
    | none => (d, "err:parse")
    | some r =>
      let (s', resp) := handle d.cfg d.s r
      ({ d with s := s' }, showResponse resp)
  | ["crash"] =>
    -- the process dies without flushing: the next one loads what is durable
    let s' := crash d.cfg d.s
    ({ d with s := s' }, s!"ok dbs={showNames s'.opened}")
  | "begin" :: id :: rest =>
    match request? rest with
    | some r => ({ d with pending := (id, r, d.s) :: d.pending.filter (·.1 ≠ id) }, "ok")
    | none => (d, "err:parse")
  | ["finish", id] =>
    match d.pending.find? (·.1 = id) with
    | some (_, r, sBegin) =>
      let (s', resp) := handleSplit d.cfg sBegin d.s r
      ({ d with s := s', pending := d.pending.filter (·.1 ≠ id) }, showResponse resp)
    | none => (d, "err:nopending")
  | ["nofault"] => ({ d with s := { d.s with faultIn := none } }, "ok")
  | ["fault2", k] =>
    match k.toNat? with
    | some k => ({ d with s := stepEvent d.cfg d.s (.faultLanding k) }, "ok")
    | none => (d, "err:parse")
  | ["fault", k] =>
    match k.toNat? with
    | some k => ({ d with s := stepEvent d.cfg d.s (.fault k) }, "ok")
    | none => (d, "err:parse")
  | ["restart"] =>
    let s' := restart d.cfg d.s
    ({ d with s := s' }, s!"ok dbs={showNames s'.opened}")
  | ["wire401", e] =>
    match enc? e with
    | some (some enc) =>
      let w := rejectionWire enc
      let hs := ";".intercalate (w.headers.map fun (k, v) => s!"{k}={v}")
      (d, s!"{w.status} {hs} {String.ofList (w.body.flatMap fun b => [hexDigit (b / 16), hexDigit (b % 16)])}")
    | _ => (d, "err:parse")
  | ["route", t] =>
    match xbytes? t with
    | some bs =>
      (d, match routePath bs with
        | .root => "root"
        | .db n => s!"db:{xhex n}"
        | .badUtf8 => "badutf8"
        | .unrouted => "unrouted")
    | none => (d, "err:parse")
  | ["tables"] =>
    (d, s!"root:{showTable Gen.ServerMethods.rootParse} db:{showTable Gen.ServerMethods.dbParse}")
  | ["state"] =>
    (d, s!"bound={showNames (d.s.bound.map (·.1))} opened={showNames d.s.opened} registry={showNames d.s.registry} stored={showNames d.s.stored} primary_ro={d.s.primaryRO} durable_bound={showNames (d.s.durableBound.map (·.1))} ext_bound={showNames (d.s.extBound.map (·.1))} durable_registry={showNames d.s.durableRegistry} fault={d.s.faultIn}")
  | _ => (d, "err:parse")

end AndaVerif.Drv.C14

def main : IO Unit :=
  let cfg : AndaVerif.ServerAuth.Cfg := { admin := none, primary := "p", maxDbs := 64 }
  AndaVerif.Drv.lineLoop (σ := AndaVerif.Drv.C14.DrvState) { cfg, s := AndaVerif.ServerAuth.init cfg } AndaVerif.Drv.C14.step
