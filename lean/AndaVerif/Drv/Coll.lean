import AndaVerif.Model.CollQuery
import AndaVerif.Model.CollCrash
import AndaVerif.Drv.Util
/-
Line protocol of the collection model (shared by `drv_c02` and `drv_c04`).

  schema <f>:<kind>[o][u] …        reset; kind ∈ i a m t v, `o` = Option, `u` = #[unique]
  add <f>=<val> …                  → `id <n>` | `err:<e>`
  upd <id> <f>=<val> …             → `ok` | `err:<e>`
  rm <id>                          → `removed` | `absent` | `err:<e>`
  mkbt <name> <fields csv>   mktx <fields csv>   mkhn <field> <dim>      → `ok` | `err:<e>`
  rmbt <name>   rmtx <fields csv>   rmhn <field>                         → `removed 0|1`
  reopen                           → `ok`      (close + open; the open ends with a flush, which the
                                               driver applies before the first following data line)
  flush                            → `ok`
  crash                            → `ok`      (power loss at this point — nothing since the last flush but the
                                               document objects and the mutation intents survives — then
                                               `open_collection`: the following index operations run in the open
                                               callback on the loaded, not yet recovered state; recovery
                                               (`replay_mutation_intents`, `auto_repair_indexes`) and the final flush
                                               are applied before the first following line that is not one)
  check                            → `ok`      (no operation; a place to look at the state)
  dump                             → the canonical observable state, one line
  q <name> <rq>                    → `ids <csv>` | `err:index`   (`Filter::Field((name, rq))`, ids ascending)
       rq ::= leaf | or(leaf|leaf…) | and(leaf|leaf…) | not(leaf)
       leaf ::= eq:k | gt:k | ge:k | lt:k | le:k | bw:a:b | in:<csv|->
Every answer to a state-changing line carries the model's branch tag after ` #` (`Model/CollQuery.lean`,
`tagOf`): the harness strips it before comparing and counts it.
val ::= ~ | i<int> | a<csv|-> | m<csv|-> | t<csv|-> | v<dim>
-/
open AndaVerif.Collection AndaVerif.Drv

namespace AndaVerif.DrvColl

def parseVal (s : String) : Option FVal :=
  match s.toList with
  | ['~'] => some .null
  | 'i' :: r => (String.ofList r).toInt?.map .int
  | 'a' :: r => (intList? (String.ofList r)).map .arr
  | 'm' :: r => (intList? (String.ofList r)).map .map
  | 't' :: r => (natList? (String.ofList r)).map .text
  | 'v' :: r => (String.ofList r).toNat?.map .vec
  | _ => none

def parseFieldVal (s : String) : Option (Nat × FVal) :=
  match s.splitOn "=" with
  | [f, v] => do let f ← f.toNat?; let v ← parseVal v; pure (f, v)
  | _ => none

def parseFieldDef (s : String) : Option (Nat × FieldDef) :=
  match s.splitOn ":" with
  | [f, spec] => do
      let f ← f.toNat?
      match spec.toList with
      | k :: flags =>
          let kind ← match k with
            | 'i' => some Kind.int | 'a' => some Kind.arr | 'm' => some Kind.map
            | 't' => some Kind.text | 'v' => some Kind.vec | _ => none
          pure (f, { kind := kind, opt := flags.contains 'o', unique := flags.contains 'u' })
      | [] => none
  | _ => none

def showErr : Err → String
  | .invalid => "err:invalid" | .exists => "err:exists" | .notFound => "err:notfound"
  | .index => "err:index" | .generic => "err:generic" | .state => "err:state"

def showOut : Out → String
  | .id n => s!"id {n}"
  | .ok => "ok"
  | .absent => "absent"
  | .removed true => "removed 1"
  | .removed false => "removed 0"
  | .err e => showErr e

def showVal : FVal → String
  | .null => "~"
  | .int k => s!"i{k}"
  | .arr ks => "a" ++ showInts ks
  | .map ks => "m" ++ showInts ks
  | .text ws => "t" ++ showNats ws
  | .vec n => s!"v{n}"

def showKey : Key → String
  | .s k => toString k
  | .t vs => "(" ++ ";".intercalate (vs.map showVal) ++ ")"

def insStr (x : String) : List String → List String
  | [] => [x]
  | y :: r => if x < y then x :: y :: r else if x = y then y :: r else y :: insStr x r

def sortStrs (l : List String) : List String := l.foldr insStr []

def insNat (x : Nat) : List Nat → List Nat
  | [] => [x]
  | y :: r => if x < y then x :: y :: r else if x = y then y :: r else y :: insNat x r

def sortNats (l : List Nat) : List Nat := l.foldr insNat []

/-- `key>ids` per distinct key, sorted as strings -/
def showRel {κ : Type} [BEq κ] (shw : κ → String) (r : List (κ × Nat)) : String :=
  let keys := r.foldl (fun acc p => if acc.contains p.1 then acc else acc ++ [p.1]) ([] : List κ)
  let rows := keys.map (fun k => shw k ++ ">" ++ showNats (sortNats ((r.filter (fun p => p.1 == k)).map (·.2))))
  " ".intercalate (sortStrs rows)

def showDoc (schema : List (Nat × FieldDef)) (d : List (Nat × FVal)) : String :=
  ";".intercalate (schema.map (fun p => s!"{p.1}={showVal (getF d p.1)}"))

def insDoc (x : Nat × List (Nat × FVal)) : List (Nat × List (Nat × FVal)) → List (Nat × List (Nat × FVal))
  | [] => [x]
  | y :: r => if x.1 ≤ y.1 then x :: y :: r else y :: insDoc x r

def dump (s : State) : String :=
  let docs := (s.docs.foldr insDoc []).map (fun p => s!"{p.1}:" ++ "{" ++ showDoc s.schema p.2 ++ "}")
  let bts := sortStrs (s.ix.bt.map (fun x => s!"bt{x.1.name}[u{if x.1.unique then 1 else 0}]: " ++ showRel showKey x.2))
  let txs := sortStrs (s.ix.tx.map (fun t => s!"tx{showNats t.fields}[n{t.docs.length}]: " ++ showRel (fun (w : Nat) => toString w) t.post))
  let hns := sortStrs (s.ix.hn.map (fun h => s!"hn{h.field}[n{h.ids.length}]: " ++ showNats (sortNats h.ids)))
  s!"ids={showNats s.ids} len={s.ids.length} docs=" ++ " ".intercalate docs ++ " | " ++ " | ".intercalate (bts ++ txs ++ hns)

def parseLeaf (t : String) : Option (RQ Int) :=
  match t.splitOn ":" with
  | ["eq", a] => a.toInt?.map .eq
  | ["gt", a] => a.toInt?.map .gt
  | ["ge", a] => a.toInt?.map .ge
  | ["lt", a] => a.toInt?.map .lt
  | ["le", a] => a.toInt?.map .le
  | ["bw", a, b] => do let a ← a.toInt?; let b ← b.toInt?; pure (.between a b)
  | ["in", ks] => (intList? ks).map .incl
  | _ => none

def inner (t : String) (pre : String) : Option String :=
  if t.startsWith pre && t.endsWith ")" then some ((t.drop pre.length).dropEnd 1).toString else none

def parseRQ (t : String) : Option (RQ Int) :=
  match inner t "or(" with
  | some b => ((b.splitOn "|").mapM parseLeaf).map .or
  | none =>
    match inner t "and(" with
    | some b => ((b.splitOn "|").mapM parseLeaf).map .and
    | none =>
      match inner t "not(" with
      | some b => (parseLeaf b).map .not
      | none => parseLeaf t

def stepLine1 (x : DState) (line : String) : DState × String :=
  let s := x.s
  let run (op : Op) : DState × String := let r := dstep x (.op op); (r.1, showOut r.2 ++ " #" ++ tagOf s op)
  match words line with
  | "schema" :: defs =>
      match defs.mapM parseFieldDef with
      | some sch => (dinit sch, "ok")
      | none => (x, "bad-op")
  | "add" :: fvs =>
      match fvs.mapM parseFieldVal with
      | some d => run (.add d)
      | none => (x, "bad-op")
  | "upd" :: id :: fvs =>
      match id.toNat?, fvs.mapM parseFieldVal with
      | some id, some fs => run (.update id fs)
      | _, _ => (x, "bad-op")
  | ["rm", id] =>
      match id.toNat? with
      | some id => run (.remove id)
      | none => (x, "bad-op")
  | ["mkbt", name, fields] =>
      match name.toNat?, natList? fields with
      | some n, some fs => run (.createBt n fs)
      | _, _ => (x, "bad-op")
  | ["mktx", fields] =>
      match natList? fields with
      | some fs => run (.createTx fs)
      | none => (x, "bad-op")
  | ["mkhn", field, dim] =>
      match field.toNat?, dim.toNat? with
      | some f, some d => run (.createHn f d)
      | _, _ => (x, "bad-op")
  | ["rmbt", name] =>
      match name.toNat? with
      | some n => run (.removeBt n)
      | none => (x, "bad-op")
  | ["rmtx", fields] =>
      match natList? fields with
      | some fs => run (.removeTx fs)
      | none => (x, "bad-op")
  | ["rmhn", field] =>
      match field.toNat? with
      | some f => run (.removeHn f)
      | none => (x, "bad-op")
  | ["reopen"] => run .reopen
  | ["flush"] => run .flush
  | ["crash"] =>
      -- the tag says what recovery will have to do
      let handed := x.intents.length
      let above := (x.s.docs.filter (fun p => decide (x.checkpoint < p.1))).length
      (crashLoad x, s!"ok #crash:intents{min handed 3}:docs-above-checkpoint{min above 3}")
  | ["check"] => (x, "ok")
  | ["dump"] => (x, dump s)
  | ["q", name, rq] =>
      match name.toNat?, parseRQ rq with
      | some n, some q =>
          (x, match fieldFilter s n q with
              | none => "err:index"
              | some ids => "ids " ++ showNats (sortNats ids))
      | _, _ => (x, "bad-op")
  | ["poisoned"] => (x, if s.poisoned then "1" else "0")
  | _ => (x, "bad-op")

def isIxLine (line : String) : Bool :=
  match words line with
  | w :: _ => ["mkbt", "mktx", "mkhn", "rmbt", "rmtx", "rmhn", "dump", "poisoned"].contains w
  | [] => true

/-- what is still to be done when the group of index operations after `schema` / `reopen` / `crash` ends -/
inductive Pending where
  | none | flush | recover
  deriving DecidableEq

/-- `Collection::open` (and creation) ends with a flush after the callback, and after a crash with the
recovery phases before it: they are applied when the first line that is not an index operation of the
group arrives. -/
def stepLine (st : DState × Pending) (line : String) : (DState × Pending) × String :=
  let ends := !isIxLine line
  let x := match st.2, ends with
    | .flush, true => dflush st.1
    | .recover, true => recover st.1
    | _, _ => st.1
  let pend : Pending :=
    match words line with
    | "schema" :: _ => .flush
    | ["reopen"] => .flush
    | ["crash"] => .recover
    | _ => if ends then .none else st.2
  let r := stepLine1 x line
  -- between the crash and the end of its group the state is the loaded, not yet recovered one: not compared
  ((r.1, pend), if pend == .recover && line == "dump" then "unrecovered" else r.2)

end AndaVerif.DrvColl
