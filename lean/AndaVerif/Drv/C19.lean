import AndaVerif.Model.Authz
import AndaVerif.Model.Gate
import AndaVerif.Drv.Util
/-
Driver of the C19 model. One request line in, one answer line out.

State-changing lines (the host control plane; answer `ok` or `ok <row id>`):
  reset
  now <instant>
  principal <id>
  pstatus <id> <status>
  group <gid> <members csv>
  grant <space> <granteePrincipal|-> <granteeGroup|-> <actions csv> <scope> <cond> <cons> <0|1 delegation_allowed>
  revoke_grant <row>
  deleg <space> <delegator> <delegate> <actions csv> <scope> <cond> <cons> <parent|-> <0|1 may_redelegate>
  revoke_deleg <row>
  policy <policyId> <n> { <effect> <principals csv> <groups csv> <actions csv> <scope> <cond> <cons> <obl> }*n
  space <id> <owner|-> <owners csv> <status> <defaultPolicyId|-> <defaultClass|-> <auditMode>
Queries:
  auth  <space> <principal> <strength|-> <purpose|-> <assurance|-> <chain csv> <perm> <kind|-> <schemaRef|-> <class|-> <element|->
  names <space> <principal> <strength|-> <purpose|-> <assurance|-> <chain csv>
  gate kql <0|1 as_of> <clause tree>        clause tree ::= V | V(tree,tree,…)   joined by `,`
  gate meta <MetaCommand variant> [<DescribeTarget variant> <0|1 as_of>]
  gate kml <MutationClause variants csv>
  consts

  scope ::= k=<csv>;t=<csv>;c=<csv>;e=<csv>
  cond  ::= p=<csv>;pa=<s|->;as=<s|->;from=<nat>;until=<nat>
  cons  ::= f=<csv>;mr=<nat|->;mi=<s|->;mc=<s|->;x=<0|1>
  obl   ::= a=<0|1>;n=<nat>;r=<s|->
csv: `-` is the empty list; a lone `-` for a string is the empty string.
-/
open AndaVerif.Authz AndaVerif.Drv

namespace AndaVerif.DrvC19

def strOf (s : String) : String := if s = "-" then "" else s

def csv (s : String) : List String :=
  if s = "-" ∨ s = "" then [] else s.splitOn ","

def showCsv (xs : List String) : String :=
  if xs.isEmpty then "-" else ",".intercalate xs

def showStr (s : String) : String := if s = "" then "-" else s

def bool01 (s : String) : Option Bool :=
  if s = "1" then some true else if s = "0" then some false else none

def show01 (b : Bool) : String := if b then "1" else "0"

/-- `a=1;b=2` → lookup -/
def fieldsOf (s : String) : List (String × String) :=
  (s.splitOn ";").filterMap (fun kv =>
    match kv.splitOn "=" with
    | [k, v] => some (k, v)
    | _ => none)

def look (fs : List (String × String)) (k : String) : Option String :=
  (fs.find? (fun p => p.1 = k)).map (·.2)

def parseScope (s : String) : Option Scope := do
  let fs := fieldsOf s
  let k ← look fs "k"; let t ← look fs "t"; let c ← look fs "c"; let e ← look fs "e"
  pure { kinds := csv k, schemaRefs := csv t, classifications := csv c, elements := csv e }

def parseCond (s : String) : Option Conditions := do
  let fs := fieldsOf s
  let p ← look fs "p"; let pa ← look fs "pa"; let a ← look fs "as"
  let f ← (← look fs "from").toNat?; let u ← (← look fs "until").toNat?
  pure { purpose := csv p, minPurposeAssurance := strOf pa, minAuthStrength := strOf a, validFrom := f, validUntil := u }

def parseCons (s : String) : Option Constraints := do
  let fs := fieldsOf s
  let f ← look fs "f"; let mr ← look fs "mr"; let mi ← look fs "mi"; let mc ← look fs "mc"
  let x ← bool01 (← look fs "x")
  let mr' ← if mr = "-" then some none else mr.toNat?.map some
  pure { fields := csv f, maxResults := mr', maxInfluence := strOf mi, maxClassification := strOf mc, mayExport := x }

def parseObl (s : String) : Option Obligations := do
  let fs := fieldsOf s
  let a ← bool01 (← look fs "a"); let n ← (← look fs "n").toNat?; let r ← look fs "r"
  pure { audit := a, approvalsRequired := n, redactionProfile := strOf r }

def showCons (c : Constraints) : String :=
  s!"f={showCsv c.fields};mr={match c.maxResults with | some n => toString n | none => "-"};mi={showStr c.maxInfluence};mc={showStr c.maxClassification};x={show01 c.mayExport}"

def showObl (o : Obligations) : String :=
  s!"a={show01 o.audit};n={o.approvalsRequired};r={showStr o.redactionProfile}"

def showAuthId : AuthId → String
  | .owner p => "owner:" ++ p
  | .grant n => "kip:grant:" ++ toString n
  | .delegation n => "kip:delegation:" ++ toString n
  | .policy id v => "policy:" ++ id ++ "@" ++ toString v

def showDecision : Decision → String
  | .allow => "allow"
  | .allowWithConstraints => "allow_with_constraints"
  | .deny => "deny"
  | .requireApproval => "require_approval"

def showErr : Err → String
  | .spaceNotFound => "err:notfound"
  | .unauthenticated => "err:unauthenticated"
  | .notAuthorized => "err:notauthorized"

def showAuthorization (d : Authorization) : String :=
  s!"ok {showDecision d.decision} used={showCsv (d.authoritiesUsed.map showAuthId)} unr={show01 d.unrestricted} cons={showCons d.constraints} obl={showObl d.obligations} pol={showStr d.policyId}@{d.policyVersion} why={d.stage}"

def parseStatements : Nat → List String → Option (List Statement × List String)
  | 0, r => some ([], r)
  | n + 1, eff :: ps :: gs :: acts :: sc :: co :: cs :: ob :: r => do
    let sc ← parseScope sc; let co ← parseCond co; let cs ← parseCons cs; let ob ← parseObl ob
    let (rest, r) ← parseStatements n r
    pure ({ effect := strOf eff, principals := csv ps, groups := csv gs, actions := csv acts, resource := sc,
            conditions := co, constraints := cs, obligations := ob } :: rest, r)
  | _, _ => none

def parseAuth (p st pu pa ch : String) : Auth :=
  { principalId := p, authStrength := strOf st, purpose := strOf pu, purposeAssurance := strOf pa,
    delegationChain := csv ch }

structure St where
  w : World := World.bootstrap
  now : Nat := 2050

/-- Lexicographic insertion sort of strings (`permission_names` goes through a `BTreeSet`). -/
def insertSorted (x : String) : List String → List String
  | [] => [x]
  | y :: ys => if x < y then x :: y :: ys else if x = y then y :: ys else y :: insertSorted x ys

def sortStrings (xs : List String) : List String := xs.foldr insertSorted []

/-- `V` or `V(t,t,…)` trees, comma separated at depth 0. -/
partial def parseTrees (cs : List Char) : Option (List Gate.Clause × List Char) :=
  let rec name (cs : List Char) (acc : List Char) : List Char × List Char :=
    match cs with
    | c :: r => if c.isAlphanum then name r (c :: acc) else (acc.reverse, cs)
    | [] => (acc.reverse, [])
  match cs with
  | [] => some ([], [])
  | ')' :: _ => some ([], cs)
  | _ =>
    let (n, r) := name cs []
    if n.isEmpty then none else
    let node? : Option (Gate.Clause × List Char) :=
      match r with
      | '(' :: r1 =>
        match parseTrees r1 with
        | some (kids, ')' :: r2) => some (⟨String.ofList n, kids⟩, r2)
        | _ => none
      | _ => some (⟨String.ofList n, []⟩, r)
    match node? with
    | none => none
    | some (node, r) =>
      match r with
      | ',' :: r' =>
        match parseTrees r' with
        | some (more, r'') => some (node :: more, r'')
        | none => none
      | _ => some ([node], r)

def step (s : St) (line : String) : St × String :=
  match words line with
  | ["reset"] => ({}, "ok")
  | ["now", n] => match n.toNat? with
    | some n => ({ s with now := n }, "ok")
    | none => (s, "bad-op")
  | ["principal", id] => ({ s with w := s.w.ensurePrincipal id }, "ok")
  | ["pstatus", id, st] =>
    match s.w.findPrincipal id with
    | none => (s, "err:notfound")
    | some _ => ({ s with w := s.w.setPrincipalStatus id st }, "ok")
  | ["group", gid, ms] => ({ s with w := s.w.putGroup gid (csv ms) }, "ok")
  | ["grant", sp, gp, gg, acts, sc, co, cs, da] =>
    match parseScope sc, parseCond co, parseCons cs, bool01 da with
    | some sc, some co, some cs, some da =>
      let w := s.w.createGrant { rowId := 0, spaceId := sp, granteePrincipal := strOf gp, granteeGroup := strOf gg,
                                 actions := csv acts, scope := sc, conditions := co, constraints := cs,
                                 delegationAllowed := da }
      ({ s with w := w }, s!"ok {w.grants.length}")
    | _, _, _, _ => (s, "bad-op")
  | ["revoke_grant", row] =>
    match row.toNat? with
    | some r => if s.w.grants.any (fun g => g.rowId = r) then ({ s with w := s.w.revokeGrant r }, "ok") else (s, "err:notfound")
    | none => (s, "bad-op")
  | ["deleg", sp, dor, dee, acts, sc, co, cs, par, mr] =>
    match parseScope sc, parseCond co, parseCons cs, bool01 mr with
    | some sc, some co, some cs, some mr =>
      let w := s.w.createDelegation { rowId := 0, spaceId := sp, delegator := dor, delegate := dee, actions := csv acts,
                                      scope := sc, conditions := co, constraints := cs, parent := strOf par,
                                      parentRow := rowIdOf (strOf par), mayRedelegate := mr }
      ({ s with w := w }, s!"ok {w.delegations.length}")
    | _, _, _, _ => (s, "bad-op")
  | ["revoke_deleg", row] =>
    match row.toNat? with
    | some r => if s.w.delegations.any (fun d => d.rowId = r) then ({ s with w := s.w.revokeDelegation r }, "ok") else (s, "err:notfound")
    | none => (s, "bad-op")
  | "policy" :: pid :: n :: rest =>
    match n.toNat? with
    | some n =>
      match parseStatements n rest with
      | some (sts, []) =>
        let w := s.w.publishPolicy pid sts
        ({ s with w := w }, s!"ok {((w.activePolicy pid).map (·.version)).getD 0}")
      | _ => (s, "bad-op")
    | none => (s, "bad-op")
  | ["space", id, owner, owners, status, pol, cls, audit] =>
    ({ s with w := s.w.putSpace { id := id, ownerPrincipal := strOf owner, owners := csv owners, status := status,
                                  defaultPolicyId := strOf pol, defaultClassification := strOf cls,
                                  auditMode := audit } }, "ok")
  | ["auth", sp, p, st, pu, pa, ch, perm, k, t, c, e] =>
    let a := parseAuth p st pu pa ch
    let res : Resource := { kind := strOf k, schemaRef := strOf t, classification := strOf c, elementId := strOf e }
    match request s.w sp a perm res s.now with
    | .error e => (s, showErr e)
    | .ok d => (s, showAuthorization d)
  | ["names", sp, p, st, pu, pa, ch] =>
    let a := parseAuth p st pu pa ch
    match resolve s.w sp a with
    | .error e => (s, showErr e)
    | .ok ea =>
      (s, s!"held {showCsv (sortStrings (permissionNamesHeld ea a s.now))} whole={show01 (readsWholeSpace ea a s.now)} owner={show01 ea.isOwner} groups={showCsv ea.groups}")
  | ["gate", "kql", asof, tree] =>
    match bool01 asof, parseTrees tree.toList with
    | some ao, some (cl, []) => (s, "perms " ++ showCsv (Gate.kqlPermissions ao cl))
    | _, _ => (s, "bad-op")
  | ["gate", "meta", v] => (s, match Gate.metaPermissions v "" false with
      | some ps => "perms " ++ showCsv ps
      | none => "err:unknown-variant")
  | ["gate", "meta", v, t, ao] =>
    match bool01 ao with
    | some ao => (s, match Gate.metaPermissions v t ao with
      | some ps => "perms " ++ showCsv ps
      | none => "err:unknown-variant")
    | none => (s, "bad-op")
  | ["gate", "kml", vs] => (s, match Gate.kmlPermissions (csv vs) with
      | some ps => "perms " ++ showCsv ps
      | none => "err:unknown-variant")
  | ["consts"] => (s, s!"MAX_DELEGATION_DEPTH={AndaVerif.Gen.GateTables.maxDelegationDepth} permissions={AndaVerif.Gen.GateTables.permissionNames.length}")
  | _ => (s, "bad-op")

end AndaVerif.DrvC19

def main : IO Unit := lineLoop ({} : AndaVerif.DrvC19.St) AndaVerif.DrvC19.step
