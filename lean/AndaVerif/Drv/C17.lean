import AndaVerif.Drv.NexusTx
/- Driver of the C17 model: the shared transaction/history driver (`Drv/NexusTx.lean`). -/
def main : IO Unit := AndaVerif.DrvTx.main
