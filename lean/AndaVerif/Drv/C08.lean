import AndaVerif.Drv.ObjStoreProto
/-
Driver of the C08 model (wrapper model with crash cuts, garbage collection, legacy objects, backend
dump); protocol in `Drv/ObjStoreProto.lean`.
-/
open AndaVerif.Drv AndaVerif.ObjStoreProto

namespace AndaVerif.DrvC08

def step (st : St) (line : String) : St × String :=
  match stepC08 st (words line) with
  | some r => r
  | none => (st, "bad-op")

end AndaVerif.DrvC08

def main : IO Unit := lineLoop ({} : AndaVerif.ObjStoreProto.St) AndaVerif.DrvC08.step
