import AndaVerif.Model.ObjStore
import AndaVerif.Drv.Util
/-
Line protocol shared by the C07 and C08 drivers (model of `anda_object_store`).

Keys are `/`-joined segment indices (`0`, `0/2`, …), `-` is the empty prefix.
  reset m|e                                   fresh wrapper (MetaStore / EncryptedStore flavour) + fresh reference
  put <key> ow|cr|up:<tok>[:v] <size> <seed>  tok ::= t<n> (n-th token seen so far) | x<n> (never issued) | none
  mput <key> <n1,n2,…> <seed>                 multipart: parts of the given sizes, then complete
  get <key> [im=<c>] [inm=<c>] [ims=<d>] [ius=<d>] [r=b:<s>:<e>|o:<n>|s:<n>] [head]
                                              c ::= * | tok+tok+… ; d ::= <key>:<delta>  (time of that key's commit + delta)
  ranges <key> <s>:<e>,<s>:<e>,… | -
  del <key> · copy <src> <dst> ow|cr · ren <src> <dst> ow|cr
  list <pre> [off=<key>] · listd <pre>
  reopen                                      cold metadata cache
  via-b <op>                                  the op through a second, freshly opened wrapper instance over the same backend
Answer: `<wrapper model answer> || <reference model answer>`; tokens as first-occurrence ordinals
`T<n>` (per side), times raw `@<n>` (the harness ranks them), data as `<len>:<fnv64>`.
-/
open AndaVerif.ObjStore AndaVerif.Drv

namespace AndaVerif.ObjStoreProto

def genBytes (seed size : Nat) : Bytes :=
  (List.range size).map (fun i => (seed * 131 + i * 7 + (i / 256) * 13 + 1) % 256)

def fnv (b : Bytes) : UInt64 :=
  b.foldl (fun h x => (h ^^^ x.toUInt64) * 0x00000100000001B3) 0xcbf29ce484222325

def showData (b : Bytes) : String := s!"{b.length}:{(fnv b).toNat}"

def parseKey (s : String) : Option Path :=
  if s = "-" then some [] else (s.splitOn "/").mapM String.toNat?

def showKey (k : Path) : String :=
  if k.isEmpty then "-" else "/".intercalate (k.map toString)

structure Side where
  toks : List Tok := []

def Side.ord (s : Side) (t : Tok) : Side × Nat :=
  match s.toks.idxOf? t with
  | some i => (s, i)
  | none => ({ toks := s.toks ++ [t] }, s.toks.length)

def Side.resolve (s : Side) (r : String) : Option (Option Tok) :=
  if r = "none" then some none
  else if r.startsWith "t" then
    (r.drop 1).toNat?.map (fun n => some ((s.toks[n]?).getD (.foreign (100000 + n))))
  else if r.startsWith "x" then (r.drop 1).toNat?.map (fun n => some (.foreign (200000 + n)))
  else none

def showTok (s : Side) (t : Option Tok) : Side × String :=
  match t with
  | none => (s, "T-")
  | some t => let (s, i) := s.ord t; (s, s!"T{i}")

def showErr : Err → String
  | .notFound => "err:notfound"
  | .exists => "err:exists"
  | .precond => "err:precond"
  | .notModified => "err:notmodified"
  | .generic => "err:generic"

def showMeta (s : Side) (m : Meta) : Side × String :=
  let (s, t) := showTok s m.tok
  (s, s!"{showKey m.path} size={m.size} tok={t} t=@{m.time}")

def sortMetas (ms : List Meta) : List Meta :=
  (ms.toArray.qsort (fun a b => pathLt a.path b.path)).toList

def sortPaths (ps : List Path) : List Path :=
  (ps.toArray.qsort (fun a b => pathLt a b)).toList

def showMetas (s : Side) (ms : List Meta) : Side × String :=
  let (s, parts) := (sortMetas ms).foldl (fun (acc : Side × List String) m =>
    let (s, str) := showMeta acc.1 m; (s, acc.2 ++ [str])) (s, [])
  (s, "[" ++ "; ".intercalate parts ++ "]")

def showOut (s : Side) (head : Bool) : Out → Side × String
  | .err e => (s, showErr e)
  | .unit => (s, "ok")
  | .put t => let (s, t) := showTok s t; (s, s!"ok tok={t}")
  | .got m rng data =>
      let (s, ms) := showMeta s m
      if head then (s, s!"ok {ms}") else (s, s!"ok {ms} range={rng.1}..{rng.2} data={showData data}")
  | .ranges bs => (s, "ok " ++ (if bs.isEmpty then "-" else ",".intercalate (bs.map showData)))
  | .listed ms => let (s, str) := showMetas s ms; (s, "ok " ++ str)
  | .listedDelim ps ms =>
      let (s, str) := showMetas s ms
      (s, "ok prefixes=[" ++ ",".intercalate ((sortPaths ps).map showKey) ++ "] objects=" ++ str)

structure St where
  w : W := W.init
  r : Ref := []
  ws : Side := {}
  rs : Side := {}
  calls : Nat := 0
  refTok : Nat := 0

def parseMode (s : Side) (m : String) : Option PutMode :=
  if m = "ow" then some .overwrite
  else if m = "cr" then some .create
  else
    match m.splitOn ":" with
    | ["up", t] => (s.resolve t).map (fun t => .update t false)
    | ["up", t, "v"] => (s.resolve t).map (fun t => .update t true)
    | _ => none

def parseCond (s : Side) (c : String) : Option TagCond :=
  if c = "*" then some .star
  else ((c.splitOn "+").mapM (fun t => (s.resolve t).bind id)).map .tags

def parseRange (r : String) : Option Range :=
  match r.splitOn ":" with
  | ["b", s, e] => do let s ← s.toNat?; let e ← e.toNat?; pure (.bounded s e)
  | ["o", n] => n.toNat?.map .offset
  | ["s", n] => n.toNat?.map .suffix
  | _ => none

/-- `<key>:<delta>`; `timeOf` gives the commit time of a present key. -/
def parseDate (timeOf : Path → Option Nat) (d : String) : Option Nat :=
  match d.splitOn ":" with
  | [k, dl] => do
      let k ← parseKey k
      let dl ← dl.toInt?
      let base : Int := ((timeOf k).getD 1 : Nat)
      pure (base + dl).toNat
  | _ => none

def parseGetOpts (s : Side) (timeOf : Path → Option Nat) : List String → GetOpts → Option GetOpts
  | [], o => some o
  | a :: rest, o =>
      if a = "head" then parseGetOpts s timeOf rest { o with head := true }
      else
        match a.splitOn "=" with
        | ["im", c] => (parseCond s c).bind (fun c => parseGetOpts s timeOf rest { o with ifMatch := some c })
        | ["inm", c] => (parseCond s c).bind (fun c => parseGetOpts s timeOf rest { o with ifNoneMatch := some c })
        | ["ims", d] => (parseDate timeOf d).bind (fun d => parseGetOpts s timeOf rest { o with ifModifiedSince := some d })
        | ["ius", d] => (parseDate timeOf d).bind (fun d => parseGetOpts s timeOf rest { o with ifUnmodifiedSince := some d })
        | ["r", r] => (parseRange r).bind (fun r => parseGetOpts s timeOf rest { o with range := some r })
        | _ => none

def parsePairs (s : String) : Option (List (Nat × Nat)) :=
  if s = "-" then some []
  else (s.splitOn ",").mapM (fun p =>
    match p.splitOn ":" with
    | [a, b] => do let a ← a.toNat?; let b ← b.toNat?; pure (a, b)
    | _ => none)

def splitParts (b : Bytes) : List Nat → List Bytes
  | [] => []
  | n :: ns => b.take n :: splitParts (b.drop n) ns

def parseCr (m : String) : Option Bool :=
  if m = "ow" then some false else if m = "cr" then some true else none

/-- parse a call for one side (tokens and dates are resolved per side) -/
def parseCall (s : Side) (timeOf : Path → Option Nat) : List String → Option (Call × Bool)
  | ["put", k, m, size, seed] => do
      let k ← parseKey k; let m ← parseMode s m; let size ← size.toNat?; let seed ← seed.toNat?
      pure (.put k m (genBytes seed size), false)
  | ["mput", k, sizes, seed] => do
      let k ← parseKey k; let sizes ← natList? sizes; let seed ← seed.toNat?
      pure (.mput k (splitParts (genBytes seed (sizes.foldl (· + ·) 0)) sizes), false)
  | "get" :: k :: opts => do
      let k ← parseKey k
      let o ← parseGetOpts s timeOf opts {}
      pure (.get k o, o.head)
  | ["ranges", k, rs] => do let k ← parseKey k; let rs ← parsePairs rs; pure (.getRanges k rs, false)
  | ["del", k] => do let k ← parseKey k; pure (.delete k, false)
  | ["copy", a, b, m] => do let a ← parseKey a; let b ← parseKey b; let m ← parseCr m; pure (.copy a b m, false)
  | ["ren", a, b, m] => do let a ← parseKey a; let b ← parseKey b; let m ← parseCr m; pure (.rename a b m, false)
  | ["list", p] => do let p ← parseKey p; pure (.list p none, false)
  | ["list", p, off] =>
      match off.splitOn "=" with
      | ["off", o] => do let p ← parseKey p; let o ← parseKey o; pure (.list p (some o), false)
      | _ => none
  | ["listd", p] => do let p ← parseKey p; pure (.listDelim p, false)
  | _ => none

def wTimeOf (w : W) (k : Path) : Option Nat := (readCold w.be k).map (·.time)
def rTimeOf (r : Ref) (k : Path) : Option Nat := (aget r k).map (·.time)

def parseFlavor (f : String) : Gen.SidecarOrder.Wrapper := if f = "e" then .encrypted else .metaStore

/-- the C07 part of the protocol; `none` when the line is not one of its operations -/
def stepC07 (st : St) (ws : List String) : Option (St × String) :=
  match ws with
  | "reset" :: f :: _ => some ({ w := { W.init with flavor := parseFlavor f } }, "ok || ok")
  | ["reopen"] => some ({ st with w := st.w.reopen }, "ok || ok")
  | ["legacy", k, size, seed] => do
      -- a pre-0.10 object behind the wrapper's back; on the reference side a plain put
      let k ← parseKey k; let size ← size.toNat?; let seed ← seed.toNat?
      let now := 3 * (st.calls + 1)
      let data := genBytes seed size
      pure ({ st with w := legacyPut st.w now k data (.put 0 data),
                      r := aset st.r k ⟨data, .foreign st.refTok, now⟩,
                      calls := st.calls + 1, refTok := st.refTok + 1 }, "ok || ok")
  | _ =>
      -- `via-b <op>`: through a second, freshly opened instance B over the same backend; instance A
      -- keeps its metadata cache (possibly stale afterwards)
      let viaB := decide (ws.head? = some "via-b")
      let ws := if viaB then ws.drop 1 else ws
      match parseCall st.ws (wTimeOf st.w) ws, parseCall st.rs (rTimeOf st.r) ws with
      | some (cw, head), some (cr, _) =>
          let now := 3 * (st.calls + 1)
          let (w', ow) :=
            if viaB then
              let r := wStep { st.w with cache := [] } now cw
              ({ r.1 with cache := st.w.cache }, r.2)
            else wStep st.w now cw
          let (r', or) := refStep st.r (.foreign st.refTok) now cr
          let (wside, sw) := showOut st.ws head ow
          let (rside, sr) := showOut st.rs head or
          some ({ st with w := w', r := r', ws := wside, rs := rside, calls := st.calls + 1, refTok := st.refTok + 1 },
                sw ++ " || " ++ sr)
      | _, _ => none

end AndaVerif.ObjStoreProto

namespace AndaVerif.ObjStoreProto
open AndaVerif.ObjStore AndaVerif.Drv

/-! ### C08 additions
  legacy <key> <size> <seed>     a pre-0.10 object written straight into the backend (data/<k>, then meta/<k> without
                                 generation), followed by a re-open of the wrapper
  crash <n> <op…>                the op is cut after its first n backend steps; restart with a cold cache → `crashed`
  steps <op…>                    `n=<number of backend steps of the op in the current state>`
  gc                             collect_garbage → `ok <deleted>`
  dump                           surviving backend objects, canonical: `ok m=[keys] d=[keys] g=[key:count,…]`
-/

def sortKeys (ks : List Path) : List Path := sortPaths ks

def dumpBackend (be : Backend) : String :=
  let ms := be.filterMap (fun pe => match pe.1 with | .mt k => some k | _ => none)
  let ds := be.filterMap (fun pe => match pe.1 with | .data k => some k | _ => none)
  let gs := be.filterMap (fun pe => match pe.1 with | .gen k _ => some k | _ => none)
  let gk := sortKeys (dedupPaths gs)
  let showL (l : List Path) := "[" ++ ",".intercalate ((sortKeys l).map showKey) ++ "]"
  "ok m=" ++ showL ms ++ " d=" ++ showL ds ++ " g=[" ++
    ",".intercalate (gk.map (fun k => s!"{showKey k}:{(gs.filter (· == k)).length}")) ++ "]"

def firstCol (s : String) : String := (s.splitOn " || ").headD s

def stepC08 (st : St) (ws : List String) : Option (St × String) :=
  let now := 3 * (st.calls + 1)
  match ws with
  | "crash" :: n :: op => do
      let n ← n.toNat?
      let (c, _) ← parseCall st.ws (wTimeOf st.w) op
      pure ({ st with w := { (crashState st.w now c n) with nextId := st.w.nextId + 1 }, calls := st.calls + 1 }, "crashed")
  | "steps" :: op => do
      let (c, _) ← parseCall st.ws (wTimeOf st.w) op
      pure (st, s!"n={(stepsOf st.w now c).length}")
  | ["gc"] =>
      let (w', n) := gcRun st.w now
      some ({ st with w := w', calls := st.calls + 1 }, s!"ok {n}")
  | ["dump"] => some (st, dumpBackend st.w.be)
  | _ => (stepC07 st ws).map (fun r => (r.1, firstCol r.2))

end AndaVerif.ObjStoreProto
