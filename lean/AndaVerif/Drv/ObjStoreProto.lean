import AndaVerif.Model.ObjStore
import AndaVerif.Drv.Util
/-
Line protocol shared by the C07 and C08 drivers (model of `anda_object_store`).

Keys are `/`-joined segment indices (`0`, `0/2`, …), `-` is the empty prefix.
  reset m|e                                   fresh wrapper (MetaStore / EncryptedStore flavour) + fresh reference
  put <key> ow|cr|up:<tok>[:v] <size> <seed>  tok ::= t<n> (n-th token seen so far) | x<n> (never issued) | none
  mput <key> <n1,n2,…> <seed>                 multipart: parts of the given sizes, then complete
  get <key> [im=<c>] [inm=<c>] [ims=<d>] [ius=<d>] [r=b:<s>:<e>|o:<n>|s:<n>] [head]
                                              c ::= * | tok+tok+… ; d ::= <key>:<delta>  (time of that key's commit + delta)
  ranges <key> <s>:<e>,<s>:<e>,… | -
  del <key> · copy <src> <dst> ow|cr · ren <src> <dst> ow|cr
  list <pre> [off=<key>] · listd <pre>
  reopen                                      cold metadata cache
  via-b <op>                                  the op through a second, freshly opened wrapper instance over the same backend
  mabort <key> <n1,n2,…> <seed> · mdrop …     multipart: parts, then `abort` / the upload is dropped without `complete`
  dels <key>,<key>,…                          one `delete_stream` over several locations → `ok [<answer>,…]` in input order
  entry points of `ObjectStoreExt` (same model call, the convenience spelling on the implementation):
    put-x <key> <size> <seed> = put · head <key> = head · getr <key> <s> <e> = get_range (answer: `ok data=…`)
    copy-x / copy-ine <src> <dst> = copy / copy_if_not_exists · ren-x / ren-ine <src> <dst> = rename / rename_if_not_exists
  coverage                                    `cov <tag>=<count> …`: which branches of the model the run visited (all tags, zeros included)
Answer: `<wrapper model answer> || <reference model answer>`; tokens as first-occurrence ordinals
`T<n>` (per side), times raw `@<n>` (the harness ranks them), data as `<len>:<fnv64>`.
-/
open AndaVerif.ObjStore AndaVerif.Drv

namespace AndaVerif.ObjStoreProto

def genBytes (seed size : Nat) : Bytes :=
  (List.range size).map (fun i => (seed * 131 + i * 7 + (i / 256) * 13 + 1) % 256)

def fnv (b : Bytes) : UInt64 :=
  b.foldl (fun h x => (h ^^^ x.toUInt64) * 0x00000100000001B3) 0xcbf29ce484222325

def showData (b : Bytes) : String := s!"{b.length}:{(fnv b).toNat}"

def parseKey (s : String) : Option Path :=
  if s = "-" then some [] else (s.splitOn "/").mapM String.toNat?

def showKey (k : Path) : String :=
  if k.isEmpty then "-" else "/".intercalate (k.map toString)

structure Side where
  toks : List Tok := []

def Side.ord (s : Side) (t : Tok) : Side × Nat :=
  match s.toks.idxOf? t with
  | some i => (s, i)
  | none => ({ toks := s.toks ++ [t] }, s.toks.length)

def Side.resolve (s : Side) (r : String) : Option (Option Tok) :=
  if r = "none" then some none
  else if r.startsWith "t" then
    (r.drop 1).toNat?.map (fun n => some ((s.toks[n]?).getD (.foreign (100000 + n))))
  else if r.startsWith "x" then (r.drop 1).toNat?.map (fun n => some (.foreign (200000 + n)))
  else none

def showTok (s : Side) (t : Option Tok) : Side × String :=
  match t with
  | none => (s, "T-")
  | some t => let (s, i) := s.ord t; (s, s!"T{i}")

def showErr : Err → String
  | .notFound => "err:notfound"
  | .exists => "err:exists"
  | .precond => "err:precond"
  | .notModified => "err:notmodified"
  | .generic => "err:generic"

def showMeta (s : Side) (m : Meta) : Side × String :=
  let (s, t) := showTok s m.tok
  (s, s!"{showKey m.path} size={m.size} tok={t} t=@{m.time}")

def sortMetas (ms : List Meta) : List Meta :=
  (ms.toArray.qsort (fun a b => pathLt a.path b.path)).toList

def sortPaths (ps : List Path) : List Path :=
  (ps.toArray.qsort (fun a b => pathLt a b)).toList

def showMetas (s : Side) (ms : List Meta) : Side × String :=
  let (s, parts) := (sortMetas ms).foldl (fun (acc : Side × List String) m =>
    let (s, str) := showMeta acc.1 m; (s, acc.2 ++ [str])) (s, [])
  (s, "[" ++ "; ".intercalate parts ++ "]")

def showOut (s : Side) (head : Bool) : Out → Side × String
  | .err e => (s, showErr e)
  | .unit => (s, "ok")
  | .put t => let (s, t) := showTok s t; (s, s!"ok tok={t}")
  | .got m rng data =>
      let (s, ms) := showMeta s m
      if head then (s, s!"ok {ms}") else (s, s!"ok {ms} range={rng.1}..{rng.2} data={showData data}")
  | .ranges bs => (s, "ok " ++ (if bs.isEmpty then "-" else ",".intercalate (bs.map showData)))
  | .listed ms => let (s, str) := showMetas s ms; (s, "ok " ++ str)
  | .listedDelim ps ms =>
      let (s, str) := showMetas s ms
      (s, "ok prefixes=[" ++ ",".intercalate ((sortPaths ps).map showKey) ++ "] objects=" ++ str)

structure St where
  w : W := W.init
  r : Ref := []
  ws : Side := {}
  rs : Side := {}
  calls : Nat := 0
  refTok : Nat := 0
  cov : List (String × Nat) := []

def parseMode (s : Side) (m : String) : Option PutMode :=
  if m = "ow" then some .overwrite
  else if m = "cr" then some .create
  else
    match m.splitOn ":" with
    | ["up", t] => (s.resolve t).map (fun t => .update t false)
    | ["up", t, "v"] => (s.resolve t).map (fun t => .update t true)
    | _ => none

def parseCond (s : Side) (c : String) : Option TagCond :=
  if c = "*" then some .star
  else ((c.splitOn "+").mapM (fun t => (s.resolve t).bind id)).map .tags

def parseRange (r : String) : Option Range :=
  match r.splitOn ":" with
  | ["b", s, e] => do let s ← s.toNat?; let e ← e.toNat?; pure (.bounded s e)
  | ["o", n] => n.toNat?.map .offset
  | ["s", n] => n.toNat?.map .suffix
  | _ => none

/-- `<key>:<delta>`; `timeOf` gives the commit time of a present key. -/
def parseDate (timeOf : Path → Option Nat) (d : String) : Option Nat :=
  match d.splitOn ":" with
  | [k, dl] => do
      let k ← parseKey k
      let dl ← dl.toInt?
      let base : Int := ((timeOf k).getD 1 : Nat)
      pure (base + dl).toNat
  | _ => none

def parseGetOpts (s : Side) (timeOf : Path → Option Nat) : List String → GetOpts → Option GetOpts
  | [], o => some o
  | a :: rest, o =>
      if a = "head" then parseGetOpts s timeOf rest { o with head := true }
      else
        match a.splitOn "=" with
        | ["im", c] => (parseCond s c).bind (fun c => parseGetOpts s timeOf rest { o with ifMatch := some c })
        | ["inm", c] => (parseCond s c).bind (fun c => parseGetOpts s timeOf rest { o with ifNoneMatch := some c })
        | ["ims", d] => (parseDate timeOf d).bind (fun d => parseGetOpts s timeOf rest { o with ifModifiedSince := some d })
        | ["ius", d] => (parseDate timeOf d).bind (fun d => parseGetOpts s timeOf rest { o with ifUnmodifiedSince := some d })
        | ["r", r] => (parseRange r).bind (fun r => parseGetOpts s timeOf rest { o with range := some r })
        | _ => none

def parsePairs (s : String) : Option (List (Nat × Nat)) :=
  if s = "-" then some []
  else (s.splitOn ",").mapM (fun p =>
    match p.splitOn ":" with
    | [a, b] => do let a ← a.toNat?; let b ← b.toNat?; pure (a, b)
    | _ => none)

def splitParts (b : Bytes) : List Nat → List Bytes
  | [] => []
  | n :: ns => b.take n :: splitParts (b.drop n) ns

def parseCr (m : String) : Option Bool :=
  if m = "ow" then some false else if m = "cr" then some true else none

/-- parse a call for one side (tokens and dates are resolved per side) -/
def parseCall (s : Side) (timeOf : Path → Option Nat) : List String → Option (Call × Bool)
  | ["put", k, m, size, seed] => do
      let k ← parseKey k; let m ← parseMode s m; let size ← size.toNat?; let seed ← seed.toNat?
      pure (.put k m (genBytes seed size), false)
  | ["mput", k, sizes, seed] => do
      let k ← parseKey k; let sizes ← natList? sizes; let seed ← seed.toNat?
      pure (.mput k (splitParts (genBytes seed (sizes.foldl (· + ·) 0)) sizes), false)
  | "get" :: k :: opts => do
      let k ← parseKey k
      let o ← parseGetOpts s timeOf opts {}
      pure (.get k o, o.head)
  | ["ranges", k, rs] => do let k ← parseKey k; let rs ← parsePairs rs; pure (.getRanges k rs, false)
  | ["del", k] => do let k ← parseKey k; pure (.delete k, false)
  | ["copy", a, b, m] => do let a ← parseKey a; let b ← parseKey b; let m ← parseCr m; pure (.copy a b m, false)
  | ["ren", a, b, m] => do let a ← parseKey a; let b ← parseKey b; let m ← parseCr m; pure (.rename a b m, false)
  | ["list", p] => do let p ← parseKey p; pure (.list p none, false)
  | ["list", p, off] =>
      match off.splitOn "=" with
      | ["off", o] => do let p ← parseKey p; let o ← parseKey o; pure (.list p (some o), false)
      | _ => none
  | ["listd", p] => do let p ← parseKey p; pure (.listDelim p, false)
  | _ => none

/-- answer style: 0 = full, 1 = head (metadata only), 2 = bytes only (`get_range`) -/
abbrev Style := Nat

/-- the `ObjectStoreExt` spellings, rewritten to the `*_opts` call they are defined as -/
def normalize : List String → List String × Option Style
  | ["put-x", k, size, seed] => (["put", k, "ow", size, seed], none)
  | ["head", k] => (["get", k, "head"], none)
  | ["getr", k, s, e] => (["get", k, s!"r=b:{s}:{e}"], some 2)
  | ["copy-x", a, b] => (["copy", a, b, "ow"], none)
  | ["copy-ine", a, b] => (["copy", a, b, "cr"], none)
  | ["ren-x", a, b] => (["ren", a, b, "ow"], none)
  | ["ren-ine", a, b] => (["ren", a, b, "cr"], none)
  | ws => (ws, none)

def showOutStyle (s : Side) (style : Style) (o : Out) : Side × String :=
  match style, o with
  | 2, .got _ _ data => (s, s!"ok data={showData data}")
  | 1, o => showOut s true o
  | _, o => showOut s false o

/-! ### coverage of the model's branches under the correspondence run -/

def bump (cov : List (String × Nat)) (tag : String) : List (String × Nat) :=
  match cov.find? (·.1 == tag) with
  | some _ => cov.map (fun p => if p.1 == tag then (p.1, p.2 + 1) else p)
  | none => cov ++ [(tag, 1)]

def outKind : Out → String
  | .err .notFound => "notfound" | .err .exists => "exists" | .err .precond => "precond"
  | .err .notModified => "notmodified" | .err .generic => "generic" | _ => "ok"

def pa (b : Bool) : String := if b then "present" else "absent"
def cnt (n : Nat) : String := if n = 0 then "0" else if n = 1 then "1" else "2+"

def tri (c : Option Bool) : String := match c with | none => "-" | some true => "P" | some false => "F"

/-- the row of the precondition decision table a `get` falls into, against the commit a cold read resolves -/
def precondRow (o : GetOpts) (cur : Option Tok) (lm : Option Nat) : String :=
  tri (o.ifMatch.map (fun m => tagMatches m cur)) ++ tri (o.ifNoneMatch.map (fun m => !tagMatches m cur)) ++
  tri (o.ifUnmodifiedSince.bind (fun d => lm.map (fun t => decide (t ≤ d)))) ++
  tri (o.ifModifiedSince.bind (fun d => lm.map (fun t => decide (t > d))))

def rangeTag (r : Option Range) (size : Nat) : String :=
  match r with
  | none => "none"
  | some r =>
      let kind := match r with | .bounded .. => "bounded" | .offset _ => "offset" | .suffix _ => "suffix"
      let res := match r, asRange r size with
        | _, .error _ => "err"
        | .bounded _ e, .ok _ => if e > size then "clipped" else "ok"
        | .suffix n, .ok _ => if n > size then "clipped" else "ok"
        | _, .ok _ => "ok"
      kind ++ ":" ++ res

def docOf (be : Backend) (k : Path) : Option Doc :=
  match aget be (.mt k) with
  | some ⟨.doc d, _⟩ => some d
  | _ => none

def covTags (w : W) (c : Call) (out : Out) : List String :=
  let present (k : Path) := (readCold w.be k).isSome
  match c with
  | .put k mode _ =>
      let m := match mode with | .overwrite => "ow" | .create => "cr" | .update none _ => "up-none" | .update _ true => "up-version" | .update _ false => "up"
      [s!"put:{m}:{pa (present k)}:{outKind out}"]
  | .mput k parts => [s!"mput:{pa (present k)}:parts{cnt parts.length}"]
  | .get k o =>
      let d := docOf w.be k
      let cache := match aget w.cache k, d with
        | none, _ => "miss"
        | some c, some d => if c = d then "hit" else "stale"
        | some _, none => "stale"
      match d with
      | none => [s!"get:absent:{outKind out}", s!"get:cache:{cache}"]
      | some d =>
          [s!"get:row:{precondRow o d.etag (logicalLM d)}", s!"get:out:{outKind out}", s!"get:cache:{cache}",
           s!"get:range:{rangeTag o.range d.size}", if o.head then "get:head" else "get:body"]
  | .getRanges k rs =>
      let shape := if rs.isEmpty then "empty" else
        match docOf w.be k with
        | some d => (match validateRanges d.size rs with | .ok _ => "valid" | .error _ => "invalid")
        | none => "any"
      [s!"ranges:{shape}:{pa (present k)}:{outKind out}"]
  | .delete k => [s!"del:{pa (present k)}"]
  | .copy a b cr => [s!"copy:{if cr then "cr" else "ow"}:src-{pa (present a)}:dst-{pa (present b)}:{if a = b then "self" else "other"}"]
  | .rename a b cr => [s!"ren:{if cr then "cr" else "ow"}:src-{pa (present a)}:dst-{pa (present b)}:{if a = b then "self" else "other"}"]
  | .list _ off => [s!"list:{if off.isSome then "off" else "nooff"}:n{match out with | .listed ms => cnt ms.length | _ => "err"}"]
  | .listDelim _ =>
      [match out with
       | .listedDelim ps ms => s!"listd:prefixes{cnt ps.length}:objects{cnt ms.length}"
       | _ => "listd:err"]

def opKind : Call → String
  | .put .. => "put" | .mput .. => "mput" | .get .. => "get" | .getRanges .. => "ranges" | .delete _ => "del"
  | .copy .. => "copy" | .rename .. => "ren" | .list .. => "list" | .listDelim _ => "listd"

/-- the tags a thorough run is expected to visit (printed with their counts, zeros included) -/
def allTags : List String :=
  let t3 := ["-", "P", "F"]
  let rows := t3.flatMap fun a => t3.flatMap fun b => t3.flatMap fun c => t3.map fun d => s!"get:row:{a}{b}{c}{d}"
  let pas := ["present", "absent"]
  rows ++
  ["get:out:ok", "get:out:precond", "get:out:notmodified", "get:out:generic", "get:absent:notfound",
   "get:cache:hit", "get:cache:miss", "get:cache:stale", "get:head", "get:body",
   "get:range:none", "get:range:bounded:ok", "get:range:bounded:clipped", "get:range:bounded:err",
   "get:range:offset:ok", "get:range:offset:err", "get:range:suffix:ok", "get:range:suffix:clipped",
   "put:ow:present:ok", "put:ow:absent:ok", "put:cr:present:exists", "put:cr:absent:ok",
   "put:up:present:ok", "put:up:present:precond", "put:up:absent:precond", "put:up-none:present:precond",
   "put:up-none:absent:precond", "put:up-version:present:precond", "put:up-version:absent:precond",
   "ranges:empty:present:ok", "ranges:empty:absent:ok", "ranges:valid:present:ok", "ranges:invalid:present:generic",
   "ranges:any:absent:notfound", "del:present", "del:absent",
   "gc:deleted0", "gc:deleted1", "gc:deleted2+", "gccrash:cut", "gccrash:complete", "abort", "legacy", "reopen", "via-b",
   "dels:n0", "dels:n1", "dels:n2+"] ++
  (["put", "mput", "del", "copy", "ren"].flatMap fun o => ["0", "mid", "full"].map fun c => s!"crash:{o}:cut-{c}") ++
  (pas.flatMap fun k => ["0", "1", "2+"].map fun n => s!"mput:{k}:parts{n}") ++
  (["copy", "ren"].flatMap fun o => ["ow", "cr"].flatMap fun m => pas.flatMap fun a => pas.flatMap fun b =>
    ["self", "other"].filterMap fun sf =>
      -- a self copy / rename has one key: source and target presence coincide
      if sf = "self" ∧ a ≠ b then none else some s!"{o}:{m}:src-{a}:dst-{b}:{sf}") ++
  (["off", "nooff"].flatMap fun o => ["0", "1", "2+"].map fun n => s!"list:{o}:n{n}") ++
  (["0", "1", "2+"].flatMap fun a => ["0", "1", "2+"].map fun b => s!"listd:prefixes{a}:objects{b}")

def showCov (cov : List (String × Nat)) : String :=
  let known := allTags.map (fun t => (t, ((cov.find? (·.1 == t)).map (·.2)).getD 0))
  let extra := cov.filter (fun p => !allTags.contains p.1)
  "cov " ++ " ".intercalate ((known ++ extra).map (fun p => s!"{p.1}={p.2}"))

def wTimeOf (w : W) (k : Path) : Option Nat := (readCold w.be k).map (·.time)
def rTimeOf (r : Ref) (k : Path) : Option Nat := (aget r k).map (·.time)

def parseFlavor (f : String) : Gen.SidecarOrder.Wrapper := if f = "e" then .encrypted else .metaStore

/-- one call of the alphabet (possibly `via-b`, possibly an `ObjectStoreExt` spelling) on both models -/
def stepCall (st : St) (ws : List String) : Option (St × String) :=
  -- `via-b <op>`: through a second, freshly opened instance B over the same backend; instance A
  -- keeps its metadata cache (possibly stale afterwards)
  let viaB := decide (ws.head? = some "via-b")
  let ws := if viaB then ws.drop 1 else ws
  let (ws, style) := normalize ws
  match parseCall st.ws (wTimeOf st.w) ws, parseCall st.rs (rTimeOf st.r) ws with
  | some (cw, head), some (cr, _) =>
      let style : Style := style.getD (if head then 1 else 0)
      let now := 3 * (st.calls + 1)
      let (w', ow) :=
        if viaB then
          let r := wStep { st.w with cache := [] } now cw
          ({ r.1 with cache := st.w.cache }, r.2)
        else wStep st.w now cw
      let (r', or) := refStep st.r (.foreign st.refTok) now cr
      let (wside, sw) := showOutStyle st.ws style ow
      let (rside, sr) := showOutStyle st.rs style or
      let cov := (covTags (if viaB then { st.w with cache := [] } else st.w) cw ow).foldl bump st.cov
      let cov := if viaB then bump cov "via-b" else cov
      some ({ st with w := w', r := r', ws := wside, rs := rside, calls := st.calls + 1, refTok := st.refTok + 1, cov := cov },
            sw ++ " || " ++ sr)
  | _, _ => none

/-- the C07 part of the protocol; `none` when the line is not one of its operations -/
def stepC07 (st : St) (ws : List String) : Option (St × String) :=
  match ws with
  | "reset" :: f :: _ => some ({ w := { W.init with flavor := parseFlavor f }, cov := st.cov }, "ok || ok")
  | ["reopen"] => some ({ st with w := st.w.reopen, cov := bump st.cov "reopen" }, "ok || ok")
  | ["legacy", k, size, seed] => do
      -- a pre-0.10 object behind the wrapper's back; on the reference side a plain put
      let k ← parseKey k; let size ← size.toNat?; let seed ← seed.toNat?
      let now := 3 * (st.calls + 1)
      let data := genBytes seed size
      pure ({ st with w := legacyPut st.w now k data (.put 0 data),
                      r := aset st.r k ⟨data, .foreign st.refTok, now⟩,
                      calls := st.calls + 1, refTok := st.refTok + 1, cov := bump st.cov "legacy" }, "ok || ok")
  | ["coverage"] => some (st, showCov st.cov)
  | [op, k, sizes, seed] =>
      if op = "mabort" ∨ op = "mdrop" then do
        let _ ← parseKey k; let _ ← natList? sizes; let _ ← seed.toNat?
        pure ({ st with w := abortUpload st.w, calls := st.calls + 1, cov := bump st.cov "abort" }, "ok || ok")
      else stepCall st ws
  | ["dels", ks] => do
      let ks ← (if ks = "-" then some [] else (ks.splitOn ",").mapM parseKey)
      let r := ks.foldl (fun (acc : St × List String × List String) k =>
        let st := acc.1
        let now := 3 * (st.calls + 1)
        let (w', ow) := wStep st.w now (.delete k)
        let (r', or) := refStep st.r (.foreign st.refTok) now (.delete k)
        ({ st with w := w', r := r', calls := st.calls + 1, refTok := st.refTok + 1,
                   cov := (covTags st.w (.delete k) ow).foldl bump st.cov },
         acc.2.1 ++ [(showOut st.ws false ow).2], acc.2.2 ++ [(showOut st.rs false or).2])) (st, [], [])
      pure ({ r.1 with cov := bump r.1.cov s!"dels:n{cnt ks.length}" },
            "ok [" ++ ",".intercalate r.2.1 ++ "] || ok [" ++ ",".intercalate r.2.2 ++ "]")
  | _ => stepCall st ws

end AndaVerif.ObjStoreProto

namespace AndaVerif.ObjStoreProto
open AndaVerif.ObjStore AndaVerif.Drv

/-! ### C08 additions
  legacy <key> <size> <seed>     a pre-0.10 object written straight into the backend (data/<k>, then meta/<k> without
                                 generation), followed by a re-open of the wrapper
  crash <n> <op…>                the op is cut after its first n backend steps; restart with a cold cache → `crashed`
  crash <n> gc                   collect_garbage dies after n of its deletions; restart with a cold cache → `crashed`
  steps <op…>                    `n=<number of backend steps of the op in the current state>`
  gc                             collect_garbage → `ok <deleted>`
  dump                           surviving backend objects, canonical: `ok m=[keys] d=[keys] g=[key:count,…]`
-/

def sortKeys (ks : List Path) : List Path := sortPaths ks

def dumpBackend (be : Backend) : String :=
  let ms := be.filterMap (fun pe => match pe.1 with | .mt k => some k | _ => none)
  let ds := be.filterMap (fun pe => match pe.1 with | .data k => some k | _ => none)
  let gs := be.filterMap (fun pe => match pe.1 with | .gen k _ => some k | _ => none)
  let gk := sortKeys (dedupPaths gs)
  let showL (l : List Path) := "[" ++ ",".intercalate ((sortKeys l).map showKey) ++ "]"
  "ok m=" ++ showL ms ++ " d=" ++ showL ds ++ " g=[" ++
    ",".intercalate (gk.map (fun k => s!"{showKey k}:{(gs.filter (· == k)).length}")) ++ "]"

def firstCol (s : String) : String := (s.splitOn " || ").headD s

def stepC08 (st : St) (ws : List String) : Option (St × String) :=
  let now := 3 * (st.calls + 1)
  match ws with
  | ["crash", n, "gc"] => do
      let n ← n.toNat?
      let tag := if (gcRun st.w now).2 ≤ n then "gccrash:complete" else "gccrash:cut"
      pure ({ st with w := gcCrashState st.w now n, calls := st.calls + 1, cov := bump st.cov tag }, "crashed")
  | "crash" :: n :: op => do
      let n ← n.toNat?
      let (c, _) ← parseCall st.ws (wTimeOf st.w) (normalize op).1
      let len := (stepsOf st.w now c).length
      let tag := s!"crash:{opKind c}:cut-{if n = 0 then "0" else if n < len then "mid" else "full"}"
      pure ({ st with w := { (crashState st.w now c n) with nextId := st.w.nextId + 1 }, calls := st.calls + 1,
                      cov := bump st.cov tag }, "crashed")
  | "steps" :: op => do
      let (c, _) ← parseCall st.ws (wTimeOf st.w) (normalize op).1
      pure (st, s!"n={(stepsOf st.w now c).length}")
  | ["gc"] =>
      let (w', n) := gcRun st.w now
      some ({ st with w := w', calls := st.calls + 1, cov := bump st.cov s!"gc:deleted{cnt n}" }, s!"ok {n}")
  | ["dump"] => some (st, dumpBackend st.w.be)
  | _ => (stepC07 st ws).map (fun r => (r.1, firstCol r.2))

end AndaVerif.ObjStoreProto
