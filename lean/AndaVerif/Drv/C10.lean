import AndaVerif.Model.BTree
import AndaVerif.Model.BTreeFlush
import AndaVerif.Model.Prefix
import AndaVerif.Model.BTreeConc
import AndaVerif.Model.BTreePack
import AndaVerif.Model.BTreeVol
import AndaVerif.Drv.Util
/-
Line-protocol driver of the C10 model (`drv_c10`). One request line in, one response line out.

L1 (API):  new U | ins D K | rem D K | insa D KS | rema D KS | upd D OLD NEW | get K | len
           | keys C L | rq asc|desc N|- all|odd|cnt QUERY… | stats
QUERY (prefix):  eq K | gt K | ge K | lt K | le K | btw A B | in KS | or N q…  | and N q… | not q
                 | deep N q      (q wrapped in N `Not`s)
KS = comma list or `-`.

L2 (durable side; the writes are the ones the harness recorded from the real flush, decoded):
  flw K|- WRITE…   a flush whose first K writes (all if `-`) reach the store. Response:
                   `shape:b strict:b vol:b ci:N new:b | dump_0 | … | dump_n` (model `load` of every prefix)
  flp WRITE…       the bucket PUTs of a flush that failed before its commit (all applied).
                   Response: `fresh:b | dump`
  reload           the index is dropped and loaded from the store (fresh index if no metadata)
  legacy | stale B K IDS    store surgery (see `Model/BTreeFlush`)
  dump             the current contents
Threads (L3; the schedule is the one the explorer drove the real threads through):
  sched U INIT T PROG T PROG … S STEPS
    INIT  = `k=ids;…` or `-`;  PROG = ops joined by `,`: `i:d:k:spill` | `r:d:k` | `c:skip`, or `-`
    STEPS = `tid>tag` joined by `,`; tag = where the thread parked after the action:
            i1 i2 i3 i4 r1 r2 r3 c1 c2 c3, `n` (the `.0` point of its next operation), `e` (finished)
    Response: `ok res R0|R1|… final DUMP q:b wf:b` (per-thread results `ok:b`, `err:exists`, `rm:b`, `c`),
              or `err:disabled:N` / `err:tag:N:TAG` when the model cannot follow step N.
Packing:  pack LIMIT k:size,k:size…   → the bins of `BTreePack.ffd` in order, `k,k|k|…` (keys ascending inside a bin)
String-keyed index (prefix queries; keys are hex of the UTF-8 bytes, `-` = empty string):
  sins D HEX | srem D HEX | pq N|- all|odd HEX
WRITE = `P b g PAYLOAD` | `M version maxb ins del qc MANIFEST` | `D b g`;
PAYLOAD = `k=ids;k=ids…` or `-` (ids `-` = empty posting); MANIFEST = `b=g,b=g…` or `-`.
-/
namespace AndaVerif.Drv.C10
open AndaVerif AndaVerif.Drv AndaVerif.BTree

partial def parseQ : List String → Option (RQ Int × List String)
  | "eq" :: k :: r => k.toInt?.map (fun k => (.eq k, r))
  | "gt" :: k :: r => k.toInt?.map (fun k => (.gt k, r))
  | "ge" :: k :: r => k.toInt?.map (fun k => (.ge k, r))
  | "lt" :: k :: r => k.toInt?.map (fun k => (.lt k, r))
  | "le" :: k :: r => k.toInt?.map (fun k => (.le k, r))
  | "btw" :: a :: b :: r => do
    let a ← a.toInt?
    let b ← b.toInt?
    pure (.between a b, r)
  | "in" :: ks :: r => (intList? ks).map (fun ks => (.incl ks, r))
  | "or" :: n :: r => do
    let n ← n.toNat?
    let (qs, r) ← parseQs n r
    pure (.or qs, r)
  | "and" :: n :: r => do
    let n ← n.toNat?
    let (qs, r) ← parseQs n r
    pure (.and qs, r)
  | "not" :: r => do
    let (q, r) ← parseQ r
    pure (.not q, r)
  | "deep" :: n :: r => do
    let n ← n.toNat?
    let (q, r) ← parseQ r
    pure (Nat.repeat RQ.not n q, r)
  | _ => none
where
  parseQs : Nat → List String → Option (List (RQ Int) × List String)
    | 0, r => some ([], r)
    | n + 1, r => do
      let (q, r) ← parseQ r
      let (qs, r) ← parseQs n r
      pure (q :: qs, r)

def optInt? (s : String) : Option (Option Int) := if s = "-" then some none else s.toInt?.map some
def optNat? (s : String) : Option (Option Nat) := if s = "-" then some none else s.toNat?.map some

def parseOp (ws : List String) : Option Op :=
  match ws with
  | ["ins", d, k] => do pure (.insert (← d.toNat?) (← k.toInt?))
  | ["rem", d, k] => do pure (.remove (← d.toNat?) (← k.toInt?))
  | ["insa", d, ks] => do pure (.insertArray (← d.toNat?) (← intList? ks))
  | ["rema", d, ks] => do pure (.removeArray (← d.toNat?) (← intList? ks))
  | ["upd", d, o, n] => do pure (.batchUpdate (← d.toNat?) (← intList? o) (← intList? n))
  | ["get", k] => do pure (.get (← k.toInt?))
  | ["len"] => some .len
  | ["keys", c, l] => do pure (.keys (← optInt? c) (← optNat? l))
  | ["stats"] => some .stats
  | "rq" :: dir :: n :: mode :: q => do
    let desc ← (if dir = "asc" then some false else if dir = "desc" then some true else none)
    let stop ← optNat? n
    let odd ← (if mode = "all" then some EmitMode.all else if mode = "odd" then some EmitMode.odd
               else if mode = "cnt" then some EmitMode.cnt else none)
    let (q, r) ← parseQ q
    if r.isEmpty then pure (.range desc stop odd q) else none
  | _ => none

/-- Posting order (append / swap-remove in the code) is not part of the property: ids are printed
ascending, here and in the harness. -/
def insNat (x : Nat) : List Nat → List Nat
  | [] => [x]
  | y :: ys => if x ≤ y then x :: y :: ys else y :: insNat x ys
def sortNats (xs : List Nat) : List Nat := xs.foldr insNat []

/-- ids ascending inside each run of one key; the order of the runs is kept -/
partial def canonPairs : List (Int × Nat) → List (Int × Nat)
  | [] => []
  | (k, d) :: r =>
    let run := r.takeWhile (fun e => e.1 == k)
    let rest := r.dropWhile (fun e => e.1 == k)
    (sortNats (d :: run.map (·.2))).map (fun d => (k, d)) ++ canonPairs rest

def showOut : Out → String
  | .ok b => if b then "ok:1" else "ok:0"
  | .errExists => "err:exists"
  | .removed b => if b then "1" else "0"
  | .okN n => s!"ok:{n}"
  | .n n => toString n
  | .okPair r i => s!"ok:{r},{i}"
  | .posting none => "none"
  | .posting (some p) => "some:" ++ showNats (sortNats p)
  | .keys ks => showInts ks
  | .pairs ps => if ps.isEmpty then "-" else ",".intercalate ((canonPairs ps).map (fun (k, d) => s!"{k}:{d}"))
  | .stats i d q l => s!"{i},{d},{q},{l}"

open AndaVerif.BTreeFlush in
def parsePayload (s : String) : Option Payload :=
  if s = "-" then some []
  else (s.splitOn ";").mapM (fun e =>
    match e.splitOn "=" with
    | [k, ids] => do pure ((← k.toInt?), (← natList? ids))
    | _ => none)

def parseManifest (s : String) : Option (List (Nat × Nat)) :=
  if s = "-" then some []
  else (s.splitOn ",").mapM (fun e =>
    match e.splitOn "=" with
    | [b, g] => do pure ((← b.toNat?), (← g.toNat?))
    | _ => none)

open AndaVerif.BTreeFlush in
def parseWrites : Nat → List String → Option (List Write)
  | _, [] => some []
  | 0, _ => none
  | fuel + 1, "P" :: b :: g :: p :: r => do
    let w := Write.putObj ((← b.toNat?), (← g.toNat?)) (← parsePayload p)
    pure (w :: (← parseWrites fuel r))
  | fuel + 1, "M" :: v :: mb :: i :: d :: q :: mf :: r => do
    let m : Meta := { version := (← v.toNat?), maxBucket := (← mb.toNat?), manifest := (← parseManifest mf),
                      insertCount := (← i.toNat?), deleteCount := (← d.toNat?), queryCount := (← q.toNat?) }
    pure (Write.putMeta m :: (← parseWrites fuel r))
  | fuel + 1, "D" :: b :: g :: r => do
    pure (Write.delObj ((← b.toNat?), (← g.toNat?)) :: (← parseWrites fuel r))
  | _, _ => none

def showMap (m : OMap) : String :=
  if m.isEmpty then "-" else ";".intercalate (m.map (fun (k, p) => s!"{k}={showNats (sortNats p)}"))

def showLoad : Option OMap → String
  | none => "nometa"
  | some m => showMap m

def bit (b : Bool) : String := if b then "1" else "0"

def hexVal (c : Char) : Option Nat :=
  if '0' ≤ c ∧ c ≤ '9' then some (c.toNat - '0'.toNat)
  else if 'a' ≤ c ∧ c ≤ 'f' then some (c.toNat - 'a'.toNat + 10)
  else none

def hexBytes : List Char → Option (List Nat)
  | [] => some []
  | a :: b :: r => do
    let x ← hexVal a
    let y ← hexVal b
    pure ((x * 16 + y) :: (← hexBytes r))
  | _ => none

def parseHex (s : String) : Option (List Nat) := if s = "-" then some [] else hexBytes s.toList

def hexDigit (n : Nat) : Char := if n < 10 then Char.ofNat (n + '0'.toNat) else Char.ofNat (n - 10 + 'a'.toNat)
def showHex (bs : List Nat) : String :=
  if bs.isEmpty then "-" else String.ofList (bs.flatMap (fun b => [hexDigit (b / 16), hexDigit (b % 16)]))

-- ---------------------------------------------------------------------------------------------
-- L3: replay of an explored schedule
-- ---------------------------------------------------------------------------------------------
open AndaVerif.BTreeConc in
def parseConcOp (s : String) : Option BTreeConc.Op :=
  match s.splitOn ":" with
  | ["i", d, k, sp] => do pure (.insert (← d.toNat?) (← k.toInt?) (sp = "1"))
  | ["r", d, k] => do pure (.remove (← d.toNat?) (← k.toInt?))
  | ["c", sk] => some (.compact (sk = "1") (fun _ => 0))
  | _ => none

def parseProg (s : String) : Option (List BTreeConc.Op) :=
  if s = "-" then some [] else (s.splitOn ",").mapM parseConcOp

/-- `T p T p … S steps` -/
def parseThreads : List String → Option (List (List BTreeConc.Op) × String)
  | ["S", steps] => some ([], steps)
  | "T" :: p :: r => do
    let pr ← parseProg p
    let (ps, st) ← parseThreads r
    pure (pr :: ps, st)
  | _ => none

def parseSteps (s : String) : Option (List (Nat × String)) :=
  if s = "-" then some []
  else (s.splitOn ",").mapM (fun e =>
    match e.splitOn ">" with
    | [t, tag] => do pure ((← t.toNat?), tag)
    | _ => none)

open AndaVerif.BTreeConc in
def pcTag (th : BTreeConc.Thread) : String :=
  match th.pc with
  | .idle => if th.prog.isEmpty then "e" else "n"
  | .ins1 .. => "i1" | .ins2 .. => "i2" | .ins3 .. => "i3" | .ins4 .. => "i4"
  | .rem1 .. => "r1" | .rem2 .. => "r2" | .rem3 .. => "r3"
  | .cmp1 => "c1" | .cmp2 => "c2" | .cmp3 => "c3"

def showRes : BTreeConc.Res → String
  | .okB b => if b then "ok:1" else "ok:0"
  | .errExists => "err:exists"
  | .removed b => if b then "rm:1" else "rm:0"
  | .compacted => "c"

open AndaVerif.BTreeConc in
def replaySched (c : BTreeConc.Cfg) : Nat → List (Nat × String) → Except String BTreeConc.Cfg
  | _, [] => .ok c
  | n, (t, tag) :: r =>
    match BTreeConc.step t c with
    | none => .error s!"err:disabled:{n}"
    | some c' =>
      match c'.threads[t]? with
      | none => .error s!"err:disabled:{n}"
      | some th => if pcTag th = tag then replaySched c' (n + 1) r else .error s!"err:tag:{n}:{pcTag th}"

open AndaVerif.BTreeConc in
def concDump (sh : BTreeConc.Shared) : String :=
  let keys := sortDedup (sh.post.map (·.1))
  let es := keys.filterMap (fun k => (pget sh.post k).map (fun p => s!"{k}={showNats (sortNats p.ids)}"))
  if es.isEmpty then "-" else ";".intercalate es

open AndaVerif.BTreeConc in
def concWF (sh : BTreeConc.Shared) : Bool :=
  sh.post.all (fun e => !e.2.ids.isEmpty && sh.btree.contains e.1 && sh.listed.contains (e.2.bucket, e.1))
  && sh.btree.all (fun k => (pget sh.post k).isSome)

open AndaVerif.BTreeConc AndaVerif.BTreeFlush in
def stepSched (u : String) (ini : String) (rest : List String) : String :=
  match parsePayload ini, parseThreads rest with
  | some init, some (progs, steps) =>
    (match parseSteps steps with
     | none => "err:parse"
     | some st =>
       let sh : BTreeConc.Shared :=
         { unique := u = "1", post := init.map (fun e => (e.1, ⟨0, e.2⟩)), btree := init.map (·.1),
           listed := init.map (fun e => (0, e.1)), maxBucket := 0 }
       match replaySched (initCfg sh progs) 0 st with
       | .error e => e
       | .ok c =>
         let res := "|".intercalate (c.threads.map (fun th => if th.results.isEmpty then "-" else ",".intercalate (th.results.map showRes)))
         s!"ok res {res} final {concDump c.sh} q:{bit (allIdle c)} wf:{bit (concWF c.sh)}")
  | _, _ => "err:parse"

structure DState where
  bt : State
  dur : BTreeFlush.Durable
  smap : Prefix.SMap := []
  /-- coverage of the model under the correspondence run: (branch key, hits); printed by `cov` -/
  cov : List (String × Nat) := []

def bump (cov : List (String × Nat)) (k : String) : List (String × Nat) :=
  match cov with
  | [] => [(k, 1)]
  | (k', n) :: r => if k' = k then (k', n + 1) :: r else (k', n) :: bump r k

open AndaVerif.BTreeFlush in
def reloadState (s : DState) : DState :=
  match s.dur.md, load s.dur with
  | some m, some mp =>
    { s with bt := { unique := s.bt.unique, map := mp, insertCount := m.insertCount,
                     deleteCount := m.deleteCount, queryCount := m.queryCount } }
  | _, _ => { s with bt := init s.bt.unique }

open AndaVerif.BTreeFlush in
def stepFlush (s : DState) (k : Option Nat) (ws : List Write) : DState × String :=
  let shape := flushShape s.dur ws
  let strict := flushStrict s.dur ws
  let ci := commitIdx s.dur ws
  let canon := fun (m : OMap) => m.map (fun (k, p) => (k, sortNats p))
  let newOk := (load (applyAll s.dur (ws.take (ci + 1)))).map canon == some (canon s.bt.map)
  let dumps := (List.range (ws.length + 1)).map (fun j => showLoad (load (applyAll s.dur (ws.take j))))
  -- `Model/BTreeVol` on the bucket table read off the observation: the buckets written are the dirty
  -- ones, the other entries of the new manifest are clean buckets; the model's new manifest, obsolete
  -- list and write sequence must be the observed ones
  let vol := match newMeta? ws with
    | none => false
    | some m =>
      let puts := ws.filterMap (fun w => match w with | .putObj o p => some (o, p) | _ => none)
      let dirty : List VBucket := puts.map (fun e => ⟨e.1.1, true, e.2⟩)
      let clean : List VBucket := (m.manifest.filter (fun o => !(puts.any (fun e => e.1.1 == o.1)))).map (fun o => ⟨o.1, false, []⟩)
      let all := dirty ++ clean
      let ids := sortDedup (all.map (fun b => (b.id : Int)))
      let buckets := ids.filterMap (fun i => all.find? (fun b => (b.id : Int) == i))
      let V : Vol := { buckets, committed := committedEntries s.dur, version := m.version, savedVersion := m.version - 1,
                       maxBucket := m.maxBucket, insertCount := m.insertCount, deleteCount := m.deleteCount, queryCount := m.queryCount }
      let mw := V.flushWrites
      let notDel := fun (w : Write) => match w with | .delObj _ => false | _ => true
      (mw.filter notDel == ws.filter notDel)
        && (delTargets mw).all (fun o => (delTargets ws).contains o) && (delTargets ws).all (fun o => (delTargets mw).contains o)
  let kk := match k with | some k => k | none => ws.length
  ({ s with dur := applyAll s.dur (ws.take kk) },
   s!"shape:{bit shape} strict:{bit strict} vol:{bit vol} ci:{ci} new:{bit newOk} | " ++ " | ".intercalate dumps)

def stepLine0 (s : DState) (line : String) : DState × String :=
  match words line with
  | ["new", u] => ({ bt := init (u = "1"), dur := { objs := [], md := none }, smap := [] }, "ok")
  | "flw" :: k :: ws =>
    (match optNat? k, parseWrites (ws.length + 1) ws with
     | some k, some ws => stepFlush s k ws
     | _, _ => (s, "err:parse"))
  | "flp" :: ws =>
    (match parseWrites (ws.length + 1) ws with
     | some ws =>
       let fresh := ws.all (BTreeFlush.isFreshPut s.dur.md)
       let d' := BTreeFlush.applyAll s.dur ws
       ({ s with dur := d' }, s!"fresh:{bit fresh} | {showLoad (BTreeFlush.load d')}")
     | none => (s, "err:parse"))
  | ["reload"] =>
    let s' := reloadState s
    (s', showMap s'.bt.map)
  | ["legacy"] => ({ s with dur := BTreeFlush.toLegacy s.dur }, "ok")
  | ["stale", b, k, ids] =>
    (match b.toNat?, k.toInt?, natList? ids with
     | some b, some k, some ids => ({ s with dur := BTreeFlush.injectStale s.dur b k ids }, "ok")
     | _, _, _ => (s, "err:parse"))
  | ["dump"] =>
    -- the harness dumps through `keys()` + one `query_with` per key: the latter bump `query_count`
    ({ s with bt := { s.bt with queryCount := s.bt.queryCount + s.bt.map.length } }, showMap s.bt.map)
  | ["pack", limit, items] =>
    (match limit.toNat?, (if items = "-" then some [] else (items.splitOn ",").mapM (fun e =>
        match e.splitOn ":" with
        | [k, z] => do pure ((← k.toInt?), (← z.toNat?))
        | _ => none)) with
     | some lim, some its =>
       let bins := BTreePack.ffd lim its
       (s, if bins.isEmpty then "-" else "|".intercalate (bins.map (fun b => showInts (sortDedup b.2))))
     | _, _ => (s, "err:parse"))
  | "sched" :: u :: ini :: rest => (s, stepSched u ini rest)
  | ["sins", d, k] =>
    (match d.toNat?, parseHex k with
     | some d, some k =>
       let had := match Prefix.sLookup s.smap k with | some p => p.contains d | none => false
       ({ s with smap := Prefix.sIns k d s.smap }, if had then "ok:0" else "ok:1")
     | _, _ => (s, "err:parse"))
  | ["srem", d, k] =>
    (match d.toNat?, parseHex k with
     | some d, some k =>
       let had := match Prefix.sLookup s.smap k with | some p => p.contains d | none => false
       ({ s with smap := Prefix.sDel k d s.smap }, if had then "1" else "0")
     | _, _ => (s, "err:parse"))
  | ["pq", n, mode, pre] =>
    (match optNat? n, parseHex pre with
     | some stop, some pre =>
       let odd := mode = "odd"
       let res := Prefix.prefixQuery s.smap pre (Prefix.pcbStop stop (Prefix.pemit odd)) 0
       (s, if res.isEmpty then "-" else ";".intercalate (res.map (fun (k, p) => s!"{showHex k}={showNats (sortNats p)}")))
     | _, _ => (s, "err:parse"))
  | ws =>
    match parseOp ws with
    | some op =>
      match step s.bt op with
      | (bt', o) => ({ s with bt := bt' }, showOut o)
    | none => (s, "err:parse")

/-- which branches of the model a request exercised (from the state before it and its answer) -/
def covKeys (s : DState) (ws : List String) (out : String) : List String :=
  let look := fun (k : String) => (k.toInt?).bind (fun k => s.bt.map.lookup k)
  match ws with
  | ["ins", _, k] =>
    [match look k with
     | none => "ins:new_key"
     | some _ => if out = "ok:1" then "ins:append" else if out = "ok:0" then "ins:idempotent" else "ins:unique_conflict"]
  | ["rem", _, k] =>
    [match look k with
     | none => "rem:no_key"
     | some p => if out = "1" then (if p.length = 1 then "rem:last_id_key_dropped" else "rem:one_of_many") else "rem:id_absent"]
  | ["insa", _, ks] =>
    [if out = "err:exists" then "insa:precheck_conflict" else if ks = "-" then "insa:empty_list"
     else if out = "ok:0" then "insa:all_present" else "insa:applied"]
  | ["rema", _, ks] => [if ks = "-" then "rema:empty_list" else if out = "0" then "rema:none" else "rema:applied"]
  | ["upd", _, _, _] => [if out = "err:exists" then "upd:conflict_no_removal" else if out = "ok:0,0" then "upd:noop" else "upd:applied"]
  | ["get", _] => [if out = "none" then "get:none" else "get:some"]
  | ["keys", c, l] => [s!"keys:cursor={bit (c != "-")},limit={bit (l != "-")}", if out = "-" then "keys:empty" else "keys:nonempty"]
  | ["len"] => ["len"]
  | ["stats"] => ["stats"]
  | ["dump"] => ["dump"]
  | "rq" :: dir :: n :: mode :: q :: rest =>
    [s!"rq:head={q}", s!"rq:{dir}:{if n = "-" then "unbounded" else "stop"}", s!"rq:mode={mode}",
     if s.bt.map.isEmpty then "rq:empty_index_return"
     else if q = "deep" && ((rest.head?.bind String.toNat?).getD 0) ≥ 64 then "rq:depth_cap_return"
     else if out = "-" then "rq:no_match" else "rq:answer"]
  | "flw" :: k :: _ =>
    [s!"flw:{(out.splitOn " ci:").headD ""}", if k = "-" then "flw:complete" else "flw:cut",
     match s.dur.md with
     | none => "flw:first_commit"
     | some m => if m.manifest.isEmpty then "flw:from_legacy_layout" else "flw:from_manifest_layout"]
  | "flp" :: _ => ["flp:uncommitted_puts"]
  | ["reload"] =>
    [match s.dur.md with
     | none => "reload:no_metadata_fresh_index"
     | some m => if m.manifest.isEmpty then "reload:legacy_probe" else "reload:manifest"]
  | ["legacy"] => ["store:to_legacy"]
  | ["stale", _, _, ids] => [if ids = "-" then "store:inject_tombstone" else "store:inject_stale_copy"]
  | ["pack", _, _] => [s!"pack:bins={(out.splitOn "|").length}"]
  | "sched" :: _ :: _ :: rest =>
    let toks := rest.filter (fun t => t != "T" && t != "S")
    let ops := (toks.dropLast.flatMap (fun p => p.splitOn ",")).map (fun o =>
      match o.splitOn ":" with
      | ["i", _, _, sp] => s!"conc:op=insert,spill={sp}"
      | ["r", _, _] => "conc:op=remove"
      | ["c", sk] => s!"conc:op=compact,skip={sk}"
      | _ => "conc:op=?")
    let steps := ((toks.getLast?.getD "").splitOn ",").map (fun st => s!"conc:park={(st.splitOn ">").getD 1 "?"}")
    (if out.startsWith "ok " then "conc:replayed" else "conc:left_model") :: (ops ++ steps)
  | ["sins", _, _] => [if out = "ok:1" then "sins:added" else "sins:idempotent"]
  | ["srem", _, _] => [if out = "1" then "srem:removed" else "srem:absent"]
  | ["pq", n, mode, pre] =>
    [s!"pq:{if pre = "-" then "empty_prefix" else "prefix"}:{if n = "-" then "unbounded" else "stop"}:{mode}",
     if out = "-" then "pq:no_match" else "pq:answer"]
  | ["new", u] => [s!"new:unique={u}"]
  | _ => ["other"]

def stepLine (s : DState) (line : String) : DState × String :=
  match words line with
  | ["cov"] => (s, if s.cov.isEmpty then "-" else ";".intercalate (s.cov.map (fun (k, n) => s!"{k}@{n}")))
  | ws =>
    match stepLine0 s line with
    | (s', out) =>
      let keys := covKeys s ws out
      ({ s' with cov := keys.foldl bump s.cov }, out)

end AndaVerif.Drv.C10

def main : IO Unit :=
  AndaVerif.Drv.lineLoop (σ := AndaVerif.Drv.C10.DState) { bt := AndaVerif.BTree.init false, dur := { objs := [], md := none } } AndaVerif.Drv.C10.stepLine
