import AndaVerif.Drv.Coll
import AndaVerif.Model.CollSched
/-
Driver of the C04 model: the shared collection line protocol of `Drv/Coll.lean` (same model as
C02) plus one command for the concurrent model (`Model/CollSched.lean`):

  conc <token> …      tokens:  r:<ix>.<k>:<id>                     a posting of the start relation
                               add:<id>:<ix>.<k>[a],…              an `add` writer; `a` marks a key that goes
                                                                   through `insert_array` (pre-check + insert)
                               upd:<id>:<ix>.<old>.<new>,…         an `update` writer as the code runs it
                                                                   (`insert(new)`, `remove(old)` index by index)
      → every outcome vector reachable under some schedule, sorted, e.g. `AR RA`
        (per writer: A accepted, R rejected, P rejected with a failed rollback = poisoned)
-/
open AndaVerif.Collection AndaVerif.Drv

namespace AndaVerif.DrvC04

def parseG (s : String) : Option (Nat × Key) :=
  match s.splitOn "." with
  | [ix, k] => do let ix ← ix.toNat?; let k ← k.toInt?; pure (ix, .s k)
  | _ => none

def parseAddKey (s : String) : Option (List Act × List Act) :=
  let arr := s.endsWith "a"
  let body := if arr then (s.dropEnd 1).toString else s
  (parseG body).map (fun g => if arr then ([Act.chk g], [Act.ins g]) else ([], [Act.ins g]))

def mkWriter (id : Nat) (held : List (Nat × Key)) (prog : List Act) : Writer :=
  { id := id, held := held, prog := prog, done := [], drop := [], dropped := [], mode := .run, prog0 := prog, drop0 := [],
    released := [], poisoned := false }

/-- group the actions index by index: for an array index all pre-checks come before its inserts -/
def addProg (keys : List (Nat × List Act × List Act)) : List Act :=
  let ixs := keys.foldl (fun acc k => if acc.contains k.1 then acc else acc ++ [k.1]) ([] : List Nat)
  ixs.flatMap (fun ix =>
    let mine := keys.filter (fun k => k.1 == ix)
    mine.flatMap (fun k => k.2.1) ++ mine.flatMap (fun k => k.2.2))

def parseToken (acc : List ((Nat × Key) × Nat) × List Writer) (t : String) : Option (List ((Nat × Key) × Nat) × List Writer) :=
  match t.splitOn ":" with
  | ["r", g, id] => do let g ← parseG g; let id ← id.toNat?; pure (acc.1 ++ [(g, id)], acc.2)
  | ["add", id, keys] => do
      let id ← id.toNat?
      let ks ← (keys.splitOn ",").mapM (fun k => do
        let body := if k.endsWith "a" then (k.dropEnd 1).toString else k
        let g ← parseG body
        let p ← parseAddKey k
        pure (g.1, p))
      pure (acc.1, acc.2 ++ [mkWriter id [] (addProg ks)])
  | ["upd", id, chs] => do
      let id ← id.toNat?
      let cs ← (chs.splitOn ",").mapM (fun c =>
        match c.splitOn "." with
        | [ix, o, n] => do let ix ← ix.toNat?; let o ← o.toInt?; let n ← n.toInt?; pure ((ix, Key.s o), (ix, Key.s n))
        | _ => none)
      pure (acc.1, acc.2 ++ [mkWriter id (cs.map (·.1)) (cs.flatMap (fun c => [Act.ins c.2, Act.rel c.1]))])
  | _ => none

def outcomeOf (ws : List Writer) : String :=
  String.ofList (ws.map (fun w => if w.mode == .accepted then 'A' else if w.poisoned then 'P' else 'R'))

/-- all configurations reachable under any schedule (worklist with a visited set) -/
partial def explore (todo : List (List ((Nat × Key) × Nat) × List Writer))
    (seen : List (List ((Nat × Key) × Nat) × List Writer)) (outs : List String) : List String :=
  match todo with
  | [] => outs
  | c :: rest =>
    if seen.contains c then explore rest seen outs
    else
      let seen := c :: seen
      if c.2.all (fun w => w.finished) then
        let o := outcomeOf c.2
        explore rest seen (if outs.contains o then outs else o :: outs)
      else
        let nexts := (List.range c.2.length).filterMap (fun t =>
          let n := stepAt c.1 c.2 t
          if n == c then none else some n)
        explore (nexts ++ rest) seen outs

def conc (toks : List String) : String :=
  match toks.foldlM parseToken (([], []) : List ((Nat × Key) × Nat) × List Writer) with
  | none => "bad-op"
  | some (r, ws) => " ".intercalate (AndaVerif.DrvColl.sortStrs (explore [(r, ws)] [] []))

def stepLine (st : DState × AndaVerif.DrvColl.Pending) (line : String) : (DState × AndaVerif.DrvColl.Pending) × String :=
  match words line with
  | "conc" :: toks => (st, conc toks)
  | _ => AndaVerif.DrvColl.stepLine st line

end AndaVerif.DrvC04

def main : IO Unit :=
  AndaVerif.Drv.lineLoop (AndaVerif.Collection.dinit [], AndaVerif.DrvColl.Pending.none) AndaVerif.DrvC04.stepLine
