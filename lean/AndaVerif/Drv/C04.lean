import AndaVerif.Drv.Coll
/-
Driver of the C04 model (unique constraints, rejected writes leave no trace): the shared
collection line protocol of `Drv/Coll.lean` (same model as C02).
-/
def main : IO Unit :=
  AndaVerif.Drv.lineLoop (AndaVerif.Collection.init [], false) AndaVerif.DrvColl.stepLine
