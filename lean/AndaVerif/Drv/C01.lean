import AndaVerif.Model.Durability
import AndaVerif.Drv.Util
/-
Driver of the C01 crash machine. One request line, one response line.

  reset <nIdx>                     fresh, created + flushed collection with <nIdx> indexes
  add <body> <keys>                keys = "ix:key,ix:key" | "-"      → ok <id> | err:…
  update <id> <body> <patch>       patch = "ix=k/k,ix=" | "-"        → ok | err:…
  compact <ix> <0|1> <0|1>         index compaction; flushes itself (the merge shrank the index) / only rebuilt the buckets (pending flush)
  saveext <n>                      save_extension (metadata-only write) → ok | err:…
  remove <id>                                                        → ok none | ok doc <body> <keys> | err:…
  flush <now> | close <now> | reopen <now>                           → ok true|false / ok / err:…
  arm crash|fail|unknown <n>       the (n+1)-th coming backend mutation gets that outcome
  disarm
  poweroff                         the power failed on a backend call the model abstracts away
  get <id>                         → ok doc <body> <keys> | err:notfound | …
  ids                              → ids <csv>
  ix <ix> <key>                    → ix <csv>        (ids posted under that key, in memory)
  log                              → landed backend mutations since the previous `log`, `;`-separated
  state                            → stored document ids, number of intent objects, checkpoint, max_document_id
  dur                              → durable summary (debug)
  consts
-/
open AndaVerif.Durability AndaVerif.Drv

namespace AndaVerif.DrvC01

def parseKey (s : String) : Option (Nat × Nat) :=
  match s.splitOn ":" with
  | [a, b] => do let a ← a.toNat?; let b ← b.toNat?; pure (a, b)
  | _ => none

def parseKeys (s : String) : Option (List (Nat × Nat)) :=
  if s = "-" ∨ s = "" then some [] else (s.splitOn ",").mapM parseKey

def parseRepl (s : String) : Option (Nat × List Nat) :=
  match s.splitOn "=" with
  | [a, b] => do
    let a ← a.toNat?
    let ks ← if b = "" then some [] else (b.splitOn "/").mapM String.toNat?
    pure (a, ks)
  | _ => none

def parsePatch (s : String) : Option (List (Nat × List Nat)) :=
  if s = "-" ∨ s = "" then some [] else (s.splitOn ",").mapM parseRepl

def keyLe (a b : Nat × Nat) : Bool := a.1 < b.1 || (a.1 == b.1 && a.2 ≤ b.2)

def showKeys (ks : List (Nat × Nat)) : String :=
  if ks.isEmpty then "-" else ",".intercalate ((ks.mergeSort keyLe).eraseDups.map (fun k => s!"{k.1}:{k.2}"))

def showOut : Out → String
  | .okId id => s!"ok {id}"
  | .ok => "ok"
  | .okBool b => if b then "ok true" else "ok false"
  | .okDoc none => "ok none"
  | .okDoc (some d) => s!"ok doc {d.body} {showKeys d.keys}"
  | .errIo => "err:io"
  | .errPre => "err:precond"
  | .errState => "err:state"
  | .errNotFound => "err:notfound"
  | .errExists => "err:exists"
  | .errNoHandle => "err:nohandle"

def showEv : Ev → String
  | .wm t => s!"wm {t}"
  | .doc id => s!"doc {id}"
  | .del id => s!"del {id}"
  | .intentPut _ => "intent+"
  | .intentDel => "intent-"
  | .ixc ix => s!"ixc {ix}"
  | .metaPut => "meta"
  | .idsPut => "ids"
  | .cp => "cp"

def parseFault : String → Option Fault
  | "crash" => some .crash
  | "fail" => some .fail
  | "unknown" => some .unknown
  | _ => none

def bound (s : State) : Nat :=
  match s.h with
  | some v => max (max v.maxId v.wm) (max s.w.D.metaMax s.w.D.wm) + 2
  | none => max s.w.D.metaMax s.w.D.wm + 2

def doStep (s : State) (op : Op) : State × String :=
  let r := step s op
  (r.1, showOut r.2)

def handle (s : State) (line : String) : State × String :=
  match words line with
  | ["reset", _] => (init, "ok")
  | ["consts"] => (s, s!"STRIDE={stride}")
  | ["add", b, ks] => match b.toNat?, parseKeys ks with
    | some b, some ks => doStep s (.add { body := b, keys := ks })
    | _, _ => (s, "err:parse")
  | ["update", id, b, p] => match id.toNat?, b.toNat?, parsePatch p with
    | some id, some b, some p => doStep s (.update id { body := b, repl := p })
    | _, _, _ => (s, "err:parse")
  | ["saveext", _] => doStep s .saveExt
  | ["compact", ix, c, d] => match ix.toNat? with
    | some ix => doStep s (.compact ix (c == "1") (d == "1"))
    | none => (s, "err:parse")
  | ["remove", id] => match id.toNat? with
    | some id => doStep s (.remove id)
    | none => (s, "err:parse")
  | ["flush", now] => match now.toNat? with
    | some now => doStep s (.flush now)
    | none => (s, "err:parse")
  | ["close", now] => match now.toNat? with
    | some now => doStep s (.close now)
    | none => (s, "err:parse")
  | ["reopen", now] => match now.toNat? with
    | some now => doStep s (.reopen now)
    | none => (s, "err:parse")
  | ["arm", k, n] => match parseFault k, n.toNat? with
    | some k, some n => doStep s (.arm (List.replicate n .ok ++ [k]))
    | _, _ => (s, "err:parse")
  | ["disarm"] => doStep s (.arm [])
  | ["poweroff"] => ({ s with w := { s.w with off := true, sched := [] } }, "ok")
  | ["get", id] => match id.toNat? with
    | some id => (s, showOut (s.get id))
    | none => (s, "err:parse")
  | ["ids"] => match s.h with
    | some v => (s, "ids " ++ showNats ((List.range (bound s)).filter v.ids))
    | none => (s, "err:nohandle")
  | ["ix", ix, k] => match ix.toNat?, k.toNat?, s.h with
    | some ix, some k, some v => (s, "ix " ++ showNats ((List.range (bound s)).filter (fun id => v.idx id (ix, k))))
    | _, _, none => (s, "err:nohandle")
    | _, _, _ => (s, "err:parse")
  | ["log"] =>
    ({ s with w := { s.w with log := [] } },
     if s.w.log.isEmpty then "-" else ";".intercalate (s.w.log.map showEv))
  | ["state"] =>
    -- what the harness can read back from the backend and the handle after a reopen
    let D := s.w.D
    let b := bound s
    let mx := match s.h with | some v => toString v.maxId | none => "-"
    (s, s!"state docs={showNats ((List.range b).filter (fun i => (D.docs i).isSome))} intents={D.intents.length} cp={D.cp} maxid={mx}")
  | ["dur"] =>
    let D := s.w.D
    let b := bound s
    (s, s!"dur ids={showNats ((List.range b).filter D.ids)} docs={showNats ((List.range b).filter (fun i => (D.docs i).isSome))} metaMax={D.metaMax} metaVer={D.metaVer} cp={D.cp} cpSaved={D.cpSaved} wm={D.wm} intents={showNats (D.intents.map (·.id))} off={s.w.off}")
  | _ => (s, "err:parse")

end AndaVerif.DrvC01

def main : IO Unit := AndaVerif.Drv.lineLoop AndaVerif.Durability.init AndaVerif.DrvC01.handle
