import AndaVerif.Model.ObjStoreConc
import AndaVerif.Drv.ObjStoreProto
/-
Replay of concrete schedules on the interleaving model (`Model/ObjStoreConc.lean`) for the C08 driver.

  tasks <t0> | <t1> | …     t ::= gc | put <key> <size> <seed> | mput <key> <n1,n2,…> <seed> | copy <src> <dst>
                                  | del <key> | ren <src> <dst>
                            the tasks of one wrapper instance (fresh, cold cache) over the current backend → `ok`
  schedule <i,i,…>          task ids in release order: the i-th entry lets that task run from where it is
                            parked (not started / before a backend call) to its next backend call or to its end
Answer of `schedule`: the backend call each release performed (the model's prediction, e.g.
`1:g:meta/0 1:p:gen/0 0:l:gen 0:d:gen/0/1`), then the surviving object set and what every listed key reads cold.

Writers follow the call sequence of the code (put: read meta, write payload, write meta, delete
replaced; multipart: init, read meta, complete, write meta, delete; copy: read source meta, copy
payload, read target meta, write meta, delete; delete: read meta, delete meta, delete payload;
rename = copy, then delete of the source); minting + in-flight registration happen where the code has
them (at the start, for copy after the source is resolved), the guard is dropped when the call returns.
The collector: floor at its start, `list meta/`, one read per commit point, `list gen/`, `list data/`, then
per candidate the generated program; checks that need no backend call run at once.
-/
open AndaVerif.ObjStore AndaVerif.ObjStore.Conc AndaVerif.Drv AndaVerif.ObjStoreProto

namespace AndaVerif.ObjStoreConcProto

structure Task where
  kind : String
  a : Path := []
  b : Path := []
  data : Bytes := []
  wi : Nat := 0
  phase : Nat := 0
  finished : Bool := false
  /-- reader tasks: index into `Cfg.rs`, head request, token of the key's commit when the tasks start -/
  ri : Nat := 0
  head : Bool := false
  oldTok : Option Tok := none

structure ConcSt where
  c : Cfg := {}
  tasks : List Task := []
  floor : Nat := 0
  marked : List (Path × PayloadRef) := []
  markTodo : List Path := []
  gcPhase : Nat := 0
  /-- every generation that was ever on the backend since `tasks`, for canonical ranks -/
  seen : List (Path × Gen) := []
  trace : List String := []
  bad : List String := []
  /-- keys whose commit point the instance's metadata cache holds (within one instance the cache is
  coherent: commits and loads happen inside the per-key section) -/
  cacheKeys : List Path := []

def gensOf (be : Backend) : List (Path × Gen) :=
  be.filterMap (fun pe => match pe.1 with | .gen k g => some (k, g) | _ => none)

def rankOf (seen : List (Path × Gen)) (k : Path) (g : Gen) : Nat :=
  ((seen.filter (fun kg => kg.1 == k && decide (kg.2.id < g.id))).map (·.2.id)).eraseDups.length

def descPath (cs : ConcSt) : BPath → String
  | .mt k => s!"meta/{showKey k}"
  | .gen k g => s!"gen/{showKey k}/{rankOf cs.seen k g}"
  | .data k => s!"data/{showKey k}"

def tick (cs : ConcSt) : ConcSt := { cs with c := step cs.c .tick }

def getWr (cs : ConcSt) (i : Nat) : Wr := (cs.c.ws[i]?).getD { k := [] }

/-- one writer action; a disabled action is recorded (the model disagrees with the schedule) -/
def act (cs : ConcSt) (i : Nat) (a : WAct) : ConcSt :=
  match wrStep cs.c (getWr cs i) a with
  | none => { cs with bad := cs.bad ++ [s!"w{i}:{repr a}"] }
  | some _ =>
      let c' := step cs.c (.w i a)
      let t := getWr cs i
      let ck :=
        if a = .commit then (if t.del then cs.cacheKeys.filter (· != t.k) else if cs.cacheKeys.contains t.k then cs.cacheKeys else t.k :: cs.cacheKeys)
        else cs.cacheKeys
      { cs with c := c', cacheKeys := ck, seen := (gensOf c'.be).foldl (fun s kg => if s.contains kg then s else s ++ [kg]) cs.seen }

def acts (cs : ConcSt) (i : Nat) (as : List WAct) : ConcSt := as.foldl (fun cs a => act cs i a) cs

def reclaimNeeded (t : Wr) : Option BPath :=
  let newPath : Option BPath := if t.del then none else t.g.map (fun g => .gen t.k g)
  match t.replaced with
  | some old => if some old ≠ newPath then some old else none
  | none => none

def docOf (be : Backend) (k : Path) : Option Doc :=
  match aget be (.mt k) with
  | some ⟨.doc d, _⟩ => some d
  | _ => none

def setTask (cs : ConcSt) (ti : Nat) (t : Task) : ConcSt := { cs with tasks := cs.tasks.set ti t }

/-- after the pointer switch: park at the reclaim call, or return -/
def afterCommit (cs : ConcSt) (ti : Nat) (t : Task) (i : Nat) (reclaimPhase : Nat) (onReturn : ConcSt → Task → ConcSt) : ConcSt :=
  match reclaimNeeded (getWr cs i) with
  | some _ => setTask cs ti { t with phase := reclaimPhase }
  | none => onReturn (acts cs i [.reclaim]) t

def finishWriter (i : Nat) (ti : Nat) (cs : ConcSt) (t : Task) : ConcSt :=
  setTask (acts cs i [.untrack]) ti { t with finished := true }

def finishPlain (ti : Nat) (cs : ConcSt) (t : Task) : ConcSt := setTask cs ti { t with finished := true }

/-- rename: the copy has returned (guard dropped); `delete_object(src)` parks at its metadata read -/
def renToDelete (i : Nat) (ti : Nat) (cs : ConcSt) (t : Task) : ConcSt :=
  setTask (acts cs i [.untrack]) ti { t with phase := 6 }

def reclaimDesc (cs : ConcSt) (i : Nat) : String :=
  match (getWr cs i).replaced with
  | some old => "d:" ++ descPath cs old
  | none => "d:?"

/-- release a writer task: (state, description of the backend call that was let through) -/
def releaseWriter (cs : ConcSt) (ti : Nat) (t : Task) : ConcSt × String :=
  let i := t.wi
  let kd := t.kind
  if kd = "put" then
    match t.phase with
    | 0 => (setTask (tick (acts (tick cs) i [.mint, .track])) ti { t with phase := 1 }, "start")
    | 1 => (setTask (act cs i .enter) ti { t with phase := 2 }, s!"g:meta/{showKey t.a}")
    | 2 => (setTask (act cs i .payload) ti { t with phase := 3 }, s!"p:gen/{showKey t.a}")
    | 3 => (afterCommit (act cs i .commit) ti t i 4 (finishWriter i ti), s!"p:meta/{showKey t.a}")
    | _ => let d := reclaimDesc cs i; (finishWriter i ti (act cs i .reclaim) t, d)
  else if kd = "mput" then
    match t.phase with
    | 0 => (setTask (tick (acts (tick cs) i [.mint, .track])) ti { t with phase := 1 }, "start")
    | 1 => (setTask cs ti { t with phase := 2 }, s!"mi:gen/{showKey t.a}")
    | 2 => (setTask (act cs i .enter) ti { t with phase := 3 }, s!"g:meta/{showKey t.a}")
    | 3 => (setTask (act cs i .payload) ti { t with phase := 4 }, s!"mc:gen/{showKey t.a}")
    | 4 => (afterCommit (act cs i .commit) ti t i 5 (finishWriter i ti), s!"p:meta/{showKey t.a}")
    | _ => let d := reclaimDesc cs i; (finishWriter i ti (act cs i .reclaim) t, d)
  else if kd = "del" then
    match t.phase with
    | 0 => (setTask (tick (tick cs)) ti { t with phase := 1 }, "start")
    | 1 =>
        match docOf cs.c.be t.a with
        | none => (finishPlain ti (act cs i .abort) t, s!"g:meta/{showKey t.a}")
        | some _ => (setTask (act cs i .enter) ti { t with phase := 2 }, s!"g:meta/{showKey t.a}")
    | 2 => (setTask (act cs i .commit) ti { t with phase := 3 }, s!"d:meta/{showKey t.a}")
    | _ => let d := reclaimDesc cs i; (finishPlain ti (act cs i .reclaim) t, d)
  else
    -- copy / ren: source `a`, target `b`; rename continues with the delete of `a` (writer i + 1)
    let isRen := decide (kd = "ren")
    let onReturn : ConcSt → Task → ConcSt := if isRen then renToDelete i ti else finishWriter i ti
    match t.phase with
    | 0 => (setTask (tick (tick cs)) ti { t with phase := 1 }, "start")
    | 1 =>
        match docOf cs.c.be t.a with
        | none => (finishPlain ti cs t, s!"g:meta/{showKey t.a}")
        | some d =>
            let cs1 := tick cs
            let w : Wr := { k := t.b, src := some (payloadPath t.a d.gen) }
            let cs2 := { cs1 with c := { cs1.c with ws := cs1.c.ws.set i w } }
            (setTask (tick (acts cs2 i [.mint, .track])) ti { t with phase := 2 }, s!"g:meta/{showKey t.a}")
    | 2 => (setTask (act cs i .payload) ti { t with phase := 3 }, s!"c:gen/{showKey t.b}")
    | 3 => (setTask (act cs i .enter) ti { t with phase := 4 }, s!"g:meta/{showKey t.b}")
    | 4 => (afterCommit (act cs i .commit) ti t i 5 onReturn, s!"p:meta/{showKey t.b}")
    | 5 => let d := reclaimDesc cs i; (onReturn (act cs i .reclaim) t, d)
    | 6 =>
        match docOf cs.c.be t.a with
        | none => (finishPlain ti (act cs (i + 1) .abort) t, s!"g:meta/{showKey t.a}")
        | some _ => (setTask (act cs (i + 1) .enter) ti { t with phase := 7 }, s!"g:meta/{showKey t.a}")
    | 7 => (setTask (act cs (i + 1) .commit) ti { t with phase := 8 }, s!"d:meta/{showKey t.a}")
    | _ => let d := reclaimDesc cs (i + 1); (finishPlain ti (act cs (i + 1) .reclaim) t, d)

/-- does some task hold the per-key critical section of `k` (moka's `and_try_compute_with`) while it is
parked at a backend call? -/
def sectionHeld (cs : ConcSt) (k : Path) : Bool :=
  cs.tasks.any (fun t =>
    !t.finished &&
    (if t.kind = "put" then t.a == k && (t.phase == 1 || t.phase == 2 || t.phase == 3)
     else if t.kind = "mput" then t.a == k && (t.phase == 2 || t.phase == 3 || t.phase == 4)
     else if t.kind = "del" then t.a == k && (t.phase == 1 || t.phase == 2)
     else if t.kind = "copy" || t.kind = "ren" then
       (t.a == k && (t.phase == 1 || t.phase == 6 || t.phase == 7)) || (t.b == k && (t.phase == 3 || t.phase == 4))
     else if t.kind = "get" || t.kind = "get-warm" then t.a == k && (t.phase == 1 || t.phase == 3)
     else false))

/-! ### readers (`get_opts`) -/

def getRd (cs : ConcSt) (i : Nat) : Rd := (cs.c.rs[i]?).getD { k := [] }

def rdAct (cs : ConcSt) (i : Nat) : ConcSt := { cs with c := step cs.c (.r i) }

def rdDone (cs : ConcSt) (i : Nat) : Bool := match (getRd cs i).pc with | .done _ => true | _ => false

def payloadDesc (cs : ConcSt) (i : Nat) : String :=
  let t := getRd cs i
  let d? : Option Doc := match t.pc with | .checked d _ => some d | .checked2 d _ => some d | _ => none
  match d? with
  | some d => match d.gen with | some _ => s!"g:gen/{showKey t.k}" | none => s!"g:data/{showKey t.k}"
  | none => "g:?"

/-- release a reader task. Cold cache: start → `get meta/k` (resolve + check) → payload get → on a
vanished payload `get meta/k` (re-resolve + re-check) → payload get. Warm cache: resolve + check happen
at the start. -/
def releaseReader (cs : ConcSt) (ti : Nat) (t : Task) : ConcSt × String :=
  let i := t.ri
  let fin (cs : ConcSt) (ph : Nat) : ConcSt := setTask cs ti { t with phase := ph, finished := rdDone cs i }
  let addCache (cs : ConcSt) : ConcSt :=
    if (docOf cs.c.be t.a).isSome && !cs.cacheKeys.contains t.a then { cs with cacheKeys := t.a :: cs.cacheKeys } else cs
  match t.phase with
  | 0 =>
      -- not started; a cached commit point answers the resolve at once (no backend call)
      let cs := tick (tick cs)
      -- `get_meta`: a cached commit point answers at once, without the per-key section; a miss loads
      -- inside the section (and waits for it)
      if cs.cacheKeys.contains t.a then
        let rd := { getRd cs i with cached := docOf cs.c.be t.a }
        let cs := { cs with c := { cs.c with rs := cs.c.rs.set i rd } }
        (fin (rdAct (rdAct cs i) i) 2, "start")
      else if sectionHeld cs t.a then (setTask cs ti { t with phase := 9 }, "start")
      else (setTask cs ti { t with phase := 1 }, "start")
  | 1 => (fin (rdAct (rdAct (addCache cs) i) i) 2, s!"g:meta/{showKey t.a}")
  | 2 => let d := payloadDesc cs i; (fin (rdAct cs i) 3, d)
  | 3 => (fin (rdAct (rdAct (addCache cs) i) i) 4, s!"g:meta/{showKey t.a}")
  | _ => let d := payloadDesc cs i; (fin (rdAct cs i) 5, d)

/-! ### the collector -/

def genLt (a b : Path × Gen) : Bool := pathLt a.1 b.1 || (a.1 == b.1 && decide (a.2.id < b.2.id))

def sortGens (l : List (Path × Gen)) : List (Path × Gen) := (l.toArray.qsort genLt).toList

/-- the sweep's candidate filter against the *marked* snapshot -/
def genCandidate (cs : ConcSt) (kg : Path × Gen) : Bool :=
  if Gen.SidecarOrder.gcFloorSkip && decide (kg.2.ts ≥ cs.floor) then false
  else
    match aget cs.marked kg.1 with
    | some (.gen g') => decide (g' ≠ kg.2)
    | some .unknown => false
    | _ => true

def dataCandidate (cs : ConcSt) (k : Path) : Bool :=
  match aget cs.marked k with
  | some .legacy => false
  | some .unknown => false
  | _ => true

/-- run the collector's checks that need no backend call; stop before a backend call or at the end -/
def advance : Nat → Cfg → Cfg
  | 0, c => c
  | fuel + 1, c =>
      match c.gc with
      | .idle => c
      | .sweeping _ => advance fuel (step c .gcStep)
      | .cand p stage _ =>
          match Gen.SidecarOrder.gcCandidateOrder[stage]? with
          | none => advance fuel (step c .gcStep)
          | some .inFlight => advance fuel (step c .gcStep)
          | some .recheck =>
              if Gen.SidecarOrder.gcRecheckPerCandidate || (aget c.gcMemo (keyOfPath p)).isNone then c
              else advance fuel (step c .gcStep)
          | some .delete => c

def gcDone (c : Cfg) : Bool := match c.gc with | .idle => true | _ => false

def releaseGc (cs : ConcSt) (ti : Nat) (t : Task) : ConcSt × String :=
  match cs.gcPhase with
  | 0 =>
      let cs1 := tick cs
      (setTask (tick { cs1 with floor := cs1.c.clock, gcPhase := 1, marked := [] }) ti { t with phase := 1 }, "start")
  | 1 =>
      let todo := sortPaths (cs.c.be.filterMap (fun pe => match pe.1 with | .mt k => some k | _ => none))
      ({ cs with markTodo := todo, gcPhase := if todo.isEmpty then 3 else 2 }, "l:meta")
  | 2 =>
      match cs.markTodo with
      | [] => ({ cs with gcPhase := 3 }, "?")
      | k :: rest =>
          let marked := match markRef cs.c.be k with | some r => aset cs.marked k r | none => cs.marked
          ({ cs with marked := marked, markTodo := rest, gcPhase := if rest.isEmpty then 3 else 2 }, s!"g:meta/{showKey k}")
  | 3 =>
      let cands := (sortGens ((gensOf cs.c.be).filter (genCandidate cs))).map (fun kg => BPath.gen kg.1 kg.2)
      ({ cs with c := step cs.c (.gcList cands), gcPhase := 4 }, "l:gen")
  | 4 =>
      let ds := sortPaths ((cs.c.be.filterMap (fun pe => match pe.1 with | .data k => some k | _ => none)).filter (dataCandidate cs))
      let c1 := advance 1000 (step cs.c (.gcList (ds.map BPath.data)))
      let cs1 := { cs with c := c1, gcPhase := 5 }
      (if gcDone c1 then setTask cs1 ti { t with finished := true } else cs1, "l:data")
  | _ =>
      let d :=
        match cs.c.gc with
        | .cand p stage _ =>
            match Gen.SidecarOrder.gcCandidateOrder[stage]? with
            | some .recheck => s!"g:meta/{showKey (keyOfPath p)}"
            | some .delete => "d:" ++ descPath cs p
            | _ => "?"
        | _ => "?"
      let c1 := advance 1000 (step cs.c .gcStep)
      let cs1 := { cs with c := c1 }
      (if gcDone c1 then setTask cs1 ti { t with finished := true } else cs1, d)

/-- readers that were blocked at the section of their key (phase 9) and can go on: the commit point is
cached now (the holder committed) or they load it themselves -/
def wakeBlocked (cs : ConcSt) : ConcSt :=
  (List.range cs.tasks.length).foldl (fun cs ti =>
    match cs.tasks[ti]? with
    | some t =>
        if t.phase == 9 && !t.finished && !sectionHeld cs t.a then
          if cs.cacheKeys.contains t.a then
            let i := t.ri
            let rd := { getRd cs i with cached := docOf cs.c.be t.a }
            let cs := { cs with c := { cs.c with rs := cs.c.rs.set i rd } }
            let cs := rdAct (rdAct cs i) i
            setTask cs ti { t with phase := 2, finished := rdDone cs i }
          else setTask cs ti { t with phase := 1 }
        else cs
    | none => cs) cs

def release (cs : ConcSt) (ti : Nat) : ConcSt :=
  match cs.tasks[ti]? with
  | none => cs
  | some t =>
      -- entries naming a task that has already returned are ignored (as the harness does)
      if t.finished || t.phase == 9 then cs
      else
        let (cs', d) :=
          if t.kind = "gc" then releaseGc cs ti t
          else if t.kind = "get" || t.kind = "get-warm" then releaseReader cs ti t
          else releaseWriter cs ti t
        wakeBlocked { cs' with trace := cs'.trace ++ [s!"{ti}:{d}"] }

/-- after the listed releases: run to completion without pre-emption (stay on the task released
last while it has not returned, else the lowest task id that has not returned) — the harness's
default continuation -/
def finishAll : Nat → ConcSt → Option Nat → ConcSt
  | 0, cs, _ => cs
  | fuel + 1, cs, cur =>
      let unfinished := (List.range cs.tasks.length).filter (fun i => match cs.tasks[i]? with | some t => !t.finished && t.phase != 9 | none => false)
      match unfinished with
      | [] => cs
      | first :: _ =>
          let pick := match cur with | some c => if unfinished.contains c then c else first | none => first
          finishAll fuel (release cs pick) (some pick)

/-- `get <key> <cond|-> [r=…] [head] [warm]`, cond ::= c+c+…, c ::= im | imx | inm | inmx | ius | iusm | ims | imsm:
the conditions are built from the key's commit when the tasks start (v1): `im`/`inm` its token, `imx`/`inmx` a
token nobody holds, `ius`/`ims` its time, `iusm`/`imsm` its time minus one -/
def parseReader (be : Backend) (k : Path) (cond : String) (rest : List String) : Option Rd :=
  let v1 := readCold be k
  let tok : Tok := (v1.map (·.tok)).getD (.foreign 777)
  let tm : Nat := (v1.map (·.time)).getD 1
  let cs := if cond = "-" then [] else cond.splitOn "+"
  let o0 : GetOpts := {}
  let o1? := cs.foldlM (fun (o : GetOpts) c =>
    if c = "im" then some { o with ifMatch := some (.tags [tok]) }
    else if c = "imx" then some { o with ifMatch := some (.tags [.foreign 778]) }
    else if c = "inm" then some { o with ifNoneMatch := some (.tags [tok]) }
    else if c = "inmx" then some { o with ifNoneMatch := some (.tags [.foreign 778]) }
    else if c = "ius" then some { o with ifUnmodifiedSince := some tm }
    else if c = "iusm" then some { o with ifUnmodifiedSince := some (tm - 1) }
    else if c = "ims" then some { o with ifModifiedSince := some tm }
    else if c = "imsm" then some { o with ifModifiedSince := some (tm - 1) }
    else none) o0
  match o1? with
  | none => none
  | some o1 =>
      let o2? := rest.foldlM (fun (o : GetOpts) a =>
        if a = "head" then some { o with head := true }
        else if a = "warm" then some o
        else match a.splitOn "=" with
          | ["r", r] => (parseRange r).map (fun r => { o with range := some r })
          | _ => none) o1
      o2?.map (fun o2 => { k := k, o := o2 })

def parseTaskW (ws : List String) (wi : Nat) : Option (Task × List Wr) :=
  match ws with
  | ["gc"] => some ({ kind := "gc" }, [])
  | ["put", k, size, seed] => do
      let k ← parseKey k; let size ← size.toNat?; let seed ← seed.toNat?
      let data := genBytes seed size
      pure ({ kind := "put", a := k, data := data, wi := wi }, [{ k := k, data := data }])
  | ["mput", k, sizes, seed] => do
      let k ← parseKey k; let sizes ← natList? sizes; let seed ← seed.toNat?
      let data := genBytes seed (sizes.foldl (· + ·) 0)
      pure ({ kind := "mput", a := k, data := data, wi := wi }, [{ k := k, data := data }])
  | ["copy", a, b] => do
      let a ← parseKey a; let b ← parseKey b
      pure ({ kind := "copy", a := a, b := b, wi := wi }, [{ k := b }])
  | ["ren", a, b] => do
      let a ← parseKey a; let b ← parseKey b
      pure ({ kind := "ren", a := a, b := b, wi := wi }, [{ k := b }, { k := a, del := true }])
  | ["del", k] => do
      let k ← parseKey k
      pure ({ kind := "del", a := k, wi := wi }, [{ k := k, del := true }])
  | _ => none

def parseTask (be : Backend) (ws : List String) (wi : Nat) (ri : Nat) : Option (Task × List Wr × List Rd) :=
  match ws with
  | "get" :: k :: cond :: rest => do
      let k ← parseKey k
      let rd ← parseReader be k cond rest
      pure ({ kind := if rest.contains "warm" then "get-warm" else "get", a := k, ri := ri, head := rd.o.head,
              oldTok := (readCold be k).map (·.tok) }, [], [rd])
  | _ => (parseTaskW ws wi).map (fun tw => (tw.1, tw.2, []))

def splitOnBar (ws : List String) : List (List String) :=
  ws.foldr (fun w acc => if w = "|" then [] :: acc else match acc with | [] => [[w]] | h :: t => (w :: h) :: t) [[]]

def parseTasks (be : Backend) (groups : List (List String)) : Option (List Task × List Wr × List Rd) :=
  groups.foldlM (fun (acc : List Task × List Wr × List Rd) g => do
    let (t, ws, rs) ← parseTask be g acc.2.1.length acc.2.2.length
    pure (acc.1 ++ [t], acc.2.1 ++ ws, acc.2.2 ++ rs)) ([], [], [])

def showRead (cs : ConcSt) (ti : Nat) (t : Task) : String :=
  let r := getRd cs t.ri
  let body :=
    match r.pc with
    | .done (.err e) => showErr e
    | .done (.got m rng data) =>
        let tk := if m.tok = t.oldTok then "old" else "new"
        if t.head then s!"ok size={m.size} tok={tk}" else s!"ok size={m.size} range={rng.1}..{rng.2} data={showData data} tok={tk}"
    | .done _ => "?"
    | _ => "unfinished"
  s!"r{ti}={body}"

def showFinal (cs : ConcSt) : String :=
  let keys := sortPaths (cs.c.be.filterMap (fun pe => match pe.1 with | .mt k => some k | _ => none))
  let reads := keys.map (fun k =>
    match readCold cs.c.be k with
    | some e => s!"{showKey k}={showData e.data}"
    | none => s!"{showKey k}=err:notfound")
  let rds := (List.range cs.tasks.length).filterMap (fun ti =>
    match cs.tasks[ti]? with
    | some t => if t.kind = "get" || t.kind = "get-warm" then some (showRead cs ti t) else none
    | none => none)
  " ".intercalate cs.trace ++ " | " ++ dumpBackend cs.c.be ++ " | " ++ " ".intercalate reads ++
    (if rds.isEmpty then "" else " | " ++ " ".intercalate rds) ++
    (if cs.bad.isEmpty then "" else " | bad=" ++ ",".intercalate cs.bad)

/-- the conc part of the C08 protocol -/
def stepConc (st : St) (conc : Option ConcSt) (ws : List String) : Option (St × Option ConcSt × String) :=
  match ws with
  | "tasks" :: rest =>
      match parseTasks st.w.be (splitOnBar rest) with
      | none => none
      | some (tasks, wrs, rds) =>
          let now := 3 * (st.calls + 1)
          let c : Cfg := { flavor := st.w.flavor, be := st.w.be, nextId := st.w.nextId, clock := now, ws := wrs, rs := rds }
          let warm := tasks.filterMap (fun t => if t.kind = "get-warm" && (docOf st.w.be t.a).isSome then some t.a else none)
          some ({ st with calls := st.calls + 1 }, some { c := c, tasks := tasks, seen := gensOf st.w.be, cacheKeys := warm.eraseDups }, "ok")
  | ["schedule", ids] =>
      match conc, natList? ids with
      | some cs, some ids =>
          let cs' := finishAll 400 (ids.foldl release cs) ids.getLast?
          -- the sequential protocol continues on a fresh wrapper instance over what the run left
          let w' : W := { flavor := st.w.flavor, be := cs'.c.be, nextId := cs'.c.nextId }
          some ({ st with w := w', calls := st.calls + cs'.c.clock + 1 }, some cs', showFinal cs')
      | _, _ => none
  | _ => none

end AndaVerif.ObjStoreConcProto
