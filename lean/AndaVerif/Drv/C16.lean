import AndaVerif.Model.KmlGuard
import AndaVerif.Model.KmlExec
import AndaVerif.Drv.Util
/-
Driver of the C16 model (`Model/KmlGuard`). One request per line, prefix notation, space separated.

  plan <n> Clause*n                              -> ok | err:<code>:<tag>
  export WList                                   -> ok | err:syntax:<tag>
  assert <seq> OptStr PropM Asg OptERef          -> ok <n> Clause*n | none:<reason>   (`assert_statement`)
  ensure OptStr PropM <0|1>                      -> ok Clause | none:<reason>          (`ensure_proposition`)
  exec <Kind> <UpdateAction variant> <n> (Str <str|arr|other>)*n -> ok:<plane> | err:<code>   (`apply_action`, run time)
  kind ERef OptWhere                             -> kinds:<k,…>|kinds:-   (the kinds `guard_update` guards the target for)

Strings: `=text` (text over [A-Za-z0-9_#.-], non-empty) or `~hex` (anything else; kept opaque —
strings are only compared, and every table constant is plain).

Lit      := <kind> Str <n> (<kind> Str)*n          kind ∈ null bool num str arr obj
DotPath  := Str <n> Str*n
Bound    := bv Lit | bp Str | bh Str | bx DotPath | ba <n> Bound*n | bo <n> (Str Bound)*n
Expr     := ev DotPath | en Str | ep Str | ef <fn> <n> Expr*n       fn ∈ add mul clamp coalesce
MV       := mv Lit | mp Str | mh Str | mx DotPath | ma <n> Bound*n | mo <n> (Str Bound)*n | me Expr
Asg      := <n> (Str MV)*n                          Opt X := - | + X
Scalar   := sl Lit | sp Str        Sym := yn Str | yp Str        ERef := rh Str | rp Str | ri Str
PAtom    := pv Str | pl Str | pp Str                PTerm := ta PAtom | tp <n> PAtom*n
MatchV   := Mv Str | Mp Str | Ml Lit | Ma <n> MatchV*n | Mm Matcher | Mq PropM
Matcher  := <n> (Str MatchV)*n
PropM    := qi Scalar | qt Term PTerm Term
Term     := Tv Str | Tp Str | Tl Lit | Tm Matcher | Tq PropM
BTarget  := gp Str | gi Scalar | gt Term PTerm Term
Where    := wc Str Matcher | wp OptStr PropM | wa Str Matcher | we Str Matcher | wv Str Matcher
          | ws OptStr Term Term | wb Str BTarget | wl Str Term PAtom | wf | wn WList | wo WList | wu WList
WList    := <n> Where*n
Edge     := Sym MV Opt(<n> (Str Bound)*n)           Removal := Sym MV
Facet    := Sym Asg                                 FacetUnset := Sym <n> Str*n
Action   := AF Asg | AA Asg | AC Facet | AU <n> Str*n | AD FacetUnset | AS <n> Edge*n | AR <n> Removal*n
Clause   := CC Str OptScalar OptAsg OptAsg <n> Facet*n Opt(<n> Edge*n)
          | UC Str OptMatcher OptAsg OptAsg <n> Facet*n Opt(<n> Str*n) <n> FacetUnset*n Opt(<n> Edge*n) Opt(<n> Removal*n)
          | EP OptStr Term PAtom Term <0|1>
          | CE|CA|CV Str OptScalar OptAsg <n> Facet*n Opt(<n> Edge*n)
          | UP ERef <n> Action*n OptWhere
          | RA ERef OptWhere | AV ERef OptWhere | TS ERef OptWhere
          | SA ERef ERef <0|1> | CR ERef ERef <0|1>
          | TA ERef OptAsg Opt(<n> Edge*n)
          | SR ERef Asg OptWhere
          | PG ERef OptWhere Str
          | MC ERef ERef OptWhere
-/
open AndaVerif.KmlGuard AndaVerif.Drv

namespace AndaVerif.DrvC16

abbrev P (α : Type) := List String → Option (α × List String)

def pStr : P String
  | t :: r =>
    if t.startsWith "=" then some ((t.drop 1).toString, r)
    else if t.startsWith "~" then some (t, r)
    else none
  | [] => none

def showStr (s : String) : String := if s.startsWith "~" then s else "=" ++ s

def pNat : P Nat
  | t :: r => t.toNat?.map (fun n => (n, r))
  | [] => none

def pBool : P Bool
  | "0" :: r => some (false, r)
  | "1" :: r => some (true, r)
  | _ => none

partial def pMany {α : Type} (p : P α) : Nat → P (List α)
  | 0, r => some ([], r)
  | n + 1, r => do
    let (x, r) ← p r
    let (xs, r) ← pMany p n r
    pure (x :: xs, r)

def pCounted {α : Type} (p : P α) : P (List α) := fun r => do
  let (n, r) ← pNat r
  if n > r.length then none
  pMany p n r

def pOpt {α : Type} (p : P α) : P (Option α)
  | "-" :: r => some (none, r)
  | "+" :: r => do let (x, r) ← p r; pure (some x, r)
  | _ => none

def pKind : P LitKind
  | "null" :: r => some (.null, r)
  | "bool" :: r => some (.bool, r)
  | "num" :: r => some (.num, r)
  | "str" :: r => some (.str, r)
  | "arr" :: r => some (.arr, r)
  | "obj" :: r => some (.obj, r)
  | _ => none

def showKind : LitKind → String
  | .null => "null" | .bool => "bool" | .num => "num" | .str => "str" | .arr => "arr" | .obj => "obj"

def pLit : P Lit := fun r => do
  let (k, r) ← pKind r
  let (s, r) ← pStr r
  let (items, r) ← pCounted (fun r => do let (k, r) ← pKind r; let (s, r) ← pStr r; pure ((k, s), r)) r
  pure ({ kind := k, repr := s, items := items }, r)

/-- the items of an array literal are not printed: the two sides compare kind and JSON text -/
def showLit (l : Lit) : String := s!"{showKind l.kind} {showStr l.repr} 0"

def pDotPath : P DotPath := fun r => do
  let (v, r) ← pStr r
  let (p, r) ← pCounted pStr r
  pure ({ var := v, path := p }, r)

def showDotPath (p : DotPath) : String :=
  " ".intercalate ([showStr p.var, toString p.path.length] ++ p.path.map showStr)

def listToBound : List BoundValue → BoundList
  | [] => .nil
  | v :: t => .cons v (listToBound t)

def listToFields : List (String × BoundValue) → BoundFields
  | [] => .nil
  | (k, v) :: t => .cons k v (listToFields t)

partial def pBound : P BoundValue
  | "bv" :: r => do let (l, r) ← pLit r; pure (.value l, r)
  | "bp" :: r => do let (s, r) ← pStr r; pure (.param s, r)
  | "bh" :: r => do let (s, r) ← pStr r; pure (.handle s, r)
  | "bx" :: r => do let (p, r) ← pDotPath r; pure (.var p, r)
  | "ba" :: r => do let (xs, r) ← pCounted pBound r; pure (.arr (listToBound xs), r)
  | "bo" :: r => do
    let (xs, r) ← pCounted (fun r => do let (k, r) ← pStr r; let (v, r) ← pBound r; pure ((k, v), r)) r
    pure (.obj (listToFields xs), r)
  | _ => none

def pBoundFields : P BoundFields := fun r => do
  let (xs, r) ← pCounted (fun r => do let (k, r) ← pStr r; let (v, r) ← pBound r; pure ((k, v), r)) r
  pure (listToFields xs, r)

mutual
partial def showBound : BoundValue → String
  | .value l => "bv " ++ showLit l
  | .param s => "bp " ++ showStr s
  | .handle s => "bh " ++ showStr s
  | .var p => "bx " ++ showDotPath p
  | .arr items => let xs := showBoundList items; " ".intercalate (["ba", toString xs.length] ++ xs)
  | .obj fields => let xs := showBoundFieldsL fields; " ".intercalate (["bo", toString xs.length] ++ xs)
partial def showBoundList : BoundList → List String
  | .nil => []
  | .cons v t => showBound v :: showBoundList t
partial def showBoundFieldsL : BoundFields → List String
  | .nil => []
  | .cons k v t => (showStr k ++ " " ++ showBound v) :: showBoundFieldsL t
end

def showBoundFields (f : BoundFields) : String :=
  let xs := showBoundFieldsL f
  " ".intercalate (toString xs.length :: xs)

def pFn : P UpdFn
  | "add" :: r => some (.add, r)
  | "mul" :: r => some (.mul, r)
  | "clamp" :: r => some (.clamp, r)
  | "coalesce" :: r => some (.coalesce, r)
  | _ => none

def listToExprs : List UpdateExpr → ExprList
  | [] => .nil
  | e :: t => .cons e (listToExprs t)

partial def pExpr : P UpdateExpr
  | "ev" :: r => do let (p, r) ← pDotPath r; pure (.var p, r)
  | "en" :: r => do let (s, r) ← pStr r; pure (.num s, r)
  | "ep" :: r => do let (s, r) ← pStr r; pure (.param s, r)
  | "ef" :: r => do
    let (f, r) ← pFn r
    let (xs, r) ← pCounted pExpr r
    pure (.func f (listToExprs xs), r)
  | _ => none

mutual
partial def showExpr : UpdateExpr → String
  | .var p => "ev " ++ showDotPath p
  | .num s => "en " ++ showStr s
  | .param s => "ep " ++ showStr s
  | .func f args =>
    let xs := showExprs args
    let fn := match f with | .add => "add" | .mul => "mul" | .clamp => "clamp" | .coalesce => "coalesce"
    " ".intercalate (["ef", fn, toString xs.length] ++ xs)
partial def showExprs : ExprList → List String
  | .nil => []
  | .cons e t => showExpr e :: showExprs t
end

def pMV : P MutationValue
  | "mv" :: r => do let (l, r) ← pLit r; pure (.value l, r)
  | "mp" :: r => do let (s, r) ← pStr r; pure (.param s, r)
  | "mh" :: r => do let (s, r) ← pStr r; pure (.handle s, r)
  | "mx" :: r => do let (p, r) ← pDotPath r; pure (.var p, r)
  | "ma" :: r => do let (xs, r) ← pCounted pBound r; pure (.arr (listToBound xs), r)
  | "mo" :: r => do let (f, r) ← pBoundFields r; pure (.obj f, r)
  | "me" :: r => do let (e, r) ← pExpr r; pure (.expr e, r)
  | _ => none

def showMV : MutationValue → String
  | .value l => "mv " ++ showLit l
  | .param s => "mp " ++ showStr s
  | .handle s => "mh " ++ showStr s
  | .var p => "mx " ++ showDotPath p
  | .arr items => let xs := showBoundList items; " ".intercalate (["ma", toString xs.length] ++ xs)
  | .obj fields => "mo " ++ showBoundFields fields
  | .expr e => "me " ++ showExpr e

def pAsg : P Assignments :=
  pCounted (fun r => do let (k, r) ← pStr r; let (v, r) ← pMV r; pure ((k, v), r))

def showAsg (a : Assignments) : String :=
  " ".intercalate (toString a.length :: a.map (fun kv => showStr kv.1 ++ " " ++ showMV kv.2))

def showOpt {α : Type} (f : α → String) : Option α → String
  | none => "-"
  | some x => "+ " ++ f x

def pScalar : P Scalar
  | "sl" :: r => do let (l, r) ← pLit r; pure (.lit l, r)
  | "sp" :: r => do let (s, r) ← pStr r; pure (.param s, r)
  | _ => none

def showScalar : Scalar → String
  | .lit l => "sl " ++ showLit l
  | .param s => "sp " ++ showStr s

def pSym : P SymbolRef
  | "yn" :: r => do let (s, r) ← pStr r; pure (.name s, r)
  | "yp" :: r => do let (s, r) ← pStr r; pure (.param s, r)
  | _ => none

def showSym : SymbolRef → String
  | .name s => "yn " ++ showStr s
  | .param s => "yp " ++ showStr s

def pERef : P ElementRef
  | "rh" :: r => do let (s, r) ← pStr r; pure (.handle s, r)
  | "rp" :: r => do let (s, r) ← pStr r; pure (.param s, r)
  | "ri" :: r => do let (s, r) ← pStr r; pure (.id s, r)
  | _ => none

def showERef : ElementRef → String
  | .handle s => "rh " ++ showStr s
  | .param s => "rp " ++ showStr s
  | .id s => "ri " ++ showStr s

def pPAtom : P PredAtom
  | "pv" :: r => do let (s, r) ← pStr r; pure (.vari s, r)
  | "pl" :: r => do let (s, r) ← pStr r; pure (.literal s, r)
  | "pp" :: r => do let (s, r) ← pStr r; pure (.param s, r)
  | _ => none

def showPAtom : PredAtom → String
  | .vari s => "pv " ++ showStr s
  | .literal s => "pl " ++ showStr s
  | .param s => "pp " ++ showStr s

def pPTerm : P PredTerm
  | "ta" :: r => do let (a, r) ← pPAtom r; pure (.atom a, r)
  | "tp" :: r => do let (xs, r) ← pCounted pPAtom r; pure (.path xs, r)
  | _ => none

def showPTerm : PredTerm → String
  | .atom a => "ta " ++ showPAtom a
  | .path xs => " ".intercalate (["tp", toString xs.length] ++ xs.map showPAtom)

def listToMatchList : List MatchValue → MatchList
  | [] => .nil
  | v :: t => .cons v (listToMatchList t)

def listToMatcher : List (String × MatchValue) → Matcher
  | [] => .nil
  | (k, v) :: t => .cons k v (listToMatcher t)

mutual
partial def pMatchV : P MatchValue
  | "Mv" :: r => do let (s, r) ← pStr r; pure (.vari s, r)
  | "Mp" :: r => do let (s, r) ← pStr r; pure (.param s, r)
  | "Ml" :: r => do let (l, r) ← pLit r; pure (.literal l, r)
  | "Ma" :: r => do let (xs, r) ← pCounted pMatchV r; pure (.array (listToMatchList xs), r)
  | "Mm" :: r => do let (m, r) ← pMatcher r; pure (.mtch m, r)
  | "Mq" :: r => do let (p, r) ← pPropM r; pure (.prop p, r)
  | _ => none
partial def pMatcher : P Matcher := fun r => do
  let (xs, r) ← pCounted (fun r => do let (k, r) ← pStr r; let (v, r) ← pMatchV r; pure ((k, v), r)) r
  pure (listToMatcher xs, r)
partial def pPropM : P PropMatcher
  | "qi" :: r => do let (s, r) ← pScalar r; pure (.id s, r)
  | "qt" :: r => do
    let (s, r) ← pTerm r
    let (p, r) ← pPTerm r
    let (o, r) ← pTerm r
    pure (.tuple s p o, r)
  | _ => none
partial def pTerm : P Term
  | "Tv" :: r => do let (s, r) ← pStr r; pure (.vari s, r)
  | "Tp" :: r => do let (s, r) ← pStr r; pure (.param s, r)
  | "Tl" :: r => do let (l, r) ← pLit r; pure (.literal l, r)
  | "Tm" :: r => do let (m, r) ← pMatcher r; pure (.mtch m, r)
  | "Tq" :: r => do let (p, r) ← pPropM r; pure (.prop p, r)
  | _ => none
end

mutual
partial def showMatchV : MatchValue → String
  | .vari s => "Mv " ++ showStr s
  | .param s => "Mp " ++ showStr s
  | .literal l => "Ml " ++ showLit l
  | .array items => let xs := showMatchList items; " ".intercalate (["Ma", toString xs.length] ++ xs)
  | .mtch m => "Mm " ++ showMatcher m
  | .prop p => "Mq " ++ showPropM p
partial def showMatchList : MatchList → List String
  | .nil => []
  | .cons v t => showMatchV v :: showMatchList t
partial def showMatcherL : Matcher → List String
  | .nil => []
  | .cons k v t => (showStr k ++ " " ++ showMatchV v) :: showMatcherL t
partial def showMatcher (m : Matcher) : String :=
  let xs := showMatcherL m
  " ".intercalate (toString xs.length :: xs)
partial def showPropM : PropMatcher → String
  | .id s => "qi " ++ showScalar s
  | .tuple s p o => s!"qt {showTerm s} {showPTerm p} {showTerm o}"
partial def showTerm : Term → String
  | .vari s => "Tv " ++ showStr s
  | .param s => "Tp " ++ showStr s
  | .literal l => "Tl " ++ showLit l
  | .mtch m => "Tm " ++ showMatcher m
  | .prop p => "Tq " ++ showPropM p
end

def pBTarget : P BeliefTarget
  | "gp" :: r => do let (s, r) ← pStr r; pure (.prop s, r)
  | "gi" :: r => do let (s, r) ← pScalar r; pure (.id s, r)
  | "gt" :: r => do
    let (s, r) ← pTerm r
    let (p, r) ← pPTerm r
    let (o, r) ← pTerm r
    pure (.tuple s p o, r)
  | _ => none

def listToWhere : List WhereClause → WhereList
  | [] => .nil
  | w :: t => .cons w (listToWhere t)

mutual
partial def pWhere : P WhereClause
  | "wc" :: r => do let (v, r) ← pStr r; let (m, r) ← pMatcher r; pure (.concept v m, r)
  | "wa" :: r => do let (v, r) ← pStr r; let (m, r) ← pMatcher r; pure (.assertion v m, r)
  | "we" :: r => do let (v, r) ← pStr r; let (m, r) ← pMatcher r; pure (.evidence v m, r)
  | "wv" :: r => do let (v, r) ← pStr r; let (m, r) ← pMatcher r; pure (.activity v m, r)
  | "wp" :: r => do let (v, r) ← pOpt pStr r; let (p, r) ← pPropM r; pure (.proposition v p, r)
  | "ws" :: r => do
    let (v, r) ← pOpt pStr r
    let (s, r) ← pTerm r
    let (o, r) ← pTerm r
    pure (.structural v s o, r)
  | "wb" :: r => do let (v, r) ← pStr r; let (t, r) ← pBTarget r; pure (.belief v t, r)
  | "wl" :: r => do
    let (v, r) ← pStr r
    let (s, r) ← pTerm r
    let (p, r) ← pPAtom r
    pure (.beliefSlot v s p, r)
  | "wf" :: r => some (.filter, r)
  | "wn" :: r => do let (ws, r) ← pWList r; pure (.not ws, r)
  | "wo" :: r => do let (ws, r) ← pWList r; pure (.optional ws, r)
  | "wu" :: r => do let (ws, r) ← pWList r; pure (.union ws, r)
  | _ => none
partial def pWList : P WhereList := fun r => do
  let (xs, r) ← pCounted pWhere r
  pure (listToWhere xs, r)
end

def pEdge : P StructuralEdge := fun r => do
  let (f, r) ← pSym r
  let (v, r) ← pMV r
  let (o, r) ← pOpt pBoundFields r
  pure ({ field := f, value := v, options := o }, r)

def showEdge (e : StructuralEdge) : String :=
  s!"{showSym e.field} {showMV e.value} {showOpt showBoundFields e.options}"

def showEdges (es : List StructuralEdge) : String :=
  " ".intercalate (toString es.length :: es.map showEdge)

def pRemoval : P StructuralRemoval := fun r => do
  let (f, r) ← pSym r
  let (v, r) ← pMV r
  pure ({ field := f, value := v }, r)

def pFacet : P FacetAssignment := fun r => do
  let (f, r) ← pSym r
  let (a, r) ← pAsg r
  pure ({ facet := f, values := a }, r)

def showFacet (f : FacetAssignment) : String := s!"{showSym f.facet} {showAsg f.values}"

def pFacetUnset : P FacetUnset := fun r => do
  let (f, r) ← pSym r
  let (xs, r) ← pCounted pStr r
  pure ({ facet := f, fields := xs }, r)

def pAction : P UpdateAction
  | "AF" :: r => do let (a, r) ← pAsg r; pure (.setFields a, r)
  | "AA" :: r => do let (a, r) ← pAsg r; pure (.setAttributes a, r)
  | "AC" :: r => do let (f, r) ← pFacet r; pure (.setFacet f, r)
  | "AU" :: r => do let (xs, r) ← pCounted pStr r; pure (.unsetAttributes xs, r)
  | "AD" :: r => do let (f, r) ← pFacetUnset r; pure (.unsetFacet f, r)
  | "AS" :: r => do let (es, r) ← pCounted pEdge r; pure (.setStructural es, r)
  | "AR" :: r => do let (rs, r) ← pCounted pRemoval r; pure (.unsetStructural rs, r)
  | _ => none

def pRecord : P RecordCreate := fun r => do
  let (h, r) ← pStr r
  let (ck, r) ← pOpt pScalar r
  let (sf, r) ← pOpt pAsg r
  let (fs, r) ← pCounted pFacet r
  let (es, r) ← pOpt (pCounted pEdge) r
  pure ({ handle := h, clientKey := ck, setFields := sf, setFacets := fs, setStructural := es }, r)

def showRecord (c : RecordCreate) : String :=
  " ".intercalate [showStr c.handle, showOpt showScalar c.clientKey, showOpt showAsg c.setFields,
    " ".intercalate (toString c.setFacets.length :: c.setFacets.map showFacet), showOpt showEdges c.setStructural]

def pTargetWhere : P TargetWhere := fun r => do
  let (t, r) ← pERef r
  let (w, r) ← pOpt pWList r
  pure ({ target := t, whereClauses := w }, r)

def pTargetBy : P TargetBy := fun r => do
  let (t, r) ← pERef r
  let (b, r) ← pERef r
  let (e, r) ← pBool r
  pure ({ target := t, by_ := b, expectState := e }, r)

def pClause : P MutationClause
  | "CC" :: r => do
    let (h, r) ← pStr r
    let (ck, r) ← pOpt pScalar r
    let (sf, r) ← pOpt pAsg r
    let (sa, r) ← pOpt pAsg r
    let (fs, r) ← pCounted pFacet r
    let (es, r) ← pOpt (pCounted pEdge) r
    pure (.createConcept { handle := h, clientKey := ck, setFields := sf, setAttributes := sa, setFacets := fs,
                           setStructural := es }, r)
  | "UC" :: r => do
    let (h, r) ← pStr r
    let (m, r) ← pOpt pMatcher r
    let (sf, r) ← pOpt pAsg r
    let (sa, r) ← pOpt pAsg r
    let (fs, r) ← pCounted pFacet r
    let (ua, r) ← pOpt (pCounted pStr) r
    let (uf, r) ← pCounted pFacetUnset r
    let (es, r) ← pOpt (pCounted pEdge) r
    let (rs, r) ← pOpt (pCounted pRemoval) r
    pure (.upsertConcept { handle := h, mtch := m, setFields := sf, setAttributes := sa, setFacets := fs,
                           unsetAttributes := ua, unsetFacets := uf, setStructural := es, unsetStructural := rs }, r)
  | "EP" :: r => do
    let (h, r) ← pOpt pStr r
    let (s, r) ← pTerm r
    let (p, r) ← pPAtom r
    let (o, r) ← pTerm r
    let (e, r) ← pBool r
    pure (.ensureProposition { handle := h, subject := s, predicate := p, object := o, expectVersion := e }, r)
  | "CE" :: r => do let (c, r) ← pRecord r; pure (.createEvidence c, r)
  | "CA" :: r => do let (c, r) ← pRecord r; pure (.createAssertion c, r)
  | "CV" :: r => do let (c, r) ← pRecord r; pure (.createActivity c, r)
  | "UP" :: r => do
    let (t, r) ← pERef r
    let (as, r) ← pCounted pAction r
    let (w, r) ← pOpt pWList r
    pure (.update { target := t, actions := as, whereClauses := w }, r)
  | "RA" :: r => do let (c, r) ← pTargetWhere r; pure (.retractAssertion c, r)
  | "AV" :: r => do let (c, r) ← pTargetWhere r; pure (.archive c, r)
  | "TS" :: r => do let (c, r) ← pTargetWhere r; pure (.tombstone c, r)
  | "SA" :: r => do let (c, r) ← pTargetBy r; pure (.supersedeAssertion c, r)
  | "CR" :: r => do let (c, r) ← pTargetBy r; pure (.correctEvidence c, r)
  | "TA" :: r => do
    let (t, r) ← pERef r
    let (sf, r) ← pOpt pAsg r
    let (es, r) ← pOpt (pCounted pEdge) r
    pure (.transitionActivity { target := t, setFields := sf, setStructural := es }, r)
  | "SR" :: r => do
    let (t, r) ← pERef r
    let (a, r) ← pAsg r
    let (w, r) ← pOpt pWList r
    pure (.setRetention { target := t, values := a, whereClauses := w }, r)
  | "PG" :: r => do
    let (t, r) ← pERef r
    let (w, r) ← pOpt pWList r
    let (c, r) ← pStr r
    pure (.purge { target := t, whereClauses := w, confirm := c }, r)
  | "MC" :: r => do
    let (s, r) ← pERef r
    let (i, r) ← pERef r
    let (w, r) ← pOpt pWList r
    pure (.mergeConcept { source := s, into := i, whereClauses := w }, r)
  | _ => none

/-- only the families ASSERT can produce are printed -/
def showClause : MutationClause → String
  | .ensureProposition c =>
    " ".intercalate ["EP", showOpt showStr c.handle, showTerm c.subject, showPAtom c.predicate, showTerm c.object,
      if c.expectVersion then "1" else "0"]
  | .createAssertion c => "CA " ++ showRecord c
  | .supersedeAssertion c =>
    " ".intercalate ["SA", showERef c.target, showERef c.by_, if c.expectState then "1" else "0"]
  | _ => "?"

def errTag : Err → String
  | .emptyPlan => "syntax:empty_plan"
  | .protectedKey _ => "syntax:protected"
  | .dupKey _ => "syntax:dup_key"
  | .arity => "syntax:arity"
  | .belief => "syntax:belief"
  | .predPath => "syntax:pred_path"
  | .literalSubject => "syntax:literal_subject"
  | .upsertIdentity => "syntax:upsert_identity"
  | .emptyUnsetStructural => "syntax:empty_unset_structural"
  | .predVariable => "syntax:pred_variable"
  | .noActions => "syntax:no_actions"
  | .immutableField _ => "syntax:immutable_field"
  | .structuralTarget => "syntax:structural_target"
  | .foreignPath => "syntax:foreign_path"
  | .purgeConfirm => "syntax:purge_confirm"
  | .dupHandle _ => "duplicate_handle:dup_handle"
  | .unboundHandle _ => "reference:unbound"
  | .emptyExport => "syntax:empty_export"

def showRes : Res → String
  | .ok _ => "ok"
  | .error e => "err:" ++ errTag e

def showBoundKind : BoundKind → String
  | .assertion => "assertion"
  | .evidence => "evidence"
  | .proposition => "proposition"
  | .concept => "concept"
  | .activity => "activity"

def showKinds (ks : List BoundKind) : String :=
  if ks.isEmpty then "kinds:-" else "kinds:" ++ ",".intercalate (ks.map showBoundKind)

def assertErrTag : AssertErr → String
  | .unknownMember => "unknown_member"
  | .missingBy => "missing_by"
  | .missingMode => "missing_mode"
  | .badKey => "bad_key"

def tupleErrTag : TupleErr → String
  | .bareId => "bare_id"
  | .predPath => "pred_path"
  | .predVariable => "pred_variable"

def handle (line : String) : String :=
  match words line with
  | "plan" :: r =>
    match pCounted pClause r with
    | some (cs, []) => showRes (validatePlan { clauses := cs })
    | _ => "bad-op"
  | "export" :: r =>
    match pWList r with
    | some (ws, []) => showRes (validateExport ws)
    | _ => "bad-op"
  | "kind" :: r =>
    match pERef r with
    | some (t, r) =>
      match pOpt pWList r with
      | some (w, []) => showKinds (updateKinds { target := t, actions := [], whereClauses := w })
      | _ => "bad-op"
    | none => "bad-op"
  | "assert" :: r =>
    let parsed : Option (Nat × AssertText) := do
      let (seq, r) ← pNat r
      let (h, r) ← pOpt pStr r
      let (pm, r) ← pPropM r
      let (m, r) ← pAsg r
      let (sup, r) ← pOpt pERef r
      if r ≠ [] then none
      pure (seq, { handle := h, matcher := pm, members := m, superseding := sup })
    match parsed with
    | some (seq, src) =>
      match lowerAssert src seq with
      | .ok cs => " ".intercalate (["ok", toString cs.length] ++ cs.map showClause)
      | .error (.members e) => "none:" ++ assertErrTag e
      | .error (.tuple e) => "none:" ++ tupleErrTag e
    | none => "bad-op"
  | "ensure" :: r =>
    let parsed : Option (Option String × PropMatcher × Bool) := do
      let (h, r) ← pOpt pStr r
      let (pm, r) ← pPropM r
      let (ev, r) ← pBool r
      if r ≠ [] then none
      pure (h, pm, ev)
    match parsed with
    | some (h, pm, ev) =>
      match lowerEnsure h pm ev with
      | .ok c => "ok " ++ showClause c
      | .error e => "none:" ++ tupleErrTag e
    | none => "bad-op"
  | "exec" :: kind :: variant :: r =>
    let k : Option KmlExec.ElemKind :=
      match kind with
      | "Concept" => some .concept | "Proposition" => some .proposition | "Assertion" => some .assertion
      | "Evidence" => some .evidence | "Activity" => some .activity | _ => none
    let fields : Option (List (String × KmlExec.JsonShape)) := do
      let (fs, r) ← pCounted (fun r => do
        let (f, r) ← pStr r
        match r with
        | "str" :: r => pure ((f, KmlExec.JsonShape.str), r)
        | "arr" :: r => pure ((f, KmlExec.JsonShape.arr), r)
        | "other" :: r => pure ((f, KmlExec.JsonShape.other), r)
        | _ => none) r
      if r ≠ [] then none
      pure fs
    let a : Option KmlExec.Action :=
      match variant, fields with
      | "SetFields", some fs => some (.setFields fs)
      | "SetAttributes", some [] => some .setAttributes
      | "UnsetAttributes", some [] => some .unsetAttributes
      | "SetFacet", some [] => some .setFacet
      | "UnsetFacet", some [] => some .unsetFacet
      | "SetStructural", some [] => some .setStructural
      | "UnsetStructural", some [] => some .unsetStructural
      | _, _ => none
    match k, a with
    | some k, some a =>
      match KmlExec.applyAction k a with
      | .ok (.core fs) => "ok:core:" ++ ",".intercalate (fs.map showStr)
      | .ok .attributes => "ok:attributes"
      | .ok .facets => "ok:facets"
      | .ok .structural => "ok:structural"
      | .error c => "err:" ++ c
    | _, _ => "bad-op"
  | _ => "bad-op"

end AndaVerif.DrvC16

def main : IO Unit :=
  AndaVerif.Drv.lineLoop () (fun _ line => ((), AndaVerif.DrvC16.handle line))
