import AndaVerif.Model.ConcColl
import AndaVerif.Gen.ConcConsts
import AndaVerif.Drv.Util
/-
Driver of the C05 model.  One request line = one execution:

  run conf <idxK> <idxU> | init <op> | … | op <op> | … | sched <c>,<c>,…
  op ::= add k u v | upd id k=..,u=..,v=.. | rm id | get id | flush | ext key val
  c  ::= s<task>  (the call is issued)  |  r<task>  (its oldest parked backend call is released)
       | a<task>  (gated replays: the call runs alone until it returns)
  optional parts:  fine  (index closures split per index)  ·  gate <task> <index>  (the task is
  held before the second index of its closure: the real-parallelism replays of F-C05-1/2)

`consts` answers the constants regenerated from the source.

The harness' executor is eager: after every choice it polls every runnable task up to its next
backend call.  The driver expands the choice list into a schedule of the model's atomic actions
with the same policy — tokio's locks are FIFO and hand the lock over at release time, woken tasks
run lowest index first — and then executes that schedule with `ConcColl.run` (= `runSchedule`).
Everything policy-related lives here, not in the model: the theorems quantify over *all*
schedules, the policy only picks the one the real executor took.
-/
open AndaVerif.ConcColl AndaVerif.Drv

namespace AndaVerif.DrvC05

inductive Want where
  | gate (writer : Bool) | lock (stripe : Nat) | wm | ext | parked | done | free

def want (sh : Shared) (gated : Bool) (th : Thread) : Want :=
  match th.pc, th.op with
  | .idxU, _ => if gated then .parked else .free
  | .done, _ => .done
  | .idle, .get _ => .free
  | .idle, .flush => .gate true
  | .idle, _ => .gate false
  | .lockWait, .upd id _ _ _ => .lock (stripe sh id)
  | .lockWait, .rm id => .lock (stripe sh id)
  | .wmWait, _ => .wm
  | .extWait, _ => .ext
  | _, _ => if gated then .free else .parked   -- a gated replay runs on a pass-through store

structure DS where
  c : Cfg
  gateQ : List Nat := []
  lockQ : List (Nat × Nat) := []
  wmQ : List Nat := []
  extQ : List Nat := []
  gGate : List Nat := []
  gLock : List (Nat × Nat) := []
  gWm : Option Nat := none
  gExt : Option Nat := none
  woken : List Nat := []
  fine : List Nat := []
  /-- real-parallelism replay: this task is held inside its index closure (before the second index) -/
  gated : Option Nat := none
  err : Option String := none

def isFlush (c : Cfg) (t : Nat) : Bool :=
  match c.th[t]? with
  | some th => th.op == .flush
  | none => false

def doStep (d : DS) (t : Nat) : DS :=
  match step t d.c with
  | some c' => { d with c := c', fine := t :: d.fine }
  | none => { d with err := d.err <|> some s!"action of task {t} is disabled after {d.fine.length} actions" }

/-- hand released locks over to the queue heads (FIFO), waking them -/
partial def grantGate (d : DS) : DS :=
  match d.gateQ with
  | [] => d
  | h :: rest =>
    let pendingWriter := d.gGate.any (isFlush d.c)
    if isFlush d.c h then
      if d.c.sh.writer.isNone && d.c.sh.readers.isEmpty && d.gGate.isEmpty then
        { d with gateQ := rest, gGate := [h], woken := h :: d.woken }
      else d
    else if d.c.sh.writer.isNone && !pendingWriter then
      grantGate { d with gateQ := rest, gGate := h :: d.gGate, woken := h :: d.woken }
    else d

def grantLocks (d : DS) : DS :=
  let stripes := (d.lockQ.map (·.1)).eraseDups
  stripes.foldl (fun d s =>
    if (d.c.sh.lock s).isNone && !(d.gLock.any (·.1 == s)) then
      match d.lockQ.find? (·.1 == s) with
      | some (_, t) => { d with lockQ := d.lockQ.erase (s, t), gLock := (s, t) :: d.gLock, woken := t :: d.woken }
      | none => d
    else d) d

def grantWm (d : DS) : DS :=
  match d.wmQ with
  | h :: rest => if d.c.sh.wmLock.isNone && d.gWm.isNone then { d with wmQ := rest, gWm := some h, woken := h :: d.woken } else d
  | [] => d

def grantExt (d : DS) : DS :=
  match d.extQ with
  | h :: rest => if d.c.sh.extLock.isNone && d.gExt.isNone then { d with extQ := rest, gExt := some h, woken := h :: d.woken } else d
  | [] => d

def grants (d : DS) : DS := grantExt (grantWm (grantLocks (grantGate d)))

def stepG (d : DS) (t : Nat) : DS := grants (doStep d t)

/-- run task `t` until it parks, blocks or ends -/
partial def runEager (d : DS) (t : Nat) : DS :=
  if d.err.isSome then d else
  match d.c.th[t]? with
  | none => { d with err := some s!"no task {t}" }
  | some th =>
    match want d.c.sh (d.gated == some t) th with
    | .parked | .done => d
    | .free => runEager (stepG d t) t
    | .gate w =>
      if d.gGate.contains t then runEager (stepG { d with gGate := d.gGate.erase t } t) t
      else
        let pendingWriter := d.gGate.any (isFlush d.c)
        let fast := if w then d.c.sh.writer.isNone && d.c.sh.readers.isEmpty && d.gGate.isEmpty && d.gateQ.isEmpty
                    else d.c.sh.writer.isNone && !pendingWriter && d.gateQ.isEmpty
        if fast then runEager (stepG d t) t
        else if d.gateQ.contains t then d else { d with gateQ := d.gateQ ++ [t] }
    | .lock s =>
      if d.gLock.contains (s, t) then runEager (stepG { d with gLock := d.gLock.erase (s, t) } t) t
      else if (d.c.sh.lock s).isNone && !(d.gLock.any (·.1 == s)) && !(d.lockQ.any (·.1 == s)) then runEager (stepG d t) t
      else if d.lockQ.contains (s, t) then d else { d with lockQ := d.lockQ ++ [(s, t)] }
    | .wm =>
      if d.gWm == some t then runEager (stepG { d with gWm := none } t) t
      else if d.c.sh.wmLock.isNone && d.gWm.isNone && d.wmQ.isEmpty then runEager (stepG d t) t
      else if d.wmQ.contains t then d else { d with wmQ := d.wmQ ++ [t] }
    | .ext =>
      if d.gExt == some t then runEager (stepG { d with gExt := none } t) t
      else if d.c.sh.extLock.isNone && d.gExt.isNone && d.extQ.isEmpty then runEager (stepG d t) t
      else if d.extQ.contains t then d else { d with extQ := d.extQ ++ [t] }

partial def settle (d : DS) : DS :=
  if d.err.isSome then d else
  match d.woken.min? with
  | none => d
  | some t => settle (runEager { d with woken := d.woken.filter (· != t) } t)

def choice (d : DS) (s : String) : DS :=
  if d.err.isSome then d else
  match (s.drop 1).toNat? with
  | none => { d with err := some s!"bad choice {s}" }
  | some t =>
    if s.startsWith "s" then settle { d with woken := [t] }
    else if s.startsWith "r" then
      match d.c.th[t]? with
      | none => { d with err := some s!"no task {t}" }
      | some th =>
        match want d.c.sh (d.gated == some t) th with
        | .parked => settle (runEager (stepG d t) t)
        | _ => { d with err := some s!"task {t} is not parked at a backend call after {d.fine.length} actions" }
    else if s.startsWith "a" then
      -- run the call alone until it returns or blocks (the store is pass-through in a gated replay)
      let rec go (fuel : Nat) (d : DS) : DS :=
        match fuel with
        | 0 => d
        | n + 1 =>
          match step t d.c with
          | some c' => go n { d with c := c', fine := t :: d.fine }
          | none => d
      go 64 d
    else { d with err := some s!"bad choice {s}" }

-- ------------------------------------------------------------------------------------------
-- parsing / printing
-- ------------------------------------------------------------------------------------------

def parseFields (s : String) : Option (Option Nat × Option Nat × Option Nat) :=
  if s = "-" then some (none, none, none) else
  (s.splitOn ",").foldlM (fun (acc : Option Nat × Option Nat × Option Nat) f =>
    match f.splitOn "=" with
    | ["k", x] => x.toNat?.map (fun x => (some x, acc.2.1, acc.2.2))
    | ["u", x] => x.toNat?.map (fun x => (acc.1, some x, acc.2.2))
    | ["v", x] => x.toNat?.map (fun x => (acc.1, acc.2.1, some x))
    | _ => none) (none, none, none)

def parseOp : List String → Option Op
  | ["add", k, u, v] => do pure (.add { k := ← k.toNat?, u := ← u.toNat?, v := ← v.toNat? })
  | ["upd", id, f] => do
      let id ← id.toNat?
      let (fk, fu, fv) ← parseFields f
      pure (.upd id fk fu fv)
  | ["rm", id] => id.toNat?.map .rm
  | ["get", id] => id.toNat?.map .get
  | ["flush"] => some .flush
  | ["ext", k, v] => do pure (.ext (← k.toNat?) (← v.toNat?))
  | _ => none

def showDoc (d : Doc) : String := s!"doc={d.k}/{d.u}/{d.v}"

def showErr : Err → String
  | .notFound => "err:notfound" | .exists => "err:exists" | .invalid => "err:invalid"
  | .precond => "err:precond" | .state => "err:state"

def showMeta (m : MetaSnap) : String := s!"{m.numDocs}/{m.inserts}/{m.updates}/{m.deletes}"

/-- `long`: append what a flush persisted (the concurrent calls); the pre-population prints the bare flag -/
def showRes (long : Bool) (snap : MetaSnap) : Option Res → String
  | none => "pending"
  | some (.added id) => s!"id={id}"
  | some (.doc d) => showDoc d
  | some .noDoc => "none"
  | some (.flushed b ids) =>
    if long then
      let i := match ids with | none => "x" | some l => showNats l
      let m := if ids.isSome then showMeta snap else "x"
      s!"flushed={b};ids={i};meta={m}"
    else s!"flushed={b}"
  | some .ok => "ok"
  | some (.err e) => showErr e

def insertPair (p : Nat × Nat) : List (Nat × Nat) → List (Nat × Nat)
  | [] => [p]
  | q :: qs => if p.1 < q.1 || (p.1 == q.1 && p.2 ≤ q.2) then p :: q :: qs else q :: insertPair p qs

def sortPairs (l : List (Nat × Nat)) : List (Nat × Nat) := l.foldl (fun acc p => insertPair p acc) []

def showPairs (l : List (Nat × Nat)) : String :=
  if l.isEmpty then "-" else ";".intercalate ((sortPairs l).map (fun p => s!"{p.1}:{p.2}"))

def dump (sh : Shared) : String :=
  let docs := sh.ids.map (fun id => match sh.store id with
    | some (d, _) => s!"{id}:{d.k}/{d.u}/{d.v}"
    | none => s!"{id}:err:notfound")
  let objs := (List.range (sh.maxId + 2)).filter (fun i => (sh.store i).isSome)
  let docsS := if docs.isEmpty then "-" else ";".intercalate docs
  let ik := if sh.conf.idxK then showPairs sh.idxK else "off"
  let iu := if sh.conf.idxU then showPairs sh.idxU else "off"
  s!"ids={showNats sh.ids} docs={docsS} idxK={ik} idxU={iu} counts={sh.inserts}/{sh.updates}/{sh.deletes} ext={showPairs sh.ext} objs={showNats objs} max={sh.maxId} ver={sh.statVer} poisoned={sh.poisoned}"

def runCase (parts : List String) : String := Id.run do
  let mut conf : Config := { idxK := false, idxU := false, stripes := Gen.ConcConsts.docLockStripes,
                             stride := Gen.ConcConsts.allocationWatermarkStride, fine := false }
  let mut inits : List Op := []
  let mut ops : List Op := []
  let mut sched : List String := []
  let mut gated : Option Nat := none
  for p in parts do
    match words p with
    | ["conf", a, b] => conf := { conf with idxK := a == "1", idxU := b == "1" }
    | ["fine"] => conf := { conf with fine := true }
    | ["gate", t, _] => gated := t.toNat?
    | "init" :: rest => match parseOp rest with
      | some o => inits := inits ++ [o]
      | none => return "bad-op"
    | "op" :: rest => match parseOp rest with
      | some o => ops := ops ++ [o]
      | none => return "bad-op"
    | ["sched", s] => sched := if s == "-" then [] else s.splitOn ","
    | _ => return "bad-op"
  -- sequential pre-population
  let mut sh := initShared conf
  let mut initRes : List String := []
  for o in inits do
    let c := runAlone 64 0 { sh := sh, th := [mkThread o] }
    sh := c.sh
    initRes := initRes ++ [showRes false default ((c.th[0]?).bind (·.res))]
  let c0 : Cfg := { sh := sh, th := ops.map mkThread }
  let d := sched.foldl choice ({ c := c0, gated := gated } : DS)
  match d.err with
  | some e => return s!"err:desync {e}"
  | none =>
    -- the execution proper: the model's `runSchedule` on the expanded schedule
    let c := run d.fine.reverse c0
    let res := c.th.map (fun th => showRes true th.snap th.res)
    return s!"init [{" | ".intercalate initRes}] res [{" | ".intercalate res}] {dump c.sh}"

def handle (line : String) : String :=
  if line == "consts" then
    s!"DOC_LOCK_STRIPES={Gen.ConcConsts.docLockStripes} ALLOCATION_WATERMARK_STRIDE={Gen.ConcConsts.allocationWatermarkStride}"
  else if line.startsWith "run " then
    runCase ((line.drop 4).toString.splitOn " | ")
  else "bad-op"

end AndaVerif.DrvC05

def main : IO Unit := lineLoop () (fun _ line => ((), AndaVerif.DrvC05.handle line))
