import AndaVerif.Model.Filter
import AndaVerif.Drv.Util
/-
Driver of the C03 model. Lines:
  reset
  ids <csv>                              live ids, ascending
  idx <ix> <key>:<csv> <key>:<csv> …     one B-tree index, keys ascending
  q first|last <limit|none> <filter>     query_ids / query_last_ids
  q all - <filter>                       query_all_ids
  s <limit> <cands csv> <filter>         filter stage of search_ids (candidates in relevance order)
  k first|last <limit> <ix> <rq>         the pre-fix key-order early stop on a bare field (diagnostic)
filter ::= I <rq> | F <ix> <rq> | O <n> f… | A <n> f… | N f
rq     ::= eq k | gt k | ge k | lt k | le k | bt a b | in <n> k… | and <n> q… | or <n> q… | not q
-/
open AndaVerif.Filter AndaVerif.Drv

namespace AndaVerif.DrvC03

partial def parseRQ : List String → Option (RQ × List String)
  | "eq" :: k :: r => k.toInt?.map (fun k => (.eq k, r))
  | "gt" :: k :: r => k.toInt?.map (fun k => (.gt k, r))
  | "ge" :: k :: r => k.toInt?.map (fun k => (.ge k, r))
  | "lt" :: k :: r => k.toInt?.map (fun k => (.lt k, r))
  | "le" :: k :: r => k.toInt?.map (fun k => (.le k, r))
  | "bt" :: a :: b :: r => do let a ← a.toInt?; let b ← b.toInt?; pure (.between a b, r)
  | "in" :: n :: r => do
      let n ← n.toNat?
      if r.length < n then none
      let ks ← (r.take n).mapM String.toInt?
      pure (.incl ks, r.drop n)
  | "and" :: n :: r => do let n ← n.toNat?; let (qs, r) ← parseRQs n r; pure (.and qs, r)
  | "or" :: n :: r => do let n ← n.toNat?; let (qs, r) ← parseRQs n r; pure (.or qs, r)
  | "not" :: r => do let (q, r) ← parseRQ r; pure (.not q, r)
  | _ => none
where
  parseRQs : Nat → List String → Option (List RQ × List String)
    | 0, r => some ([], r)
    | n + 1, r => do let (q, r) ← parseRQ r; let (qs, r) ← parseRQs n r; pure (q :: qs, r)

partial def parseF : List String → Option (Filter × List String)
  | "I" :: r => do let (q, r) ← parseRQ r; pure (.id q, r)
  | "F" :: ix :: r => do let ix ← ix.toNat?; let (q, r) ← parseRQ r; pure (.field ix q, r)
  | "O" :: n :: r => do let n ← n.toNat?; let (fs, r) ← parseFs n r; pure (.or fs, r)
  | "A" :: n :: r => do let n ← n.toNat?; let (fs, r) ← parseFs n r; pure (.and fs, r)
  | "N" :: r => do let (f, r) ← parseF r; pure (.not f, r)
  | _ => none
where
  parseFs : Nat → List String → Option (List Filter × List String)
    | 0, r => some ([], r)
    | n + 1, r => do let (f, r) ← parseF r; let (fs, r) ← parseFs n r; pure (f :: fs, r)

def parsePosting (s : String) : Option (Int × List Nat) :=
  match s.splitOn ":" with
  | [k, ids] => do let k ← k.toInt?; let ids ← natList? ids; pure (k, ids)
  | _ => none

def showRes : Except Err (List Nat) → String
  | .ok r => "ok " ++ showNats r
  | .error .noIndex => "err:noindex"
  | .error .complexity => "err:complexity"

def setIdx (idx : List (Nat × OMap)) (ix : Nat) (m : OMap) : List (Nat × OMap) :=
  (ix, m) :: idx.filter (fun p => p.1 != ix)

def step (c : Coll) (line : String) : Coll × String :=
  match words line with
  | ["reset"] => ({ ids := [], idx := [] }, "ok")
  | ["ids", csv] =>
      match natList? csv with
      | some ids => ({ c with ids := ids }, "ok")
      | none => (c, "bad-op")
  | "idx" :: ix :: posts =>
      match ix.toNat?, posts.mapM parsePosting with
      | some ix, some m => ({ c with idx := setIdx c.idx ix m }, "ok")
      | _, _ => (c, "bad-op")
  | "q" :: which :: lim :: rest =>
      match parseF rest with
      | some (f, []) =>
          let limit : Option (Option Nat) := if lim = "none" ∨ lim = "-" then some none else lim.toNat?.map some
          match which, limit with
          | "first", some l => (c, showRes (apiQueryIds c f l))
          | "last", some l => (c, showRes (apiQueryLastIds c f l))
          | "all", _ => (c, showRes (apiQueryAllIds c f))
          | _, _ => (c, "bad-op")
      | _ => (c, "bad-op")
  | "s" :: lim :: cands :: rest =>
      match lim.toNat?, natList? cands, parseF rest with
      | some l, some cs, some (f, []) => (c, showRes (guarded f (searchFilter c f cs l)))
      | _, _, _ => (c, "bad-op")
  | "S" :: lim :: cands :: rest =>
      -- the whole of `search_ids`: lim = none | n; cands = none (no search part) | - (no candidate) | a,b,c;
      -- rest = nofilter | <filter>
      let limit : Option (Option Nat) := if lim = "none" then some none else lim.toNat?.map some
      let cs : Option (Option (List Nat)) :=
        if cands = "none" then some none else if cands = "-" then some (some []) else (natList? cands).map some
      let f : Option (Option Filter) :=
        if rest = ["nofilter"] then some none
        else match parseF rest with
          | some (f, []) => some (some f)
          | _ => none
      match limit, cs, f with
      | some l, some cs, some f => (c, showRes (apiSearchIds c f cs l))
      | _, _, _ => (c, "bad-op")
  | "k" :: which :: lim :: ix :: rest =>
      match lim.toNat?, ix.toNat?, parseRQ rest with
      | some l, some ix, some (q, []) =>
          match lookupIdx c.idx ix with
          | none => (c, "err:noindex")
          | some m =>
              let desc := which == "last"
              (c, "ok " ++ showNats (truncate desc (isort (fieldScanKeyOrderStop m q none l desc)) l))
      | _, _, _ => (c, "bad-op")
  | ["consts"] => (c, s!"MAX_SEARCH_LIMIT={maxSearchLimit}")
  | ["searchconsts"] =>
      (c, s!"factor={Gen.FilterConsts.searchFactor} cap={Gen.FilterConsts.searchCap} default={Gen.FilterConsts.searchDefaultLimit}")
  | "budget" :: rest =>
      match parseF rest with
      | some (f, []) => (c, if withinBudget f then "ok" else "err:complexity")
      | _ => (c, "bad-op")
  | _ => (c, "bad-op")

end AndaVerif.DrvC03

def main : IO Unit := lineLoop ({ ids := [], idx := [] } : Coll) AndaVerif.DrvC03.step
