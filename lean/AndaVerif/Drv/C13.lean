import AndaVerif.Model.Schema
import AndaVerif.Model.SchemaDoc
import AndaVerif.Model.SchemaJson
import AndaVerif.Drv.Util
/-
Driver of the C13 model. One request per line, tokens separated by one space.

  type   ::= B | I | U | D | F | Y | T | J | V | A<n> type*n | M<n> (key type)*n | O type
  key    ::= kt<hex utf8> | ki<int> | kb<hex>
  value  ::= b0 | b1 | i<int> | u<nat> | d<hex16 bits> | f<hex8 bits> | y<hex> | t<hex utf8>
           | j json | v<hex, 4 digits per element> | a<n> value*n | m<n> (key value)*n | z
  json   ::= jz | jb0 | jb1 | ju<nat> | ji<int> | jd<hex16> | js<hex> | ja<n> json*n | jo<n> (k<hex key> json)*n
  cbor   ::= cb0 | cb1 | ci<int> | cd<hex16> | cy<hex> | ct<hex> | ca<n> cbor*n | cm<n> (cbor cbor)*n | cz
  hint   ::= - | item,item,…   item = <hex16>: an f64 bit pattern for which the JSON clause of is_f32_read_back holds;
                               item = <hex8>><hex16>: f32 bits > the f64 serde_json parses from its own rendering of that f32
                                     (computed by the harness; the shortest-decimal rule is not modelled)

  cx - <maxDepth> <maxNodes> <maxArrayLen> <maxMapEntries> value    -> ok | err
  val <hint> type value        FieldType::validate                  -> ok | err
  norm <hint> type value       FieldType::normalize                 -> value
  prune - type value           FieldType::prune_undeclared          -> value
  set <hint> type value        Document::set_field                  -> ok value | err
  rt <hint> type value         set_field, then load of the stored value -> err | ok value | <load answer>
  load <hint> type value       cbor2 encode, decode, try_from_doc   -> ok value | err:ser | err:de | err:read
  ext <hint> type cbor         FieldType::extract                   -> ok value | err
  jrt <hint> type value        set_field, then serde_json text → FieldValue → try_from_doc -> err | ok value | <answer of jload>
  jload <hint> type value      serde_json::to_string, from_str, try_from_doc -> ok value | err:ser | err:de | err:read
  ext <hint> type cbor         Document::try_from, one field        -> ok value | err
  compat - newtype oldtype     FieldType::is_compatible_upgrade_of  -> true | false
 stateful (one current schema, a list of stored documents; `reset` -> ok forgets both):
  schema - <ver> <n> (name u0|u1 type)*n     SchemaBuilder, fields in add order   -> ok name:idx,… end=<watermark> | err
  upgrade - <ver> <n> (name u0|u1 type)*n    build, then upgrade_with(current)    -> same | err   (state kept on err)
  put <hint> <n> (name value)*n              set_id(1), set_field*, encode        -> ok <doc#> | err | err:ser
  typed <hint> <n> (name cbor)*n             Document::try_from, encode           -> ok <doc#> | err | err:ser
  get <hint> <doc#>                          decode, try_from_doc(current)        -> ok <n> (idx value)*n | err:de | err:read
-/
open AndaVerif.Schema AndaVerif.Drv

namespace AndaVerif.DrvC13

/-! ### hex / utf8 -/

def hexVal (c : Char) : Option Nat :=
  if '0' ≤ c ∧ c ≤ '9' then some (c.toNat - '0'.toNat)
  else if 'a' ≤ c ∧ c ≤ 'f' then some (c.toNat - 'a'.toNat + 10)
  else none

def hexNat? (s : String) : Option Nat :=
  if s.isEmpty then none else s.toList.foldlM (fun acc c => (hexVal c).map (fun d => acc * 16 + d)) 0

def hexBytes? (s : String) : Option (List Nat) :=
  let rec go : List Char → Option (List Nat)
    | [] => some []
    | a :: b :: r => do let x ← hexVal a; let y ← hexVal b; let rest ← go r; pure ((x * 16 + y) :: rest)
    | _ => none
  go s.toList

def hexWords? (s : String) : Option (List Nat) :=
  let rec go : List Char → Option (List Nat)
    | [] => some []
    | a :: b :: c :: d :: r => do
      let a ← hexVal a; let b ← hexVal b; let c ← hexVal c; let d ← hexVal d
      let rest ← go r
      pure ((((a * 16 + b) * 16 + c) * 16 + d) :: rest)
    | _ => none
  go s.toList

def hexText? (s : String) : Option String := do
  let bs ← hexBytes? s
  String.fromUTF8? (ByteArray.mk (bs.map (fun b => UInt8.ofNat b)).toArray)

def hexDigit (n : Nat) : Char :=
  if n < 10 then Char.ofNat ('0'.toNat + n) else Char.ofNat ('a'.toNat + n - 10)

def byteHex (b : Nat) : String := String.ofList [hexDigit (b / 16 % 16), hexDigit (b % 16)]

def bytesHex (bs : List Nat) : String := String.join (bs.map byteHex)

def textHex (s : String) : String := bytesHex (s.toUTF8.toList.map (·.toNat))

def natHex (width : Nat) (n : Nat) : String :=
  String.ofList ((List.range width).reverse.map (fun i => hexDigit (n / 16 ^ i % 16)))

def dropPrefix (s : String) (n : Nat) : String := String.ofList (s.toList.drop n)

/-! ### parsers -/

def parseKey (tok : String) : Option FieldKey :=
  if tok.startsWith "kt" then (hexText? (dropPrefix tok 2)).map .text
  else if tok.startsWith "ki" then (dropPrefix tok 2).toInt?.map .i64
  else if tok.startsWith "kb" then (hexBytes? (dropPrefix tok 2)).map .bytes
  else none

partial def parseType : List String → Option (FieldType × List String)
  | "B" :: r => some (.bool, r)
  | "I" :: r => some (.i64, r)
  | "U" :: r => some (.u64, r)
  | "D" :: r => some (.f64, r)
  | "F" :: r => some (.f32, r)
  | "Y" :: r => some (.bytes, r)
  | "T" :: r => some (.text, r)
  | "J" :: r => some (.json, r)
  | "V" :: r => some (.vector, r)
  | "O" :: r => do let (t, r) ← parseType r; pure (.option t, r)
  | tok :: r =>
    if tok.startsWith "A" then do
      let n ← (dropPrefix tok 1).toNat?
      let (ts, r) ← many n r
      pure (.array ts, r)
    else if tok.startsWith "M" then do
      let n ← (dropPrefix tok 1).toNat?
      let (kts, r) ← manyKeyed n r
      pure (.map kts, r)
    else none
  | [] => none
where
  many : Nat → List String → Option (List FieldType × List String)
    | 0, r => some ([], r)
    | n + 1, r => do let (t, r) ← parseType r; let (ts, r) ← many n r; pure (t :: ts, r)
  manyKeyed : Nat → List String → Option (List (FieldKey × FieldType) × List String)
    | 0, r => some ([], r)
    | n + 1, k :: r => do
      let k ← parseKey k
      let (t, r) ← parseType r
      let (ts, r) ← manyKeyed n r
      pure ((k, t) :: ts, r)
    | _, [] => none

partial def parseJson : List String → Option (Json × List String)
  | "jz" :: r => some (.null, r)
  | "jb0" :: r => some (.bool false, r)
  | "jb1" :: r => some (.bool true, r)
  | tok :: r =>
    if tok.startsWith "ju" then (dropPrefix tok 2).toNat?.map (fun n => (.uint n, r))
    else if tok.startsWith "ji" then (dropPrefix tok 2).toInt?.map (fun n => (.nint n, r))
    else if tok.startsWith "jd" then (hexNat? (dropPrefix tok 2)).map (fun n => (.float n, r))
    else if tok.startsWith "js" then (hexText? (dropPrefix tok 2)).map (fun s => (.str s, r))
    else if tok.startsWith "ja" then do
      let n ← (dropPrefix tok 2).toNat?
      let (xs, r) ← many n r
      pure (.arr xs, r)
    else if tok.startsWith "jo" then do
      let n ← (dropPrefix tok 2).toNat?
      let (xs, r) ← manyKeyed n r
      pure (.obj xs, r)
    else none
  | [] => none
where
  many : Nat → List String → Option (List Json × List String)
    | 0, r => some ([], r)
    | n + 1, r => do let (t, r) ← parseJson r; let (ts, r) ← many n r; pure (t :: ts, r)
  manyKeyed : Nat → List String → Option (List (String × Json) × List String)
    | 0, r => some ([], r)
    | n + 1, k :: r => do
      if !k.startsWith "k" then none
      let k ← hexText? (dropPrefix k 1)
      let (t, r) ← parseJson r
      let (ts, r) ← manyKeyed n r
      pure ((k, t) :: ts, r)
    | _, [] => none

partial def parseValue : List String → Option (FieldValue × List String)
  | "z" :: r => some (.null, r)
  | "b0" :: r => some (.bool false, r)
  | "b1" :: r => some (.bool true, r)
  | "j" :: r => do let (j, r) ← parseJson r; pure (.json j, r)
  | tok :: r =>
    if tok.startsWith "i" then (dropPrefix tok 1).toInt?.map (fun n => (.i64 n, r))
    else if tok.startsWith "u" then (dropPrefix tok 1).toNat?.map (fun n => (.u64 n, r))
    else if tok.startsWith "d" then (hexNat? (dropPrefix tok 1)).map (fun n => (.f64 n, r))
    else if tok.startsWith "f" then (hexNat? (dropPrefix tok 1)).map (fun n => (.f32 n, r))
    else if tok.startsWith "y" then (hexBytes? (dropPrefix tok 1)).map (fun b => (.bytes b, r))
    else if tok.startsWith "t" then (hexText? (dropPrefix tok 1)).map (fun s => (.text s, r))
    else if tok.startsWith "v" then (hexWords? (dropPrefix tok 1)).map (fun b => (.vector b, r))
    else if tok.startsWith "a" then do
      let n ← (dropPrefix tok 1).toNat?
      let (xs, r) ← many n r
      pure (.array xs, r)
    else if tok.startsWith "m" then do
      let n ← (dropPrefix tok 1).toNat?
      let (xs, r) ← manyKeyed n r
      pure (.map xs, r)
    else none
  | [] => none
where
  many : Nat → List String → Option (List FieldValue × List String)
    | 0, r => some ([], r)
    | n + 1, r => do let (t, r) ← parseValue r; let (ts, r) ← many n r; pure (t :: ts, r)
  manyKeyed : Nat → List String → Option (List (FieldKey × FieldValue) × List String)
    | 0, r => some ([], r)
    | n + 1, k :: r => do
      let k ← parseKey k
      let (t, r) ← parseValue r
      let (ts, r) ← manyKeyed n r
      pure ((k, t) :: ts, r)
    | _, [] => none

partial def parseDM : List String → Option (DM × List String)
  | "cz" :: r => some (.null, r)
  | "cb0" :: r => some (.bool false, r)
  | "cb1" :: r => some (.bool true, r)
  | tok :: r =>
    if tok.startsWith "ci" then (dropPrefix tok 2).toInt?.map (fun n => (.int n, r))
    else if tok.startsWith "cd" then (hexNat? (dropPrefix tok 2)).map (fun n => (.float n, r))
    else if tok.startsWith "cy" then (hexBytes? (dropPrefix tok 2)).map (fun b => (.bytes b, r))
    else if tok.startsWith "ct" then (hexText? (dropPrefix tok 2)).map (fun s => (.text s, r))
    else if tok.startsWith "ca" then do
      let n ← (dropPrefix tok 2).toNat?
      let (xs, r) ← many n r
      pure (.array xs, r)
    else if tok.startsWith "cm" then do
      let n ← (dropPrefix tok 2).toNat?
      let (xs, r) ← manyKeyed n r
      pure (.map xs, r)
    else none
  | [] => none
where
  many : Nat → List String → Option (List DM × List String)
    | 0, r => some ([], r)
    | n + 1, r => do let (t, r) ← parseDM r; let (ts, r) ← many n r; pure (t :: ts, r)
  manyKeyed : Nat → List String → Option (List (DM × DM) × List String)
    | 0, r => some ([], r)
    | n + 1, r => do
      let (k, r) ← parseDM r
      let (t, r) ← parseDM r
      let (ts, r) ← manyKeyed n r
      pure ((k, t) :: ts, r)

/-! ### printers -/

def showKey : FieldKey → String
  | .text s => "kt" ++ textHex s
  | .i64 i => "ki" ++ toString i
  | .bytes b => "kb" ++ bytesHex b

partial def showJson : Json → String
  | .null => "jz"
  | .bool b => if b then "jb1" else "jb0"
  | .uint n => "ju" ++ toString n
  | .nint i => "ji" ++ toString i
  | .float d => "jd" ++ natHex 16 d
  | .str s => "js" ++ textHex s
  | .arr xs => " ".intercalate (("ja" ++ toString xs.length) :: xs.map showJson)
  | .obj kvs => " ".intercalate (("jo" ++ toString kvs.length) :: kvs.map (fun kv => "k" ++ textHex kv.1 ++ " " ++ showJson kv.2))

partial def showValue : FieldValue → String
  | .bool b => if b then "b1" else "b0"
  | .i64 i => "i" ++ toString i
  | .u64 n => "u" ++ toString n
  | .f64 d => "d" ++ natHex 16 d
  | .f32 x => "f" ++ natHex 8 x
  | .bytes b => "y" ++ bytesHex b
  | .text s => "t" ++ textHex s
  | .json j => "j " ++ showJson j
  | .vector bs => "v" ++ String.join (bs.map (natHex 4))
  | .array vs => " ".intercalate (("a" ++ toString vs.length) :: vs.map showValue)
  | .map kvs => " ".intercalate (("m" ++ toString kvs.length) :: kvs.map (fun kv => showKey kv.1 ++ " " ++ showValue kv.2))
  | .null => "z"

/-! ### the float model of the driver (never used in a proof) -/

def f64 (n : Nat) : Float := Float.ofBits (UInt64.ofNat n)
def f32 (n : Nat) : Float32 := Float32.ofBits (UInt32.ofNat n)

def drvFloat (hint : List Nat) : FloatModel where
  isNaN64 n := (f64 n).isNaN
  isNaN32 n := (f32 n).isNaN
  isFinite64 n := (f64 n).isFinite
  isInf32 n := (f32 n).isInf
  widen n := (f32 n).toFloat.toBits.toNat
  narrow n := (f64 n).toFloat32.toBits.toNat
  jsonReadBack n := hint.contains n

def parseHint (s : String) : Option (List Nat) :=
  if s = "-" then some [] else ((s.splitOn ",").filter (fun i => !(i.contains '>'))).mapM hexNat?

/-- the `f32 bits > f64 bits` items of a hint -/
def parseWiden (s : String) : Option (List (Nat × Nat)) :=
  if s = "-" then some [] else ((s.splitOn ",").filter (fun i => i.contains '>')).mapM (fun i =>
    match i.splitOn ">" with
    | [a, b] => do pure (← hexNat? a, ← hexNat? b)
    | _ => none)

/-! ### the text model of the driver: real prefixes, URL-safe Base64 with padding, decimal -/

def b64Alphabet : Array Char := "ABCDEFGHIJKLMNOPQRSTUVWXYZabcdefghijklmnopqrstuvwxyz0123456789-_".toList.toArray

def b64Encode : List Nat → List Char
  | [] => []
  | [a] => [b64Alphabet[a / 4]!, b64Alphabet[(a % 4) * 16]!, '=', '=']
  | [a, b] => [b64Alphabet[a / 4]!, b64Alphabet[(a % 4) * 16 + b / 16]!, b64Alphabet[(b % 16) * 4]!, '=']
  | a :: b :: c :: r =>
    b64Alphabet[a / 4]! :: b64Alphabet[(a % 4) * 16 + b / 16]! :: b64Alphabet[(b % 16) * 4 + c / 64]! ::
      b64Alphabet[c % 64]! :: b64Encode r

def b64Val (c : Char) : Option Nat := (b64Alphabet.toList.findIdx? (· == c))

/-- strict decoding: canonical padding and zero trailing bits, as the `base64` crate's default -/
partial def b64Decode : List Char → Option (List Nat)
  | [] => some []
  | [a, b, '=', '='] => do
    let a ← b64Val a; let b ← b64Val b
    if b % 16 != 0 then none else pure [a * 4 + b / 16]
  | [a, b, c, '='] => do
    let a ← b64Val a; let b ← b64Val b; let c ← b64Val c
    if c % 4 != 0 then none else pure [a * 4 + b / 16, (b % 16) * 16 + c / 4]
  | a :: b :: c :: d :: r => do
    let a ← b64Val a; let b ← b64Val b; let c ← b64Val c; let d ← b64Val d
    let rest ← b64Decode r
    pure ((a * 4 + b / 16) :: ((b % 16) * 16 + c / 4) :: ((c % 4) * 64 + d) :: rest)
  | _ => none

def drvText : TextModel where
  needsEscape s := s.startsWith "b64:" || s.startsWith "txt:" || s.startsWith "i64:"
  esc s := "txt:" ++ s
  b64 b := "b64:" ++ String.ofList (b64Encode b)
  i64s i := "i64:" ++ toString i
  classify s :=
    if s.startsWith "i64:" then .i64 (dropPrefix s 4).toInt?
    else if s.startsWith "b64:" then .b64 (b64Decode (dropPrefix s 4).toList)
    else if s.startsWith "txt:" then .txt (dropPrefix s 4)
    else .plain

def jloadStr (fm : FloatModel) (jw : Nat → Nat) (ft : FieldType) (v : FieldValue) : String :=
  match toJ fm drvText jw v with
  | none => "err:ser"
  | some j => match fromJ drvText j with
    | none => "err:de"
    | some r => match readPath fm ft r with
      | none => "err:read"
      | some x => "ok " ++ showValue x

def wfArgs (fm : FloatModel) (v : FieldValue) : Bool := v.WF fm

def loadStr (fm : FloatModel) (ft : FieldType) (v : FieldValue) : String :=
  match toDM fm v with
  | none => "err:ser"
  | some dm => match readBack fm dm with
    | none => "err:de"
    | some r => match readPath fm ft r with
      | none => "err:read"
      | some x => "ok " ++ showValue x

def valueStep (ws : List String) : Option String :=
  match ws with
  | "cx" :: _ :: d :: n :: a :: m :: rest => do
    let b : Budget := ⟨← d.toNat?, ← n.toNat?, ← a.toNat?, ← m.toNat?⟩
    let (v, r) ← parseValue rest
    if !r.isEmpty then none
    pure (if complexityOk b v then "ok" else "err")
  | op :: hint :: rest => do
    let fm := drvFloat (← parseHint hint)
    let (ft, rest) ← parseType rest
    let (v, r) ← parseValue rest
    if !r.isEmpty then none
    if !(v.WF fm) then none
    match op with
    | "val" => pure (if validate fm ft v then "ok" else "err")
    | "norm" => pure (showValue (normalize fm ft v))
    | "prune" => pure (showValue (prune ft v))
    | "set" => pure (match setField fm ft v with | some s => "ok " ++ showValue s | none => "err")
    | "rt" =>
      match setField fm ft v with
      | none => pure "err"
      | some s => pure ("ok " ++ showValue s ++ " | " ++ loadStr fm ft s)
    | "load" => pure (loadStr fm ft v)
    | "jload" | "jrt" =>
      let ws ← parseWiden hint
      -- a missing pair is a protocol error, not a default
      let jw : Nat → Nat := fun x => match ws.lookup x with | some d => d | none => 0
      if op == "jload" then pure (jloadStr fm jw ft v)
      else match setField fm ft v with
        | none => pure "err"
        | some s => pure ("ok " ++ showValue s ++ " | " ++ jloadStr fm jw ft s)
    | _ => none
  | _ => none

structure St where
  schema : Option Schema := none
  docs : Array Doc := #[]

def showSchema (s : Schema) : String :=
  "ok " ++ ",".intercalate (s.fields.map (fun f => f.name ++ ":" ++ toString f.idx)) ++ " end=" ++ toString s.allocatedIdxEnd

partial def parseFields : Nat → List String → Option (List (String × FieldType × Bool) × List String)
  | 0, r => some ([], r)
  | n + 1, name :: u :: r => do
    let u ← (if u == "u1" then some true else if u == "u0" then some false else none)
    let (t, r) ← parseType r
    let (fs, r) ← parseFields n r
    pure ((name, t, u) :: fs, r)
  | _, _ => none

partial def parseNamed {α : Type} (p : List String → Option (α × List String)) : Nat → List String → Option (List (String × α) × List String)
  | 0, r => some ([], r)
  | n + 1, name :: r => do
    let (v, r) ← p r
    let (vs, r) ← parseNamed p n r
    pure ((name, v) :: vs, r)
  | _, _ => none

def showDoc (d : Doc) : String :=
  " ".intercalate (("ok " ++ toString d.length) :: d.map (fun e => toString e.1 ++ " " ++ showValue e.2))

def storeDoc (fm : FloatModel) (st : St) (d : Doc) : St × String :=
  if d.all (fun e => (toDM fm e.2).isSome) then
    ({ st with docs := st.docs.push d }, "ok " ++ toString st.docs.size)
  else (st, "err:ser")

def docStep (st : St) (ws : List String) : Option (St × String) :=
  match ws with
  | ["reset"] => some ({}, "ok")
  | "ext" :: hint :: rest => do
    let fm := drvFloat (← parseHint hint)
    let (ft, rest) ← parseType rest
    let (c, r) ← parseDM rest
    if !r.isEmpty then none
    pure (st, match extractField fm ft c with | some v => "ok " ++ showValue v | none => "err")
  | "compat" :: _ :: rest => do
    let (n, rest) ← parseType rest
    let (o, r) ← parseType rest
    if !r.isEmpty then none
    pure (st, if compatible n o then "true" else "false")
  | "schema" :: _ :: ver :: n :: rest => do
    let (fs, r) ← parseFields (← n.toNat?) rest
    if !r.isEmpty then none
    match Schema.build (← ver.toNat?) fs with
    | some s => pure ({ schema := some s, docs := #[] }, showSchema s)
    | none => pure (st, "err")
  | "upgrade" :: _ :: ver :: n :: rest => do
    let (fs, r) ← parseFields (← n.toNat?) rest
    if !r.isEmpty then none
    let cur ← st.schema
    match Schema.build (← ver.toNat?) fs with
    | none => pure (st, "err")
    | some new => match Schema.upgradeWith new cur with
      | some s => pure ({ st with schema := some s }, showSchema s)
      | none => pure (st, "err")
  | "put" :: hint :: n :: rest => do
    let fm := drvFloat (← parseHint hint)
    let (fs, r) ← parseNamed parseValue (← n.toNat?) rest
    if !r.isEmpty then none
    if !(fs.all (fun f => f.2.WF fm)) then none
    let s ← st.schema
    let d := fs.foldl (fun (acc : Option Doc) f => match acc with
      | none => none
      | some d => Doc.setField fm s d f.1 f.2) (some [(0, FieldValue.u64 1)])
    match d with
    | none => pure (st, "err")
    | some d => pure (storeDoc fm st d)
  | "typed" :: hint :: n :: rest => do
    let fm := drvFloat (← parseHint hint)
    let (fs, r) ← parseNamed parseDM (← n.toNat?) rest
    if !r.isEmpty then none
    let s ← st.schema
    match tryFromTyped fm s (fs.map (fun f => (DM.text f.1, f.2))) with
    | none => pure (st, "err")
    | some d => pure (storeDoc fm st d)
  | ["get", hint, k] => do
    let fm := drvFloat (← parseHint hint)
    let s ← st.schema
    match st.docs[(← k.toNat?)]? with
    | none => pure (st, "nodoc")
    | some d => match Doc.storeDecode fm d with
      | none => pure (st, "err:de")
      | some r => match tryFromDoc fm s r with
        | none => pure (st, "err:read")
        | some x => pure (st, showDoc x)
  | _ => none

end AndaVerif.DrvC13

open AndaVerif.DrvC13 in
def main : IO Unit :=
  AndaVerif.Drv.lineLoop ({} : St) (fun st line =>
    let ws := AndaVerif.Drv.words line
    match docStep st ws with
    | some (st', out) => (st', out)
    | none => match valueStep ws with
      | some out => (st, out)
      | none => (st, "bad-op"))
