import AndaVerif.Drv.Coll
/-
Driver of the C02 model (index ⟷ document agreement): the shared collection line protocol, see
`Drv/Coll.lean`.
-/
def main : IO Unit :=
  AndaVerif.Drv.lineLoop (AndaVerif.Collection.dinit [], AndaVerif.DrvColl.Pending.none) AndaVerif.DrvColl.stepLine
