import AndaVerif.Model.Hnsw
import AndaVerif.Drv.Util
/-
Driver of the C12 model. Lines:
  reset
  node <id> <layer> <l0>;<l1>;…        one graph node; each `l` is a csv of neighbour ids or `-`
  del <id>                               drop a node from the map
  entry <id> <layer>                     entry point
  dist <id>:<key> <id>:<key> …           distance keys of the current query (replaces the table)
  search <k> <efSearch> [f32|bf16 <finite 0|1> <dimok 0|1>]
                                         → `ok id:key,id:key,…` | `err:notfound <id>` | `err:…`
  layer <ep> <layer> <ef>                raw `search_layer` (diagnostic)
  consts
-/
open AndaVerif.Hnsw AndaVerif.Drv

namespace AndaVerif.DrvC12

structure St where
  nodes : NodeMap := []
  entry : Nat × Nat := (0, 0)
  dist : List (Nat × Nat) := []

def lookupDist (t : List (Nat × Nat)) (i : Nat) : Option Nat :=
  match t with
  | [] => none
  | (j, d) :: r => if j = i then some d else lookupDist r i

def parseLists (s : String) : Option (List (List Nat)) :=
  if s = "!" then some [] else (s.splitOn ";").mapM natList?

def parsePair (s : String) : Option (Nat × Nat) :=
  match s.splitOn ":" with
  | [a, b] => do let a ← a.toNat?; let b ← b.toNat?; pure (a, b)
  | _ => none

def showEnts (r : List Ent) : String :=
  if r.isEmpty then "-" else ",".intercalate (r.map (fun e => s!"{e.2}:{e.1}"))

def showRes : Except Err (List Ent) → String
  | .ok r => "ok " ++ showEnts r
  | .error (.notFound i) => s!"err:notfound {i}"
  | .error .distance => "err:distance"
  | .error .invalid => "err:invalid"
  | .error .dimension => "err:dimension"
  | .error .fuel => "err:fuel"

def step (s : St) (line : String) : St × String :=
  match words line with
  | ["reset"] => ({}, "ok")
  | ["node", id, layer, lists] =>
      match id.toNat?, layer.toNat?, parseLists lists with
      | some id, some layer, some ls =>
          ({ s with nodes := (id, ⟨layer, ls⟩) :: s.nodes.filter (fun p => p.1 != id) }, "ok")
      | _, _, _ => (s, "bad-op")
  | ["del", id] =>
      match id.toNat? with
      | some id => ({ s with nodes := s.nodes.filter (fun p => p.1 != id) }, "ok")
      | none => (s, "bad-op")
  | ["entry", id, layer] =>
      match id.toNat?, layer.toNat? with
      | some id, some layer => ({ s with entry := (id, layer) }, "ok")
      | _, _ => (s, "bad-op")
  | "dist" :: pairs =>
      match pairs.mapM parsePair with
      | some t => ({ s with dist := t }, "ok")
      | none => (s, "bad-op")
  | ["search", k, ef] =>
      match k.toNat?, ef.toNat? with
      | some k, some ef => (s, showRes (searchF32 s.nodes s.entry (lookupDist s.dist) k ef true true))
      | _, _ => (s, "bad-op")
  | ["search", k, ef, which, fin, dim] =>
      match k.toNat?, ef.toNat? with
      | some k, some ef =>
          let fin := fin == "1"
          let dim := dim == "1"
          if which == "bf16" then (s, showRes (searchBf16 s.nodes s.entry (lookupDist s.dist) k ef fin dim))
          else (s, showRes (searchF32 s.nodes s.entry (lookupDist s.dist) k ef fin dim))
      | _, _ => (s, "bad-op")
  | ["layer", ep, layer, ef] =>
      match ep.toNat?, layer.toNat?, ef.toNat? with
      | some ep, some layer, some ef => (s, showRes (searchLayer s.nodes (lookupDist s.dist) ep layer ef))
      | _, _, _ => (s, "bad-op")
  | ["consts"] =>
      (s, s!"MAX_EF_SEARCH={maxEfSearch} SEARCH_MAX_ATTEMPTS={searchMaxAttempts} F32_MAX_KEY={f32MaxKey}")
  | _ => (s, "bad-op")

end AndaVerif.DrvC12

def main : IO Unit := lineLoop ({} : AndaVerif.DrvC12.St) AndaVerif.DrvC12.step
