import AndaVerif.Model.Hnsw
import AndaVerif.Model.HnswStore
import AndaVerif.Model.HnswMetric
import AndaVerif.Drv.Util
/-
Driver of the C12 model. Lines:
  reset
  node <id> <layer> <l0>;<l1>;…        one graph node; each `l` is a csv of neighbour ids or `-`; `!` = no lists
  del <id>                               drop a node from the map
  entry <id> <layer>                     entry point
  ids <csv> / removed <csv> / dirty <csv>
  ver <version> <saved> <maxLayer> <maxLayers>
  dist <id>:<key> <id>:<key> …           distance keys of the current query (replaces the table)
  search <k> <efSearch> [f32|bf16 <finite 0|1> <dimok 0|1>]
                                         → `ok id:key,id:key,…` | `err:notfound <id>` | `err:…`
  layer <ep> <layer> <ef>                raw `search_layer` (diagnostic)
  edit <id> <layer> <lists>              a neighbour rewritten by the next insert (accumulated)
  insert <id> <layer> <lists> <pick id> <pick layer> <valid 0|1> [<print lists 0|1>]
                                         → `<true|false> <state>` (bookkeeping of `insert`; the new node and the edits are inputs)
  remove <id> <pick id> <pick layer> <reconnect 0|1>
                                         → `<true|false> <state>`; with reconnect the node lists are not printed
  capture                                → `some <tags>` | `none`: snapshot of the current index (`capture_flush_snapshot`)
  wwrite                                 → the next write of the snapshot becomes durable
  wfinish <lists 0|1>                    → remaining writes, then `commit`; prints the state
  durable                                → `ids=… meta=… blobs=<key:id:layer:dimok:finite:lists|…>`
  writes                                 → tags of `wrapperWrites` (`n<id>`, `ids`, `meta`, `d<id>`)
  dreset / dput <key> <blob id> <layer> <dimok> <finite> <lists> / dids <csv>|none /
  dmeta <entry id> <entry layer> <version> <maxLayer> <maxLayers> <removed csv> | dmeta none
  load <pick id> <pick layer>            → `ok <state>` | `err:load` ; the loaded index becomes the state
  afterflush                             → in-memory effect of a complete flush + purge (`afterFlush`); prints the state
  create <maxLayers>                     → state + durable objects right after `Hnsw::new` (empty index flushed)
  closer <e|c|i|m> <q ints> <a ints> <b ints>   → exact-metric comparison `closer` (csv of integers)
  cov                                    → which model branches were visited: `tag=count …`
  consts
<state> = e=<id>,<layer> ml=<maxLayer> v=<version> pending=<0|1> ids=<csv> rm=<csv> dirty=<csv of dirty ids that have a live node> nodes=<id:layer:lists|…>
-/
open AndaVerif.Hnsw AndaVerif.Drv

namespace AndaVerif.DrvC12

structure St where
  ix : Index := {}
  dur : Durable := {}
  dist : List (Nat × Nat) := []
  edits : List (Nat × Node) := []
  snap : Option Snapshot := none
  pendingW : List Write := []
  /-- which branches of the model the run has visited -/
  cov : List (String × Nat) := []

def lookupDist (t : List (Nat × Nat)) (i : Nat) : Option Nat :=
  match t with
  | [] => none
  | (j, d) :: r => if j = i then some d else lookupDist r i

def parseLists (s : String) : Option (List (List Nat)) :=
  if s = "!" then some [] else (s.splitOn ";").mapM natList?

def parsePair (s : String) : Option (Nat × Nat) :=
  match s.splitOn ":" with
  | [a, b] => do let a ← a.toNat?; let b ← b.toNat?; pure (a, b)
  | _ => none

def showEnts (r : List Ent) : String :=
  if r.isEmpty then "-" else ",".intercalate (r.map (fun e => s!"{e.2}:{e.1}"))

def showRes : Except Err (List Ent) → String
  | .ok r => "ok " ++ showEnts r
  | .error (.notFound i) => s!"err:notfound {i}"
  | .error .distance => "err:distance"
  | .error .invalid => "err:invalid"
  | .error .dimension => "err:dimension"
  | .error .fuel => "err:fuel"

def insSorted (x : Nat) : List Nat → List Nat
  | [] => [x]
  | y :: r => if x < y then x :: y :: r else if x = y then y :: r else y :: insSorted x r

/-- ascending, duplicate-free (set semantics of the bitmap / BTreeSets) -/
def sortSet (l : List Nat) : List Nat := l.foldr insSorted []

def insNode (p : Nat × Node) : List (Nat × Node) → List (Nat × Node)
  | [] => [p]
  | q :: r => if p.1 < q.1 then p :: q :: r else q :: insNode p r

def showLists (n : List (List Nat)) : String :=
  if n.isEmpty then "!" else ";".intercalate (n.map showNats)

def showNodes (m : NodeMap) (withLists : Bool) : String :=
  let sorted := m.foldr insNode []
  if sorted.isEmpty then "-"
  else "|".intercalate (sorted.map (fun p =>
    if withLists then s!"{p.1}:{p.2.layer}:{showLists p.2.nbrs}" else s!"{p.1}:{p.2.layer}"))

def showState (s : Index) (withLists : Bool) : String :=
  s!"e={s.entry.1},{s.entry.2} ml={s.maxLayer} v={s.version} pending={if s.savedVersion < s.version then 1 else 0} " ++
  s!"ids={showNats (sortSet s.ids)} rm={showNats (sortSet s.removed)} " ++
  s!"dirty={showNats (sortSet (s.dirty.filter (fun i => (getNode s.nodes i).isSome)))} " ++
  s!"nodes={showNodes s.nodes withLists}"

def showBlobs (bs : List (Nat × Blob)) : String :=
  let ins (p : Nat × Blob) : List (Nat × Blob) → List (Nat × Blob) := fun l =>
    let rec go : List (Nat × Blob) → List (Nat × Blob)
      | [] => [p]
      | q :: r => if p.1 < q.1 then p :: q :: r else q :: go r
    go l
  let sorted := bs.foldr ins []
  if sorted.isEmpty then "-"
  else "|".intercalate (sorted.map (fun p =>
    s!"{p.1}:{p.2.id}:{p.2.layer}:{if p.2.dimOk then 1 else 0}:{if p.2.finite then 1 else 0}:{showLists p.2.nbrs}"))

def showDurable (d : Durable) : String :=
  let ids := match d.ids with | some l => showNats (sortSet l) | none => "none"
  let mt := match d.metaObj with
    | some m => s!"{m.entry.1},{m.entry.2},{m.version},{m.maxLayer},{m.maxLayers},{showNats (sortSet m.removed)}"
    | none => "none"
  s!"ids={ids} meta={mt} blobs={showBlobs d.blobs}"

def writeTag : Write → String
  | .node i _ => s!"n{i}"
  | .ids _ => "ids"
  | .metaPut _ => "meta"
  | .del i => s!"d{i}"

def bump (c : List (String × Nat)) (k : String) : List (String × Nat) :=
  match c with
  | [] => [(k, 1)]
  | (k', n) :: r => if k' = k then (k', n + 1) :: r else (k', n) :: bump r k

def St.hit (s : St) (ks : List String) : St := { s with cov := ks.foldl bump s.cov }

def hasDangling (m : NodeMap) : Bool :=
  m.any (fun p => p.2.nbrs.any (fun l => l.any (fun x => (getNode m x).isNone)))

def searchTags (s : St) (k ef : Nat) (r : Except Err (List Ent)) : List String :=
  let m := s.ix.nodes
  let base := match r with
    | .ok [] => "search:ok-empty"
    | .ok _ => "search:ok-nonempty"
    | .error (.notFound _) => "search:err-notfound"
    | .error .distance => "search:err-distance"
    | .error .invalid => "search:err-invalid"
    | .error .dimension => "search:err-dimension"
    | .error .fuel => "search:err-fuel"
  let extra : List String :=
    (if hasDangling m then ["search:graph-has-dangling-edge"] else []) ++
    (if s.ix.entry.2 > 0 then ["search:descent-layers>0"] else []) ++
    (if k > m.length then ["search:k>n"] else []) ++
    (if k > maxEfSearch then ["search:k>MAX_EF"] else []) ++
    (if ef < k then ["search:ef<k"] else []) ++
    (if m.isEmpty then ["search:empty-index"] else []) ++
    (match r with
     | .ok res => (if res.length < k && res.length < m.length then ["search:fewer-than-k-and-n"] else []) ++
                  (if (res.zip res.tail).any (fun p => p.1.1 == p.2.1) then ["search:tie-in-answer"] else [])
     | _ => [])
  base :: extra

def parseMetric : String → Option Metric
  | "e" => some .euclidean | "c" => some .cosine | "i" => some .innerProduct | "m" => some .manhattan | _ => none

def step (s : St) (line : String) : St × String :=
  match words line with
  | ["reset"] => ({ cov := s.cov }, "ok")
  | ["node", id, layer, lists] =>
      match id.toNat?, layer.toNat?, parseLists lists with
      | some id, some layer, some ls =>
          ({ s with ix := { s.ix with nodes := (id, ⟨layer, ls⟩) :: s.ix.nodes.filter (fun p => p.1 != id) } }, "ok")
      | _, _, _ => (s, "bad-op")
  | ["del", id] =>
      match id.toNat? with
      | some id => ({ s with ix := { s.ix with nodes := s.ix.nodes.filter (fun p => p.1 != id) } }, "ok")
      | none => (s, "bad-op")
  | ["entry", id, layer] =>
      match id.toNat?, layer.toNat? with
      | some id, some layer => ({ s with ix := { s.ix with entry := (id, layer) } }, "ok")
      | _, _ => (s, "bad-op")
  | ["ids", csv] =>
      match natList? csv with
      | some l => ({ s with ix := { s.ix with ids := l } }, "ok")
      | none => (s, "bad-op")
  | ["removed", csv] =>
      match natList? csv with
      | some l => ({ s with ix := { s.ix with removed := l } }, "ok")
      | none => (s, "bad-op")
  | ["dirty", csv] =>
      match natList? csv with
      | some l => ({ s with ix := { s.ix with dirty := l } }, "ok")
      | none => (s, "bad-op")
  | ["ver", v, sv, ml, mls] =>
      match v.toNat?, sv.toNat?, ml.toNat?, mls.toNat? with
      | some v, some sv, some ml, some mls =>
          ({ s with ix := { s.ix with version := v, savedVersion := sv, maxLayer := ml, maxLayers := mls } }, "ok")
      | _, _, _, _ => (s, "bad-op")
  | "dist" :: pairs =>
      match pairs.mapM parsePair with
      | some t => ({ s with dist := t }, "ok")
      | none => (s, "bad-op")
  | ["search", k, ef] =>
      match k.toNat?, ef.toNat? with
      | some k, some ef =>
          let r := searchF32 s.ix.nodes s.ix.entry (lookupDist s.dist) k ef true true
          (s.hit (searchTags s k ef r), showRes r)
      | _, _ => (s, "bad-op")
  | ["search", k, ef, which, fin, dim] =>
      match k.toNat?, ef.toNat? with
      | some k, some ef =>
          let fin := fin == "1"
          let dim := dim == "1"
          let r := if which == "bf16" then searchBf16 s.ix.nodes s.ix.entry (lookupDist s.dist) k ef fin dim
                   else searchF32 s.ix.nodes s.ix.entry (lookupDist s.dist) k ef fin dim
          (s.hit ((if which == "bf16" then "search:entry-bf16" else "search:entry-f32") :: searchTags s k ef r), showRes r)
      | _, _ => (s, "bad-op")
  | ["layer", ep, layer, ef] =>
      match ep.toNat?, layer.toNat?, ef.toNat? with
      | some ep, some layer, some ef => (s, showRes (searchLayer s.ix.nodes (lookupDist s.dist) ep layer ef))
      | _, _, _ => (s, "bad-op")
  | ["remove", id, pid, pl, rc] =>
      match id.toNat?, pid.toNat?, pl.toNat? with
      | some id, some pid, some pl =>
          let r := remove s.ix id (pid, pl) (fun _ _ l => l)
          let tags : List String :=
            if !r.2 then ["remove:absent"]
            else (if s.ix.entry.1 == id then [if r.1.nodes.isEmpty then "remove:entry-removed-index-empty" else "remove:entry-replaced"] else ["remove:entry-kept"]) ++
                 (if r.1.maxLayer != s.ix.maxLayer then ["remove:max-layer-changed"] else []) ++
                 (if (sortSet (r.1.dirty.filter (fun i => (getNode r.1.nodes i).isSome))).length >
                      (sortSet ((s.ix.dirty.filter (fun x => x != id)).filter (fun i => (getNode r.1.nodes i).isSome))).length
                  then ["remove:neighbour-rewritten"] else ["remove:no-neighbour-rewritten"]) ++
                 (if pickOk (eraseKey s.ix.nodes id) (pid, pl) then [] else (if s.ix.entry.1 == id && !r.1.nodes.isEmpty then ["remove:PICK-NOT-ADMISSIBLE"] else []))
          ({ s with ix := r.1 }.hit tags, s!"{r.2} {showState r.1 (rc != "1")}")
      | _, _, _ => (s, "bad-op")
  | ["edit", id, layer, lists] =>
      match id.toNat?, layer.toNat?, parseLists lists with
      | some id, some layer, some ls => ({ s with edits := (id, ⟨layer, ls⟩) :: s.edits }, "ok")
      | _, _, _ => (s, "bad-op")
  | "insert" :: id :: layer :: lists :: pid :: pl :: valid :: rest =>
      match id.toNat?, layer.toNat?, parseLists lists, pid.toNat?, pl.toNat? with
      | some id, some layer, some ls, some pid, some pl =>
          let r := insertAbs s.ix id ⟨layer, ls⟩ s.edits (pid, pl) (valid == "1")
          let tags : List String :=
            if valid != "1" then ["insert:invalid"]
            else if (getNode s.ix.nodes id).isSome then ["insert:exists"]
            else if s.ix.nodes.isEmpty then ["insert:first-node"]
            else (if (getNode s.ix.nodes s.ix.entry.1).isNone then ["insert:entry-self-heal"] else []) ++
                 (if r.1.entry.1 == id then ["insert:entry-promoted"] else ["insert:entry-kept"]) ++
                 (if s.ix.removed.contains id then ["insert:tombstone-cleared"] else []) ++
                 (if s.edits.isEmpty then ["insert:no-neighbour-rewritten"] else ["insert:neighbours-rewritten"])
          ({ s with ix := r.1, edits := [] }.hit tags, s!"{r.2} {showState r.1 (rest != ["0"])}")
      | _, _, _, _, _ => (s, "bad-op")
  | ["capture"] =>
      match capture s.ix with
      | some sn => ({ s with snap := some sn, pendingW := sn.writes },
                    "some " ++ (if sn.writes.isEmpty then "-" else ",".intercalate (sn.writes.map writeTag)))
      | none => ({ s with snap := none, pendingW := [] }, "none")
  | ["wwrite"] =>
      match s.pendingW with
      | [] => (s, "none")
      | w :: r => ({ s with dur := applyWrite s.dur w, pendingW := r }, "ok " ++ writeTag w)
  | ["wfinish", lists] =>
      let d := applyWrites s.dur s.pendingW
      let ix := match s.snap with
        | some sn => commit s.ix sn
        | none => s.ix
      let tag := match s.snap with
        | some sn => if commitClears s.ix sn then "window:commit-clears-marks" else "window:commit-keeps-marks"
        | none => "window:nothing-pending"
      ({ s with dur := d, ix := ix, pendingW := [], snap := none }.hit [tag], showState ix (lists == "1"))
  | ["durable"] => (s, showDurable s.dur)
  | ["writes"] =>
      let ws := wrapperWrites s.ix
      let tags := (if flushPending s.ix then ["flush:pending"] else ["flush:nothing-pending"]) ++
                  (if (purgeWrites s.ix).isEmpty then [] else ["flush:purge-deletes"]) ++
                  (if (s.ix.removed.any (fun i => (getNode s.ix.nodes i).isSome)) then ["flush:tombstone-of-reinserted-id-skipped"] else [])
      (s.hit tags, if ws.isEmpty then "-" else ",".intercalate (ws.map writeTag))
  | ["afterflush"] =>
      let ix := afterFlush s.ix
      ({ s with ix := ix }.hit ["flush:after"], showState ix true)
  | ["create", mls] =>
      match mls.toNat? with
      | some mls => ({ s with ix := createS mls, dur := createD mls }.hit ["create"], showState (createS mls) true ++ " " ++ showDurable (createD mls))
      | none => (s, "bad-op")
  | ["closer", ms, q, a, b] =>
      match parseMetric ms, intList? q, intList? a, intList? b with
      | some m, some q, some a, some b =>
          (s.hit [s!"closer:{ms}"], s!"{closer m q a b}")
      | _, _, _, _ => (s, "bad-op")
  | ["cov"] => (s, if s.cov.isEmpty then "-" else " ".intercalate (s.cov.map (fun p => s!"{p.1}={p.2}")))
  | ["dreset"] => ({ s with dur := {} }, "ok")
  | ["dput", key, bid, layer, dimok, fin, lists] =>
      match key.toNat?, bid.toNat?, layer.toNat?, parseLists lists with
      | some key, some bid, some layer, some ls =>
          let b : Blob := { id := bid, layer := layer, nbrs := ls, dimOk := dimok == "1", finite := fin == "1" }
          ({ s with dur := applyWrite s.dur (.node key b) }, "ok")
      | _, _, _, _ => (s, "bad-op")
  | ["dids", csv] =>
      if csv = "none" then ({ s with dur := { s.dur with ids := none } }, "ok")
      else match natList? csv with
        | some l => ({ s with dur := applyWrite s.dur (.ids l) }, "ok")
        | none => (s, "bad-op")
  | ["dmeta", "none"] => ({ s with dur := { s.dur with metaObj := none } }, "ok")
  | ["dmeta", eid, el, v, ml, mls, rm] =>
      match eid.toNat?, el.toNat?, v.toNat?, ml.toNat?, mls.toNat?, natList? rm with
      | some eid, some el, some v, some ml, some mls, some rm =>
          ({ s with dur := applyWrite s.dur (.metaPut ⟨(eid, el), v, rm, ml, mls⟩) }, "ok")
      | _, _, _, _, _, _ => (s, "bad-op")
  | ["load", pid, pl] =>
      match pid.toNat?, pl.toNat? with
      | some pid, some pl =>
          match load s.dur (pid, pl) with
          | .ok ix =>
              let ids := match s.dur.ids with | some l => l | none => []
              let tag := if ids.isEmpty then "load:empty-ids"
                else if ix.ids.length < ids.length then (if ix.nodes.isEmpty then "load:all-blobs-missing" else "load:missing-blobs-pruned")
                else if ix.version != (match s.dur.metaObj with | some m => m.version | none => 0) then "load:dangling-entry-repaired"
                else "load:plain"
              let tags := [tag] ++ (match s.dur.metaObj with
                | some m => (if clampLayers m.maxLayers != m.maxLayers then ["load:max-layers-clamped"] else []) ++
                            (if ix.entry.2 != m.entry.2 && ix.entry.1 == m.entry.1 then ["load:entry-layer-clamped"] else [])
                | none => [])
              ({ s with ix := ix }.hit tags, "ok " ++ showState ix true)
          | .error .noObject => (s.hit ["load:err-no-object"], "err:load")
          | .error (.invalidBlob _) => (s.hit ["load:err-invalid-blob"], "err:load")
      | _, _ => (s, "bad-op")
  | ["consts"] =>
      (s, s!"MAX_EF_SEARCH={maxEfSearch} SEARCH_MAX_ATTEMPTS={searchMaxAttempts} F32_MAX_KEY={f32MaxKey}")
  | _ => (s, "bad-op")

end AndaVerif.DrvC12

def main : IO Unit := lineLoop ({} : AndaVerif.DrvC12.St) AndaVerif.DrvC12.step
