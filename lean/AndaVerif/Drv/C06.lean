import AndaVerif.Model.Lifecycle
import AndaVerif.Drv.Util
/-
Driver of the C06 model (trace validation: the harness reports what each poll of a real future did
at the backend, the model replays it through `stepT` / `cancelT` and answers with what it allows).

  reset <objs csv>                 fresh ACTIVE handle over a prefix holding these objects
  spawn <kind>                     kind ::= mut-s | mut-x | mut-xp | close | drop      → t<idx>
  poll <tid> <b|o|g> <acts> <fin>  one poll of the future:
                                     b = no backend progress (parked on a lock), o = progress only outside
                                     the collection prefix, g = progress inside the prefix;
                                     acts = csv of the backend calls performed inside the prefix, in order
                                            (r = read, +<o> = put object o, -<o> = delete object o, x = the body called poison; "-" = none);
                                     fin  = p (Pending) | ok | err (Ready)
  drop <tid>                       the future is dropped
  ext <acts>                       objects changed under the prefix by something that is not a call on the handle
                                   (the `&mut self` index methods inside an open callback)
  setro <0|1> / dbro <0|1>         Collection::set_read_only / AndaDB::set_read_only (synchronous)
  state
  skel <method>                    generated guard skeleton class of a Collection method
answers: `<status> lc=<lifecycle> ro=<read_only||db_read_only> w=<mutations the model allowed in this poll> objs=<#objects>`
status ::= pending | blocked | stuck | ok | err | rej:state:<lifecycle> | rej:ro | ignored | dropped
-/
open AndaVerif.Lifecycle AndaVerif.Drv

namespace AndaVerif.DrvC06

def showRes : Res → String
  | .ok => "ok"
  | .rejState l => "rej:state:" ++ l.name
  | .rejRo => "rej:ro"
  | .err => "err"
  | .ignored => "ignored"

def parseAct (s : String) : Option B :=
  if s = "r" then some .rd
  else if s = "x" then some .poison
  else if s.startsWith "+" then (s.drop 1).toString.toNat?.map .put
  else if s.startsWith "-" then (s.drop 1).toString.toNat?.map .del
  else none

def parseActs (s : String) : Option (List B) :=
  if s = "-" ∨ s = "" then some [] else (s.splitOn ",").mapM parseAct

def isWrite : B → Bool
  | .put _ | .del _ => true
  | _ => false

def inBody (t : Thread) : Bool :=
  match t.pc with
  | .mBody _ | .cBody _ | .dDel _ _ => true
  | _ => false

def finished (t : Thread) : Bool :=
  match t.pc with
  | .done _ | .dropped => true
  | _ => false

/-- synchronous prefix of close / drop_data before the gate -/
def preGate (t : Thread) : Bool :=
  match t.pc with
  | .cStart | .cPublished | .dStart | .dRo => true
  | _ => false

def setThread (c : Cfg) (i : Nat) (t : Thread) : Cfg := { c with ts := c.ts.set i t }

/-- run thread `i` while `cont` holds (at most `fuel` steps); `false` = it got stuck on a disabled step -/
def advance (fuel : Nat) (cont : Thread → Bool) (i : Nat) (c : Cfg) : Cfg × Bool :=
  match fuel with
  | 0 => (c, true)
  | fuel + 1 =>
    match c.ts[i]? with
    | none => (c, false)
    | some t =>
      if !cont t then (c, true)
      else match stepT i c.s t with
        | none => (c, false)
        | some (s', t') => advance fuel cont i { s := s', ts := c.ts.set i t' }

def withBody (t : Thread) (b : List B) : Thread :=
  match t.pc with
  | .mBody _ => { t with pc := .mBody b }
  | .cBody _ => { t with pc := .cBody b }
  | .dDel snap _ => { t with pc := .dDel snap b }
  | _ => t

def bodyRest (t : Thread) : List B :=
  match t.pc with
  | .mBody r | .cBody r | .dDel _ r => r
  | _ => []

def status (t : Thread) (blocked : Bool) : String :=
  match t.pc with
  | .done r => showRes r
  | .dropped => "dropped"
  | _ => if blocked then "blocked" else "pending"

def line (c : Cfg) (st : String) (w : Nat) : String :=
  s!"{st} lc={c.s.lc.name} ro={if c.s.ro || c.s.dbRo then 1 else 0} w={w} objs={c.s.store.length}"

def poll (c : Cfg) (i : Nat) (flag : String) (acts : List B) (fin : String) : Cfg × String :=
  match c.ts[i]? with
  | none => (c, "bad-tid")
  | some t0 =>
    if finished t0 then (c, line c (status t0 false) 0)
    else if fin = "p" ∧ flag = "b" then
      -- parked on a lock: only the synchronous prefix before the gate (close: CAS + read_only; begin_delete) ran
      let (c1, _) := advance 8 preGate i c
      (c1, line c1 "pending" 0)
    else
      -- 1. up to the body (or only the synchronous prefix when all progress was outside the collection)
      let (c1, ok1) := if flag = "o" ∧ fin = "p" then advance 8 preGate i c
                       else advance 16 (fun t => !inBody t && !finished t) i c
      match c1.ts[i]? with
      | none => (c1, "bad-tid")
      | some t1 =>
        if !ok1 then (c1, line c1 (if fin = "p" ∧ acts.isEmpty then "pending" else "blocked") 0)
        else if !inBody t1 then (c1, line c1 (status t1 false) 0)
        else
          -- 2. the observed backend calls are the next body steps
          let body := acts ++ (if fin = "err" then [B.fail] else [])
          let before := c1.s.log.length
          let c2 := setThread c1 i (withBody t1 body)
          let (c3, ok3) := advance (body.length + 1) (fun t => inBody t && !(bodyRest t).isEmpty) i c2
          let w := c3.s.log.length - before
          if !ok3 then (c3, line c3 "stuck" w)
          else if fin = "p" then (c3, line c3 "pending" w)
          else
            let (c4, ok4) := advance 8 (fun t => !finished t) i c3
            match c4.ts[i]? with
            | none => (c4, "bad-tid")
            | some t4 => (c4, line c4 (if ok4 then status t4 false else "stuck") w)

def runSync (c : Cfg) (k : Kind) : Cfg × String :=
  let i := c.ts.length
  let c1 := c.apply (.spawn k [])
  let (c2, _) := advance 8 (fun t => !finished t) i c1
  match c2.ts[i]? with
  | some t => (c2, line c2 (status t false) 0)
  | none => (c2, "bad-tid")

def skelClass (name : String) : String :=
  match lookup name with
  | none => "unknown"
  | some m =>
    let recv := match m.recv with | .none => "ctor" | .shared => "self" | .excl => "mutself" | .owned => "owned"
    let cls := if GuardOK m.skel then "guarded"
               else if m.name == "close" ∧ CloseOK m.skel then "close"
               else if m.name == "drop_data" ∧ m.skel == dropSkeleton then "drop"
               else if Delegates m.skel then "delegates"
               else if MutRecvOK m.skel then "checks-first"
               else if DelegatesMut m.skel then "delegates"
               else "unguarded"
    let gate := if m.skel.contains .gateWrite then "x" else if m.skel.contains .gateRead then "s" else "-"
    s!"{recv} {cls} gate={gate} reaches={if m.reaches then 1 else 0} ok={if methodOK m then 1 else 0}"

def step (c : Cfg) (ln : String) : Cfg × String :=
  match words ln with
  | ["reset", objs] =>
      match natList? objs with
      | some o => (init o, "ok")
      | none => (c, "bad-op")
  | ["spawn", k] =>
      let kind : Option Kind := match k with
        | "mut-s" => some (.mutator false false)
        | "mut-x" => some (.mutator true false)
        | "mut-xp" => some (.mutator true true)
        | "close" => some .closer
        | "drop" => some .dropper
        | _ => none
      match kind with
      | some kd => (c.apply (.spawn kd []), s!"t{c.ts.length}")
      | none => (c, "bad-op")
  | ["poll", tid, flag, acts, fin] =>
      match tid.toNat?, parseActs acts with
      | some i, some a => poll c i flag a fin
      | _, _ => (c, "bad-op")
  | ["drop", tid] =>
      match tid.toNat? with
      | some i => let c' := c.apply (.cancel i); (c', line c' "dropped" 0)
      | none => (c, "bad-op")
  | ["setro", b] => runSync c (.setRo (b = "1"))
  | ["dbro", b] => runSync c (.dbSetRo (b = "1"))
  | ["ext", acts] =>
      -- storage mutations made outside the handle (the open / create callback of a handle not yet published)
      match parseActs acts with
      | some a =>
          let st := a.foldl (fun st b => match b with
            | .put o => o :: st.filter (· ≠ o)
            | .del o => st.filter (· ≠ o)
            | _ => st) c.s.store
          let c' := { c with s := { c.s with store := st } }
          (c', line c' "ext" 0)
      | none => (c, "bad-op")
  | ["state"] => (c, line c "state" 0)
  | ["skel", name] => (c, skelClass name)
  | _ => (c, "bad-op")

end AndaVerif.DrvC06

def main : IO Unit := lineLoop (init []) AndaVerif.DrvC06.step
