/-
Line-protocol driver of the C09 model (`drv_c09`).  One request per line, one answer per line.

Pure functions (tied to the code through AES-GCM tags verified by the harness):
  nonce <base:hex12> <idx>                         -> <hex12>              derive_gcm_nonce
  caad <chunk_size> <idx>                          -> <hex>                chunk_aad
  maad <loc:hex> <size> <e> <o> <v> <nonce:hex> <c> <av> <tags> <g> <m>   -> <hex>   metadata_auth_aad
       optional strings: `-` = None, `=<hex>` = Some; optional numbers: `-` or decimal;
       tags: `-` or comma separated hex
  verify <strict> <an> <at> <av|-> <g> <tagok> <payload> <head|list|copy>
                                                   -> ok:auth | ok:legacy | err:<class>   verify_metadata, then
       head (payload object must exist), a listing entry (metadata only), or copy_opts from that key
  plan <size> <c> <range> <head>                   -> ok rStart rEnd <rr> startIdx startOffset len | err:range
       range: `-` | b:<s>:<e> | o:<n> | s:<n>;  rr: `-` | <s>:<e>
  stream …                                         create_decryption_stream over a symbolic
       ciphertext: segs = `/`-separated segments, each a `,`-separated list of runs `<from>+<n>` of
       original ciphertext positions or `x<n>` (n modified bytes); `-` = empty segment list
                                                   -> ok <runs> | err:<class> <runs yielded before>
  ranges <size> <c> <payload runs> <s:e,s:e,…>     get_ranges over an object of `size` bytes whose payload object
       holds the given symbolic bytes (runs as above)
                                                   -> ok <runs>;<runs>… fetched <s:e,…>  |  err:<class>
  stream <size> <c> <startIdx> <startOffset> <len> <segs> [tags=<n>]   (first argument: size of the object
       written; `tags=<n>` keeps only the first n chunk tags in the document)
Byte layout and writer shape (Model/EncLayout.lean):
  cbor <size> <e> <o> <v> <nonce:hex> <c> <av> <tags> <an> <at> <g> <m>   -> <hex>   the sidecar document bytes
  paths <loc:hex> <g>                              -> <meta path hex> <payload path hex>
  putshape <size> <c>                              -> s=… ntags=… c=… av=… o=… v=… an=… at=… g=… m=… payload=…
  mput <c> <part sizes|->                          -> fwd=<sizes of the parts forwarded to the backend> <shape as above> eqput=<0|1>
  copyshape <av|-> <an> <at>                       -> av=<pinned version> | err:<class>     copy_opts' document
  rcs <store chunk> <document c|->                 -> <chunk size used for reading>        read_chunk_size
-/
import AndaVerif.Model.Enc
import AndaVerif.Model.EncLayout
import AndaVerif.Drv.Util

namespace AndaVerif.Drv.C09
open AndaVerif.Enc AndaVerif.Drv

def hexDigit (c : Char) : Option Nat :=
  if '0' ≤ c ∧ c ≤ '9' then some (c.toNat - '0'.toNat)
  else if 'a' ≤ c ∧ c ≤ 'f' then some (c.toNat - 'a'.toNat + 10)
  else if 'A' ≤ c ∧ c ≤ 'F' then some (c.toNat - 'A'.toNat + 10)
  else none

def unhexAux : List Char → Option (List Nat)
  | [] => some []
  | [_] => none
  | a :: b :: rest => do
    let x ← hexDigit a
    let y ← hexDigit b
    let r ← unhexAux rest
    pure ((x * 16 + y) :: r)

def unhex (s : String) : Option (List Nat) := unhexAux s.toList

def hexChar (n : Nat) : Char := "0123456789abcdef".toList.getD n '?'

def hex (bs : List Nat) : String :=
  String.ofList (bs.flatMap fun b => [hexChar (b / 16 % 16), hexChar (b % 16)])

def optStr? (s : String) : Option (Option (List Nat)) :=
  if s = "-" then some none
  else if s.startsWith "=" then (unhex (s.drop 1).toString).map some
  else none

def optNat? (s : String) : Option (Option Nat) :=
  if s = "-" then some none else s.toNat?.map some

def tags? (s : String) : Option (List (List Nat)) :=
  if s = "-" then some [] else (s.splitOn ",").mapM unhex

def errName : RErr → String
  | .notFound => "err:notfound"
  | .decode => "err:decode"
  | .stripped => "err:stripped"
  | .strictLegacy => "err:strictlegacy"
  | .missingNonce => "err:missingnonce"
  | .missingTag => "err:missingtag"
  | .authFailed => "err:authfailed"
  | .aadVersion => "err:aadversion"
  | .range => "err:range"
  | .missingChunkTag => "err:missingchunktag"
  | .decrypt => "err:decrypt"
  | .truncated => "err:truncated"

def range? (s : String) : Option (Option GetRange) :=
  if s = "-" then some none else
  match s.splitOn ":" with
  | ["b", a, b] => do let x ← a.toNat?; let y ← b.toNat?; pure (some (.bounded x y))
  | ["o", a] => do let x ← a.toNat?; pure (some (.offset x))
  | ["s", a] => do let x ← a.toNat?; pure (some (.suffix x))
  | _ => none

/-- Symbolic bytes: position `p` of the original ciphertext/plaintext is `p`; a modified byte is `BAD + k`. -/
def BAD : Nat := 1000000000000

/-- Compresses a symbol list into runs `from+n` / `x<n>`. -/
def runsAux : List Nat → Option (Nat × Nat) → List String → List String
  | [], none, acc => acc.reverse
  | [], some (a, n), acc => ((if a ≥ BAD then s!"x{n}" else s!"{a}+{n}") :: acc).reverse
  | b :: rest, none, acc => runsAux rest (some (b, 1)) acc
  | b :: rest, some (a, n), acc =>
    if a ≥ BAD ∧ b ≥ BAD then runsAux rest (some (a, n + 1)) acc
    else if a < BAD ∧ b = a + n then runsAux rest (some (a, n + 1)) acc
    else runsAux rest (some (b, 1)) ((if a ≥ BAD then s!"x{n}" else s!"{a}+{n}") :: acc)

def showRuns (bs : List Nat) : String :=
  let r := runsAux bs none []
  if r.isEmpty then "-" else ",".intercalate r

def run? (s : String) : Option (List Nat) :=
  if s.startsWith "x" then (s.drop 1).toString.toNat?.map fun n => (List.range n).map (BAD + ·)
  else match s.splitOn "+" with
    | [a, n] => do let x ← a.toNat?; let k ← n.toNat?; pure ((List.range k).map (x + ·))
    | _ => none

def runs? (s : String) : Option (List Nat) :=
  if s = "-" ∨ s = "" then some [] else ((s.splitOn ",").mapM run?).map List.flatten

def segs? (s : String) : Option (List (List Nat)) :=
  if s = "-" then some [] else (s.splitOn "/").mapM runs?

/-- A symbolic object of `size` bytes written with chunk size `c` through the toy AEAD:
plaintext = ciphertext = positions. -/
def toyFresh : Fresh := ⟨[1,2,3,4,5,6,7,8,9,10,11,12], [9,9,9,9,9,9,9,9,9,9,9,9], [103], 7, [101]⟩

def toyObject (size c : Nat) : Bytes × Meta :=
  writeObject toyAEAD c [120] (List.range size) toyFresh

def pairs? (s : String) : Option (List (Nat × Nat)) :=
  if s = "-" then some [] else
  (s.splitOn ",").mapM fun p => match p.splitOn ":" with
    | [a, b] => do let x ← a.toNat?; let y ← b.toNat?; pure (x, y)
    | _ => none

def showPairs (ps : List (Nat × Nat)) : String :=
  if ps.isEmpty then "-" else ",".intercalate (ps.map fun (a, b) => s!"{a}:{b}")

def b01 (b : Bool) : String := if b then "1" else "0"

def shape (m : Meta) (payloadLen : Nat) : String :=
  let c := match m.chunkSize with | some c => toString c | none => "-"
  let av := match m.chunkAadVersion with | some v => toString v | none => "-"
  s!"s={m.size} ntags={m.aesTags.length} c={c} av={av} o={b01 m.originalTag.isSome} v={b01 m.originalVersion.isSome} an={b01 m.authNonce.isSome} at={b01 m.authTag.isSome} g={b01 m.generation.isSome} m={b01 m.committedAtMs.isSome} payload={payloadLen}"

def step (_ : Unit) (line : String) : Unit × String :=
  let bad := ((), "err:protocol")
  match words line with
  | ["nonce", b, i] =>
    match unhex b, i.toNat? with
    | some base, some idx => ((), hex (deriveNonceBytes base idx))
    | _, _ => bad
  | ["caad", c, i] =>
    match c.toNat?, i.toNat? with
    | some c, some i => ((), hex (chunkAad c i))
    | _, _ => bad
  | ["maad", loc, size, e, o, v, n, c, av, tags, g, m] =>
    match unhex loc, size.toNat?, optStr? e, optStr? o, optStr? v, unhex n, optNat? c, optNat? av,
          tags? tags, optStr? g, optNat? m with
    | some loc, some size, some e, some o, some v, some n, some c, some av, some tags, some g, some m =>
      let md : Meta := { size := size, eTag := e, originalTag := o, originalVersion := v, aesNonce := n,
                         aesTags := tags, chunkSize := c, chunkAadVersion := av, authNonce := none,
                         authTag := none, generation := g, committedAtMs := m }
      ((), hex (metaAad loc md))
    | _, _, _, _, _, _, _, _, _, _, _ => bad
  | ["verify", strict, an, at_, av, g, tagok, payload, entry] =>
    match optNat? av with
    | some av =>
      let A : AEAD := { enc := fun _ _ p => (p, []), dec := fun _ _ _ _ => if tagok = "1" then some [] else none }
      let md : Meta := { size := 0, eTag := none, originalTag := none, originalVersion := none, aesNonce := [],
                         aesTags := [], chunkSize := none, chunkAadVersion := av,
                         authNonce := if an = "1" then some [] else none,
                         authTag := if at_ = "1" then some [] else none,
                         generation := if g = "1" then some [] else none, committedAtMs := none }
      let B : Backend := { metaDoc := fun _ => .ok md, payload := fun _ _ => if payload = "1" then some [] else none }
      match verifyMetadata A (strict = "1") [] md with
      | .error e => ((), errName e)
      | .ok a =>
        let tag := match a with | .authenticated => "ok:auth" | .legacy => "ok:legacy"
        if entry = "copy" then
          match copyObject A (strict = "1") B [] [121] toyFresh with
          | .ok _ => ((), tag)
          | .error e => ((), errName e)
        else
        match (if entry = "list" then listEntry A (strict = "1") B [] else headObject A (strict = "1") B []) with
        | .ok _ => ((), tag)
        | .error e => ((), errName e)
    | none => bad
  | ["plan", size, c, r, head] =>
    match size.toNat?, c.toNat?, range? r with
    | some size, some c, some r =>
      match getPlan size c r (head = "1") with
      | .error e => ((), errName e)
      | .ok p =>
        let rr := match p.rr with | none => "-" | some (a, b) => s!"{a}:{b}"
        ((), s!"ok {p.rStart} {p.rEnd} {rr} {p.startIdx} {p.startOffset} {p.len}")
    | _, _, _ => bad
  | ["stream", size, c, startIdx, startOffset, len, segs, ntags] =>
    match size.toNat?, c.toNat?, startIdx.toNat?, startOffset.toNat?, len.toNat?, segs? segs,
          (ntags.drop 5).toString.toNat? with
    | some size, some c, some si, some so, some len, some segs, some nt =>
      let (_, m0) := toyObject size c
      let m := { m0 with aesTags := m0.aesTags.take nt }
      match decStream toyAEAD ⟨m, c, si, so⟩ len segs with
      | .done out => ((), s!"ok {showRuns out}")
      | .fail e out => ((), s!"{errName e} {showRuns out}")
      | .cont _ => ((), "err:internal")
    | _, _, _, _, _, _, _ => bad
  | ["stream", size, c, startIdx, startOffset, len, segs] =>
    match size.toNat?, c.toNat?, startIdx.toNat?, startOffset.toNat?, len.toNat?, segs? segs with
    | some size, some c, some si, some so, some len, some segs =>
      let (_, m) := toyObject size c
      match decStream toyAEAD ⟨m, c, si, so⟩ len segs with
      | .done out => ((), s!"ok {showRuns out}")
      | .fail e out => ((), s!"{errName e} {showRuns out}")
      | .cont _ => ((), "err:internal")
    | _, _, _, _, _, _ => bad
  | ["ranges", size, c, payload, rs] =>
    match size.toNat?, c.toNat?, runs? payload, pairs? rs with
    | some size, some c, some payload, some rs =>
      let (_, m) := toyObject size c
      let B : Backend := { metaDoc := fun _ => .ok m, payload := fun _ _ => some payload }
      match getRanges toyAEAD true c B [120] rs with
      | .error e => ((), errName e)
      | .ok (outs, fetched) =>
        ((), s!"ok {";".intercalate (outs.map showRuns)} fetched {showPairs fetched}")
    | _, _, _, _ => bad
  | ["cbor", size, e, o, v, n, c, av, tags, an, at_, g, m] =>
    match size.toNat?, optStr? e, optStr? o, optStr? v, unhex n, optNat? c, optNat? av,
          tags? tags, optStr? an, optStr? at_, optStr? g, optNat? m with
    | some size, some e, some o, some v, some n, some c, some av, some tags, some an, some at_, some g, some m =>
      let md : Meta := { size := size, eTag := e, originalTag := o, originalVersion := v, aesNonce := n,
                         aesTags := tags, chunkSize := c, chunkAadVersion := av, authNonce := an,
                         authTag := at_, generation := g, committedAtMs := m }
      ((), hex (encodeDoc md))
    | _, _, _, _, _, _, _, _, _, _, _, _ => bad
  | ["paths", loc, g] =>
    match unhex loc, optStr? g with
    | some loc, some g => ((), s!"{hex (metaPath loc)} {hex (payloadPath loc g)}")
    | _, _ => bad
  | ["putshape", size, c] =>
    match size.toNat?, c.toNat? with
    | some size, some c =>
      let (payload, m) := toyObject size c
      ((), shape m payload.length)
    | _, _ => bad
  | ["mput", c, parts] =>
    match c.toNat?, natList? parts with
    | some c, some sizes =>
      -- parts of consecutive positions
      let rec mk (off : Nat) : List Nat → List (List Nat)
        | [] => []
        | n :: ns => ((List.range n).map (off + ·)) :: mk (off + n) ns
      let ps := mk 0 sizes
      let ws := mpWrites toyAEAD c [120] ps toyFresh
      let fwd := (ws.dropLast).map (·.bytes.length)
      let (_, st) := mpForward toyAEAD c toyFresh.baseNonce MpState.init ps
      let fin := mpComplete toyAEAD c [120] toyFresh st
      let eq := decide (fin = writeObject toyAEAD c [120] ps.flatten toyFresh)
      ((), s!"fwd={showNats fwd} {shape fin.2 fin.1.length} eqput={if eq then 1 else 0}")
    | _, _ => bad
  | ["copyshape", av, an, at_] =>
    match optNat? av with
    | some av =>
      let src : Meta := { size := 0, eTag := none, originalTag := some [1], originalVersion := some [2], aesNonce := [],
                          aesTags := [], chunkSize := none, chunkAadVersion := av,
                          authNonce := if an = "1" then some [] else none,
                          authTag := if at_ = "1" then some [] else none, generation := none, committedAtMs := none }
      match copyMeta toyAEAD [121] src toyFresh with
      | .error e => ((), errName e)
      | .ok d => ((), s!"av={match d.chunkAadVersion with | some v => toString v | none => "-"} o={if d.originalTag.isSome then 1 else 0} v={if d.originalVersion.isSome then 1 else 0} g={if d.generation.isSome then 1 else 0} m={if d.committedAtMs.isSome then 1 else 0} an={if d.authNonce.isSome then 1 else 0} at={if d.authTag.isSome then 1 else 0}")
    | none => bad
  | ["rcs", sc, c] =>
    match sc.toNat?, optNat? c with
    | some sc, some c =>
      let md : Meta := { forgedLegacyDoc with chunkSize := c }
      ((), toString (readChunkSize sc md))
    | _, _ => bad
  | _ => bad

end AndaVerif.Drv.C09

def main : IO Unit := AndaVerif.Drv.lineLoop () AndaVerif.Drv.C09.step
