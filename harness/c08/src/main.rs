//! C08 — wrapper writes are atomic under crashes; garbage collection is safe.
//!
//! Case = a short history (puts in every mode, multipart, copy, rename, delete, legacy pre-0.10
//! objects, earlier crashes, collect_garbage) followed by `crash <n> <op>`: the op runs on the real
//! wrapper over `FaultStore(InMemory)` with `crash_after_mutations(n)`, then a *fresh* wrapper is
//! built over what survived. Every n of every target op is enumerated (one case per n).
//!
//! * correspondence: the surviving object set (`dump`, canonical paths), every cold `get` and the
//!   cold listing, `collect_garbage` (count, object set afterwards, every read again) are diffed
//!   with the Lean driver (`drv_c08`), whose `crash n op` is `applyPrefix n` of the op's step list;
//! * oracle (independent of the model; InMemory::fork gives the before- and the clean after-state):
//!   every key reads, whole, its before-value or its after-value; every listed key is readable in
//!   full with the listed size; a delete leaves the key whole or absent; every read is identical
//!   before and after `collect_garbage` (also right after a crash); GC racing real writer tasks
//!   (measured, not proved).
#[path = "../../c07/src/sut.rs"]
mod sut;
mod conc;
use futures::TryStreamExt;
use object_store::{ObjectStore, ObjectStoreExt, PutPayload, memory::InMemory, path::Path};
use std::collections::{BTreeMap, BTreeSet};
use std::sync::Arc;
use sut::*;
use vh_common::serde_json::json;
use vh_common::*;

const KEYS: [&str; 6] = ["0", "1", "0/1", "0/2", "2/2/2", "3"];
/// keys of the interleaving scenarios
const CONC_KEYS: [&str; 3] = ["0", "1", "2"];

// ------------------------------------------------------------------------------------------
// helpers
// ------------------------------------------------------------------------------------------

fn cbor_uint(major: u8, n: u64, out: &mut Vec<u8>) {
    let m = major << 5;
    if n < 24 {
        out.push(m | n as u8);
    } else if n < 256 {
        out.push(m | 24);
        out.push(n as u8);
    } else if n < 65536 {
        out.push(m | 25);
        out.extend_from_slice(&(n as u16).to_be_bytes());
    } else {
        out.push(m | 26);
        out.extend_from_slice(&(n as u32).to_be_bytes());
    }
}

/// pre-0.10 MetaStore metadata: `{ "s": size, "e": e_tag, "o": null, "v": null }`
fn legacy_meta_doc(size: u64, etag: &str) -> Vec<u8> {
    let mut o = vec![0xa4];
    o.extend_from_slice(&[0x61, b's']);
    cbor_uint(0, size, &mut o);
    o.extend_from_slice(&[0x61, b'e']);
    cbor_uint(3, etag.len() as u64, &mut o);
    o.extend_from_slice(etag.as_bytes());
    o.extend_from_slice(&[0x61, b'o', 0xf6, 0x61, b'v', 0xf6]);
    o
}

/// key -> what a cold read returns: (size, data digest, token, time)
type View = BTreeMap<String, Option<(u64, String, String, i64)>>;

async fn cold_view(fl: Flavor, backend: &InMemory, keys: &[&str]) -> Result<View, String> {
    let store = build_store(fl, backend.clone());
    let mut v = View::new();
    for k in keys {
        let p = key_path(k).unwrap();
        match store.get(&p).await {
            Ok(r) => {
                let meta = r.meta.clone();
                match r.bytes().await {
                    Ok(b) => {
                        v.insert(k.to_string(), Some((meta.size, show_data(&b), meta.e_tag.unwrap_or_default(), meta.last_modified.timestamp_micros())));
                    }
                    Err(e) => return Err(format!("get {k}: body unreadable: {}", err_kind(&e))),
                }
            }
            Err(object_store::Error::NotFound { .. }) => {
                v.insert(k.to_string(), None);
            }
            Err(e) => return Err(format!("get {k}: {}", err_kind(&e))),
        }
    }
    Ok(v)
}

async fn dump(backend: &InMemory) -> String {
    let all: Vec<object_store::ObjectMeta> = backend.list(None).try_collect().await.unwrap_or_default();
    let (mut ms, mut ds, mut gs): (Vec<String>, Vec<String>, BTreeMap<String, usize>) = (vec![], vec![], BTreeMap::new());
    for m in all {
        let s = m.location.as_ref().to_string();
        if let Some(r) = s.strip_prefix("meta/") {
            ms.push(show_key(&Path::from(r)));
        } else if let Some(r) = s.strip_prefix("data/") {
            ds.push(show_key(&Path::from(r)));
        } else if let Some(r) = s.strip_prefix("gen/") {
            let (k, _g) = r.rsplit_once('/').unwrap_or((r, ""));
            *gs.entry(show_key(&Path::from(k))).or_insert(0) += 1;
        } else {
            ms.push(format!("?{s}"));
        }
    }
    // same order as the model: segment-wise lexicographic == raw order of the names
    let sort = |v: &mut Vec<String>| v.sort_by(|a, b| key_path(a).cmp(&key_path(b)));
    sort(&mut ms);
    sort(&mut ds);
    let mut gk: Vec<String> = gs.keys().cloned().collect();
    sort(&mut gk);
    format!("ok m=[{}] d=[{}] g=[{}]", ms.join(","), ds.join(","), gk.iter().map(|k| format!("{k}:{}", gs[k])).collect::<Vec<_>>().join(","))
}

#[derive(Default, Clone)]
struct Failure {
    key: String,
    what: String,
    expected: String,
    observed: String,
    at: usize,
}

#[derive(Default)]
struct CaseOut {
    /// the backend after the case (base of the interleaving exploration)
    backend: Option<InMemory>,
    flavor: Option<Flavor>,
    lines: Vec<String>,
    failures: Vec<Failure>,
    hits: Vec<String>,
    nontrivial: bool,
}

fn parse_reset(op: &str) -> Option<Flavor> {
    let w: Vec<&str> = op.split(' ').collect();
    match w.as_slice() {
        ["reset", "m"] | ["reset", "m", _] => Some(Flavor::Meta),
        ["reset", "e"] => Some(Flavor::Enc(16)),
        ["reset", "e", c] => Some(Flavor::Enc(c.parse().ok()?)),
        _ => None,
    }
}

fn show_view(v: &Option<(u64, String, String, i64)>) -> String {
    match v {
        None => "absent".into(),
        Some((s, d, _, _)) => format!("size={s} data={d}"),
    }
}

async fn run_case(ops: &[String]) -> Result<CaseOut, String> {
    let fl = ops.first().and_then(|o| parse_reset(o)).ok_or("case must start with `reset m|e [chunk]`")?;
    let mut su = Sut::new(fl);
    let mut out = CaseOut::default();
    out.lines.push("ok".into());
    let mut last_ms = 0i64;
    let keys: Vec<&str> = KEYS.to_vec();
    let mut tasks: Option<Vec<conc::TaskSpec>> = None;
    for (i, op) in ops.iter().enumerate().skip(1) {
        let w: Vec<&str> = op.split(' ').collect();
        if is_mutating(op) || op == "gc" {
            last_ms = wait_past(last_ms);
        }
        let line = match w.as_slice() {
            ["tasks", ..] => {
                tasks = Some(conc::parse_tasks(op).ok_or_else(|| format!("bad tasks line: {op}"))?);
                "ok".to_string()
            }
            ["schedule", ids] => {
                let ts = tasks.clone().ok_or("schedule without tasks")?;
                let choices: Vec<usize> = if *ids == "-" { vec![] } else { ids.split(',').map(|s| s.parse().map_err(|_| "schedule id")).collect::<Result<_, _>>()? };
                let all: Vec<String> = CONC_KEYS.iter().map(|s| s.to_string()).collect();
                let o = conc::run(fl, su.backend.clone(), &ts, &choices, &all).await;
                for f in o.failures {
                    out.failures.push(Failure { key: f.key, what: f.what, expected: f.expected, observed: f.observed, at: i });
                }
                out.nontrivial = true;
                su.reopen();
                o.line
            }
            ["reopen"] => {
                su.reopen();
                "ok".to_string()
            }
            ["dump"] => dump(&su.backend).await,
            ["legacy", k, size, seed] => {
                if !matches!(fl, Flavor::Meta) {
                    return Err("legacy objects are only built for MetaStore".into());
                }
                let data = gen_bytes(seed.parse().map_err(|_| "seed")?, size.parse().map_err(|_| "size")?);
                let p = key_path(k).ok_or("key")?;
                let etag = format!("legacy-{}", fnv(&data));
                su.backend.put(&Path::from(format!("data/{p}")), PutPayload::from(data.clone())).await.map_err(|e| e.to_string())?;
                last_ms = wait_past(chrono::Utc::now().timestamp_millis());
                su.backend.put(&Path::from(format!("meta/{p}")), PutPayload::from(legacy_meta_doc(data.len() as u64, &etag))).await.map_err(|e| e.to_string())?;
                out.hits.push("op:legacy".into());
                // written behind the wrapper's back: only legitimate before the wrapper is opened
                su.reopen();
                "ok".to_string()
            }
            ["gc"] => {
                let before = cold_view(fl, &su.backend, &keys).await;
                let r = su.typed.collect_garbage().await;
                let after = cold_view(fl, &su.backend, &keys).await;
                out.hits.push("op:gc".into());
                if before != after {
                    out.failures.push(Failure { key: "gc-changed-a-read".into(), what: "a cold read differs before and after collect_garbage".into(), expected: format!("{before:?}"), observed: format!("{after:?}"), at: i });
                }
                match r {
                    Ok(n) => format!("ok {n}"),
                    Err(e) => err_kind(&e),
                }
            }
            ["crash", n, "gc"] => {
                // the collector itself dies: after n of its deletions the backend is powered off
                let n: u64 = n.parse().map_err(|_| "crash n")?;
                let before = cold_view(fl, &su.backend, &keys).await;
                let h = su.handle.clone().ok_or("no fault handle")?;
                h.crash_after_mutations(n);
                let r = su.typed.collect_garbage().await;
                let done = h.mutation_count();
                h.reset();
                su.reopen();
                let after = cold_view(fl, &su.backend, &keys).await;
                out.hits.push(format!("crash:gc:{}", if r.is_ok() { "complete" } else { "cut" }));
                if r.is_err() {
                    out.nontrivial = true;
                }
                let _ = done;
                if before != after {
                    out.failures.push(Failure { key: "gc-crash-changed-a-read".into(), what: format!("a cold read differs before and after a collect_garbage that died after {n} deletions"), expected: format!("{before:?}"), observed: format!("{after:?}"), at: i });
                }
                "crashed".to_string()
            }
            ["crash", n, inner @ ..] => {
                let n: u64 = n.parse().map_err(|_| "crash n")?;
                let inner_op = inner.join(" ");
                // oracle: the before-state and the clean after-state, on forks of the backend
                let before = cold_view(fl, &su.backend, &keys).await?;
                let fork = su.backend.fork();
                let mut clean = Sut::over(fl, fork.clone(), su.toks.clone());
                let clean_res = clean.exec(&inner_op).await.ok_or_else(|| format!("bad op: {inner_op}"))?;
                let total = clean.handle.as_ref().map(|h| h.mutation_count()).unwrap_or(0);
                let after = cold_view(fl, &fork, &keys).await?;
                // the crash itself, on the real (possibly warm) wrapper
                let h = su.handle.clone().ok_or("no fault handle")?;
                h.crash_after_mutations(n);
                let toks_before = su.toks.clone();
                let _ = su.exec(&inner_op).await;
                su.toks = toks_before; // the answer of a crashed call is not observed
                h.reset();
                su.reopen();
                out.hits.push(format!("crash:{}:{}/{}", inner[0], n.min(total), total));
                if n < total {
                    out.nontrivial = true;
                }
                let _ = clean_res;
                // 1. every key: before-value or after-value, whole
                match cold_view(fl, &su.backend, &keys).await {
                    Err(e) => out.failures.push(Failure { key: format!("crash-unreadable:{}", inner[0]), what: format!("after `{op}` a key that has a commit point cannot be read: {e}"), expected: "every key readable or absent".into(), observed: e, at: i }),
                    Ok(now) => {
                        for k in &keys {
                            let (b, a, v) = (&before[*k], &after[*k], &now[*k]);
                            let same = |x: &Option<(u64, String, String, i64)>, y: &Option<(u64, String, String, i64)>| match (x, y) {
                                (None, None) => true,
                                (Some(x), Some(y)) => x.0 == y.0 && x.1 == y.1,
                                _ => false,
                            };
                            // identical to before (token and time included), or the new value
                            let is_before = v == b;
                            let is_after = same(v, a) && (v.is_none() || v.as_ref().map(|x| &x.2) != b.as_ref().map(|x| &x.2) || same(a, b));
                            if !(is_before || is_after) {
                                out.failures.push(Failure {
                                    key: format!("crash-not-old-or-new:{}", inner[0]),
                                    what: format!("after `{op}` (crash after {n} of {total} backend mutations) key {k} reads neither its value before the call nor the value of the completed call"),
                                    expected: format!("{} | {}", show_view(b), show_view(a)),
                                    observed: show_view(v),
                                    at: i,
                                });
                            }
                            if inner[0] == "del" && inner.get(1) == Some(k) && !(v == b || v.is_none()) {
                                out.failures.push(Failure { key: "crash-delete-partial".into(), what: format!("after `{op}` the deleted key is neither whole nor absent"), expected: format!("{} | absent", show_view(b)), observed: show_view(v), at: i });
                            }
                        }
                        // 2. listed => readable, with the listed size
                        let probe = build_store(fl, su.backend.clone());
                        match probe.list(None).try_collect::<Vec<_>>().await {
                            Err(e) => out.failures.push(Failure { key: "crash-list-fails".into(), what: format!("after `{op}` a cold listing fails"), expected: "ok".into(), observed: err_kind(&e), at: i }),
                            Ok(ms) => {
                                for m in ms {
                                    let ok = match probe.get(&m.location).await {
                                        Ok(r) => r.bytes().await.map(|b| b.len() as u64 == m.size).unwrap_or(false),
                                        Err(_) => false,
                                    };
                                    if !ok {
                                        out.failures.push(Failure { key: "crash-listed-unreadable".into(), what: format!("after `{op}` the listing returns {} which cannot be read in full", show_key(&m.location)), expected: "readable with the listed size".into(), observed: "unreadable / other size".into(), at: i });
                                    }
                                }
                            }
                        }
                    }
                }
                "crashed".to_string()
            }
            _ => {
                let a = su.exec(op).await.ok_or_else(|| format!("bad op: {op}"))?;
                out.hits.push(format!("op:{}", w[0]));
                a.line
            }
        };
        if is_mutating(op) || op == "gc" {
            last_ms = chrono::Utc::now().timestamp_millis();
        }
        out.lines.push(line);
    }
    out.backend = Some(su.backend.clone());
    out.flavor = Some(fl);
    Ok(out)
}

struct CaseResult {
    out: Result<CaseOut, String>,
    panicked: bool,
    model: Option<Vec<String>>,
}

fn eval(rt: &tokio::runtime::Runtime, ops: &[String], model: &mut Option<ModelProc>) -> CaseResult {
    let r = std::panic::catch_unwind(std::panic::AssertUnwindSafe(|| rt.block_on(run_case(ops))));
    let (out, panicked) = match r {
        Ok(o) => (o, false),
        Err(_) => (Err("panic".into()), true),
    };
    let model = model.as_mut().map(|m| rank_times(&ops.iter().map(|op| m.ask(op)).collect::<Vec<_>>()));
    CaseResult { out, panicked, model }
}

fn first_disagreement(ops: &[String], r: &CaseResult) -> Option<(String, String, String, usize)> {
    let (Ok(out), Some(m)) = (&r.out, &r.model) else { return None };
    let lines = rank_times(&out.lines);
    for i in 0..ops.len().min(lines.len()) {
        if m[i] != lines[i] {
            return Some((format!("wrapper model vs wrapper on `{}`", ops[i]), m[i].clone(), lines[i].clone(), i));
        }
    }
    None
}

// ------------------------------------------------------------------------------------------
// generator
// ------------------------------------------------------------------------------------------

fn gen_mutation(rng: &mut Rng, keys: &[&str], c: u64, ntok: &mut u64) -> String {
    let k = *rng.pick(keys);
    let k2 = *rng.pick(keys);
    let size = |rng: &mut Rng| { let r = rng.below(30); *rng.pick(&[0, 1, c.saturating_sub(1), c, c + 1, 2 * c + 1, r]) };
    match rng.below(100) {
        0..=34 => {
            let mode = match rng.below(10) {
                0..=5 => "ow".to_string(),
                6..=7 => "cr".to_string(),
                8 => format!("up:t{}", rng.below(*ntok + 1)),
                _ => match rng.below(4) {
                    0 => "up:none".to_string(),
                    1 => format!("up:t{}:v", rng.below(*ntok + 1)),
                    _ => format!("up:t{}", rng.below(*ntok + 1)),
                },
            };
            *ntok += 1;
            format!("put {k} {mode} {} {}", size(rng), rng.below(50))
        }
        35..=46 => {
            let np = rng.usize(4);
            *ntok += 1;
            format!("mput {k} {} {}", if np == 0 { "-".to_string() } else { (0..np).map(|_| size(rng).min(40).to_string()).collect::<Vec<_>>().join(",") }, rng.below(50))
        }
        47..=64 => format!("copy {k} {k2} {}", if rng.chance(3, 4) { "ow" } else { "cr" }),
        65..=82 => format!("ren {k} {k2} {}", if rng.chance(3, 4) { "ow" } else { "cr" }),
        _ => format!("del {k}"),
    }
}

/// base history + one target op; the caller appends `crash n target` for every n
fn gen_base(rng: &mut Rng) -> (Vec<String>, String, Vec<&'static str>) {
    let (first, c, meta): (String, u64, bool) = if rng.chance(1, 2) {
        ("reset m".into(), 8, true)
    } else {
        let c = *rng.pick(&[1u64, 7, 16]);
        (format!("reset e {c}"), c, false)
    };
    let mut keys: Vec<&'static str> = KEYS.to_vec();
    rng.shuffle(&mut keys);
    keys.truncate(2 + rng.usize(2));
    let mut ops = vec![first];
    let mut ntok = 0u64;
    // most keys start present (otherwise most target ops would have nothing to do)
    for k in &keys {
        if rng.chance(3, 4) {
            ntok += 1;
            ops.push(format!("put {k} ow {} {}", *rng.pick(&[0, 1, c, c + 1, 2 * c + 1, 5]), rng.below(50)));
        }
    }
    let n = 1 + rng.usize(5);
    for _ in 0..n {
        let op = match rng.below(100) {
            0..=9 if meta => format!("legacy {} {} {}", rng.pick(&keys), rng.below(20), rng.below(50)),
            10..=15 => "gc".to_string(),
            16..=20 => "reopen".to_string(),
            21..=30 => format!("crash {} {}", rng.below(4), gen_mutation(rng, &keys, c, &mut ntok)),
            31..=36 => {
                ntok += 1;
                format!("get {}", rng.pick(&keys))
            }
            37..=40 => format!("{} {} {} {}", if rng.chance(1, 2) { "mabort" } else { "mdrop" }, rng.pick(&keys), (0..1 + rng.usize(2)).map(|_| rng.below(20).to_string()).collect::<Vec<_>>().join(","), rng.below(50)),
            41..=44 => format!("crash {} gc", rng.below(3)),
            _ => gen_mutation(rng, &keys, c, &mut ntok),
        };
        ops.push(op);
    }
    let target = gen_mutation(rng, &keys, c, &mut ntok);
    (ops, target, keys)
}

fn observations(keys: &[&str], gc_cut: Option<u64>) -> Vec<String> {
    let mut v = vec!["dump".to_string()];
    v.extend(keys.iter().map(|k| format!("get {k}")));
    v.push("list -".into());
    if let Some(n) = gc_cut {
        // the first collection after the crash dies itself, after n deletions; the next one completes
        v.push(format!("crash {n} gc"));
        v.push("dump".into());
        v.extend(keys.iter().map(|k| format!("get {k}")));
    }
    v.push("gc".into());
    v.push("dump".into());
    v.extend(keys.iter().map(|k| format!("get {k}")));
    v.push("listd -".into());
    v
}

// ------------------------------------------------------------------------------------------
// GC racing real writer tasks (measured)
// ------------------------------------------------------------------------------------------

async fn gc_race(fl: Flavor, seed: u64, rounds: u64) -> (u64, u64, Option<String>) {
    let su = Arc::new(Sut::new(fl));
    let keys = ["0", "1", "0/1"];
    let (mut gcs, mut writes) = (0u64, 0u64);
    for k in keys {
        su.store.put(&key_path(k).unwrap(), PutPayload::from(gen_bytes(1, 20))).await.ok();
    }
    for r in 0..rounds {
        let mut hs = vec![];
        for t in 0..3u64 {
            let s = su.store.clone();
            hs.push(tokio::spawn(async move {
                let mut n = 0u64;
                for j in 0..6u64 {
                    let k = key_path(["0", "1", "0/1"][((t + j + seed) % 3) as usize]).unwrap();
                    let k2 = key_path(["0", "1", "0/1"][((t + 2 * j + seed + 1) % 3) as usize]).unwrap();
                    let ok = match (t + j) % 3 {
                        0 => s.put(&k, PutPayload::from(gen_bytes(seed + r * 31 + t * 7 + j, 10 + (j as usize) * 3))).await.is_ok(),
                        1 => s.copy(&k, &k2).await.is_ok(),
                        _ => {
                            let mut up = match s.put_multipart(&k).await { Ok(u) => u, Err(_) => continue };
                            up.put_part(PutPayload::from(gen_bytes(seed + j, 9))).await.ok();
                            tokio::task::yield_now().await;
                            up.complete().await.is_ok()
                        }
                    };
                    if ok { n += 1; }
                    tokio::task::yield_now().await;
                }
                n
            }));
        }
        let ty = su.typed.clone();
        let g = tokio::spawn(async move {
            let mut n = 0;
            for _ in 0..4 {
                if ty.collect_garbage().await.is_ok() { n += 1; }
                tokio::task::yield_now().await;
            }
            n
        });
        for h in hs {
            writes += h.await.unwrap_or(0);
        }
        gcs += g.await.unwrap_or(0);
        // Referenced ⊆ Present: every key with a commit point reads in full, cold
        let probe = build_store(fl, su.backend.clone());
        let listed: Vec<object_store::ObjectMeta> = match probe.list(None).try_collect().await { Ok(v) => v, Err(e) => return (gcs, writes, Some(format!("list: {}", err_kind(&e)))) };
        for m in listed {
            match probe.get(&m.location).await {
                Ok(r) => match r.bytes().await {
                    Ok(b) if b.len() as u64 == m.size => {}
                    Ok(b) => return (gcs, writes, Some(format!("{}: {} bytes, listed {}", m.location, b.len(), m.size))),
                    Err(e) => return (gcs, writes, Some(format!("{}: body {}", m.location, err_kind(&e)))),
                },
                Err(e) => return (gcs, writes, Some(format!("{}: {}", m.location, err_kind(&e)))),
            }
        }
    }
    (gcs, writes, None)
}

fn main() {
    let args = Args::parse();
    let mut rep = Report::new(
        "C08",
        &args,
        "case = history of 2..6 operations (put ow/cr/update, multipart, copy, rename, delete, legacy object, gc, reopen, earlier crash) \
         + `crash n <op>` for one n (every n in 0..=6 of every target op is its own case) + cold dump/get/list, gc, dump/get/list again; \
         distinct = distinct op list; non-trivial = the crash cut the target op before its last backend mutation",
    );
    let search = args.focus.is_some();
    let mut cases: Vec<(String, Vec<String>)> = vec![];
    if let Some(p) = &args.replay {
        cases.push(("replay".into(), read_replay(p)));
    } else {
        if let Some(dir) = &args.corpus {
            cases.extend(read_corpus(dir));
        }
        let nbase = args.budget(260, 36000);
        for i in 0..nbase {
            let mut rng = Rng::for_case(args.seed, i);
            let (base, target, keys) = gen_base(&mut rng);
            for n in 0..=6u64 {
                let mut ops = base.clone();
                ops.push(format!("crash {n} {target}"));
                // every third base: the collection that cleans up after the crash is cut as well
                ops.extend(observations(&keys, if i % 3 == 0 { Some((i / 3 + n) % 3) } else { None }));
                cases.push((format!("gen{i}.{n}"), ops));
            }
        }
    }
    let ncorpus = cases.iter().filter(|c| !c.0.starts_with("gen")).count();
    let nthreads = std::thread::available_parallelism().map(|n| n.get()).unwrap_or(4).min(16).min(cases.len().max(1));
    let mut model_cov: BTreeMap<String, u64> = BTreeMap::new();
    let results: Vec<CaseResult> = {
        let mut slots: Vec<Option<CaseResult>> = (0..cases.len()).map(|_| None).collect();
        let chunks: Vec<Vec<usize>> = (0..nthreads).map(|t| (t..cases.len()).step_by(nthreads).collect()).collect();
        let outs: Vec<(Vec<(usize, CaseResult)>, Option<String>)> = std::thread::scope(|s| {
            let hs: Vec<_> = chunks
                .iter()
                .map(|idxs| {
                    let cases = &cases;
                    let args = &args;
                    s.spawn(move || {
                        let rt = tokio::runtime::Builder::new_current_thread().enable_all().build().unwrap();
                        let mut model = if search { None } else { ModelProc::from_args(args) };
                        let v = idxs.iter().map(|&i| (i, eval(&rt, &cases[i].1, &mut model))).collect::<Vec<_>>();
                        // which branches of the model this worker's share of the run visited
                        let cov = model.as_mut().map(|m| m.ask("coverage"));
                        (v, cov)
                    })
                })
                .collect();
            hs.into_iter().map(|h| h.join().expect("worker")).collect()
        });
        for (v, cov) in outs {
            for (i, r) in v {
                slots[i] = Some(r);
            }
            if let Some(c) = cov.as_deref().and_then(|c| c.strip_prefix("cov ")) {
                for kv in c.split(' ') {
                    if let Some((k, n)) = kv.rsplit_once('=') {
                        *model_cov.entry(k.to_string()).or_insert(0u64) += n.parse::<u64>().unwrap_or(0);
                    }
                }
            }
        }
        slots.into_iter().map(|s| s.unwrap()).collect()
    };

    let rt = tokio::runtime::Builder::new_current_thread().enable_all().build().unwrap();
    let mut model = if search { None } else { ModelProc::from_args(&args) };
    let mut reported: BTreeSet<String> = BTreeSet::new();
    let mut shrunk = 0;
    for ((name, ops), r) in cases.iter().zip(results.iter()) {
        if r.panicked {
            rep.oracle_failure("panic", "the implementation panicked", ops, "no panic", "panic");
            rep.case(&ops.join("|"), false);
            continue;
        }
        let out = match &r.out {
            Ok(o) => o,
            Err(e) => {
                // a key with a commit point that cannot be read cold is the property failing, not a harness error
                if e.starts_with("get ") {
                    if reported.insert("unreadable-key".into()) {
                        rep.oracle_failure("unreadable-key", &format!("a key with a commit point cannot be read by a fresh wrapper: {e}"), ops, "readable or absent", e);
                    }
                } else {
                    rep.hit("case_error");
                    rep.notes.push(format!("case {name} could not run: {e}"));
                }
                continue;
            }
        };
        for h in &out.hits {
            rep.hit(h);
        }
        rep.case(&ops.join("|"), out.nontrivial);
        if out.nontrivial && rep.samples.len() < 4 {
            rep.sample(json!({"case": name, "ops": ops, "wrapper": rank_times(&out.lines)}));
        }
        for f in &out.failures {
            if !reported.insert(f.key.clone()) {
                rep.hit(&format!("failure-again:{}", f.key));
                continue;
            }
            let prefix: Vec<String> = ops[..=f.at.min(ops.len() - 1)].to_vec();
            let key = f.key.clone();
            let last = prefix.last().unwrap().clone();
            // shrink the history before the failing op (the failing op itself stays)
            let small = shrink(
                prefix[1..prefix.len() - 1].to_vec(),
                |cand| {
                    let mut c = vec![prefix[0].clone()];
                    c.extend_from_slice(cand);
                    c.push(last.clone());
                    eval(&rt, &c, &mut None).out.as_ref().is_ok_and(|o| o.failures.iter().any(|g| g.key == key))
                },
                120,
            );
            let mut c = vec![prefix[0].clone()];
            c.extend(small);
            c.push(last.clone());
            let r2 = eval(&rt, &c, &mut None);
            let f2 = r2.out.as_ref().ok().and_then(|o| o.failures.iter().find(|g| g.key == f.key).cloned()).unwrap_or_else(|| f.clone());
            rep.oracle_failure(&f.key, &f2.what, &c, &f2.expected, &f2.observed);
        }
        if r.model.is_some() {
            rep.model_compared += ops.len() as u64 - 1;
            if let Some((what, m, im, at)) = first_disagreement(ops, r) {
                if shrunk < 3 && model.is_some() && !ops.iter().any(|o| o.starts_with("schedule")) {
                    shrunk += 1;
                    let prefix: Vec<String> = ops[..=at].to_vec();
                    let small = shrink(
                        prefix[1..].to_vec(),
                        |cand| {
                            let mut c = vec![prefix[0].clone()];
                            c.extend_from_slice(cand);
                            let r = eval(&rt, &c, &mut model);
                            first_disagreement(&c, &r).is_some()
                        },
                        120,
                    );
                    let mut c = vec![prefix[0].clone()];
                    c.extend(small);
                    let r2 = eval(&rt, &c, &mut model);
                    match first_disagreement(&c, &r2) {
                        Some((what, m, im, _)) => rep.disagreement(&what, &c, &m, &im),
                        None => rep.disagreement(&what, ops, &m, &im),
                    }
                } else {
                    rep.disagreement(&what, ops, &m, &im);
                }
            }
        }
    }

    // ---- collect_garbage ∥ writers: systematic enumeration of release orders (deterministic) ----
    if args.replay.is_none() {
        let thorough = args.thorough() || search;
        let (bound, cap) = if thorough { (3usize, 6000usize) } else { (2usize, 260usize) };
        let mut scenarios: Vec<(Vec<String>, Vec<conc::TaskSpec>)> = vec![];
        let flavors: Vec<&str> = if thorough { vec!["reset m", "reset e 7", "reset e 1"] } else { vec!["reset m", "reset e 7"] };
        for fl in &flavors {
            // key 0: a committed value plus one or two leftover generations (crashed puts); key 1: a copy source
            let one = vec![fl.to_string(), "put 0 ow 5 1".into(), "put 1 ow 4 2".into(), "crash 1 put 0 ow 3 9".into()];
            let mut two = one.clone();
            two.push("crash 1 put 0 ow 6 8".into());
            let mut setups = vec![one.clone(), two.clone()];
            if thorough {
                let mut three = two.clone();
                three.push("crash 1 copy 1 2 ow".into());
                setups.push(three);
                if *fl == "reset m" {
                    let mut leg = one.clone();
                    leg.push("legacy 2 3 4".into());
                    leg.push("crash 2 put 2 ow 2 2".into()); // committed migration, data/2 left behind
                    setups.push(leg);
                }
            }
            for (si, setup) in setups.iter().enumerate() {
                use conc::TaskSpec::*;
                let mut tss: Vec<Vec<conc::TaskSpec>> = vec![
                    vec![Gc, Put("0".into(), 4, 7)],
                    vec![Gc, Mput("0".into(), vec![3, 2], 7)],
                    vec![Gc, Copy("1".into(), "0".into())],
                    vec![Gc, Ren("1".into(), "0".into())],
                    vec![Gc, Del("0".into())],
                ];
                if !thorough && *fl != "reset m" && si == 0 {
                    tss.truncate(2);
                }
                // three tasks: the collector and two writers (same key, or source / target of each other)
                if thorough {
                    tss.push(vec![Gc, Put("0".into(), 4, 7), Put("0".into(), 2, 3)]);
                    tss.push(vec![Gc, Put("0".into(), 4, 7), Copy("1".into(), "2".into())]);
                    tss.push(vec![Gc, Put("0".into(), 4, 7), Del("0".into())]);
                    tss.push(vec![Gc, Put("2".into(), 4, 7)]);
                    tss.push(vec![Gc, Put("0".into(), 4, 7), Copy("1".into(), "0".into())]);
                    tss.push(vec![Gc, Put("0".into(), 4, 7), Ren("1".into(), "0".into())]);
                    tss.push(vec![Gc, Copy("1".into(), "0".into()), Del("0".into())]);
                    // not explored: a writer of the SOURCE racing a copy / rename of it (`put 1 ∥ ren 1 0`): the
                    // fork oracle's expected set and the driver's source resolution (shared metadata cache) do
                    // not cover it yet — see notes/C08.md
                    tss.push(vec![Gc, Mput("0".into(), vec![3, 2], 7), Del("0".into())]);
                } else if *fl == "reset m" && si == 0 {
                    tss.push(vec![Gc, Put("0".into(), 4, 7), Copy("1".into(), "0".into())]);
                    tss.push(vec![Gc, Put("0".into(), 4, 7), Ren("1".into(), "0".into())]);
                } else if si == 0 {
                    tss.push(vec![Gc, Copy("1".into(), "0".into()), Del("0".into())]);
                }
                for ts in tss {
                    scenarios.push((setup.clone(), ts));
                }
            }
        }
        struct SchedRes {
            ops: Vec<String>,
            line: String,
            model: Option<Vec<String>>,
            setup_lines: Vec<String>,
            failures: Vec<conc::ConcFailure>,
            deadlock: bool,
        }
        let nthreads = std::thread::available_parallelism().map(|n| n.get()).unwrap_or(4).min(16).min(scenarios.len().max(1));
        let t0 = std::time::Instant::now();
        let chunks: Vec<Vec<usize>> = (0..nthreads).map(|t| (t..scenarios.len()).step_by(nthreads).collect()).collect();
        let outs: Vec<Vec<(usize, Vec<SchedRes>, bool)>> = std::thread::scope(|s| {
            let hs: Vec<_> = chunks
                .iter()
                .map(|idxs| {
                    let scenarios = &scenarios;
                    let args = &args;
                    s.spawn(move || {
                        let rt = tokio::runtime::Builder::new_current_thread().enable_all().build().unwrap();
                        let mut model = if search { None } else { ModelProc::from_args(args) };
                        let mut res = vec![];
                        for &si in idxs {
                            let (setup, tasks) = &scenarios[si];
                            let base = match rt.block_on(run_case(setup)) {
                                Ok(b) => b,
                                Err(_) => continue,
                            };
                            let (Some(backend), Some(fl)) = (base.backend.clone(), base.flavor) else { continue };
                            let all: Vec<String> = CONC_KEYS.iter().map(|s| s.to_string()).collect();
                            let mut v: Vec<SchedRes> = vec![];
                            let cap_here = if thorough && tasks.len() > 2 { cap / 2 } else { cap };
                            let (_, truncated) = conc::explore(&rt, fl, &backend, tasks, &all, bound, cap_here, |o| {
                                let mut ops = setup.clone();
                                ops.push(conc::tasks_line(tasks));
                                ops.push(format!("schedule {}", o.chosen.iter().map(|c| c.to_string()).collect::<Vec<_>>().join(",")));
                                let m = model.as_mut().map(|m| ops.iter().map(|op| m.ask(op)).collect::<Vec<_>>());
                                v.push(SchedRes { ops, line: o.line.clone(), model: m, setup_lines: base.lines.clone(), failures: o.failures.clone(), deadlock: o.deadlock });
                            });
                            res.push((si, v, truncated));
                        }
                        res
                    })
                })
                .collect();
            hs.into_iter().map(|h| h.join().expect("worker")).collect()
        });
        let mut all: Vec<(usize, Vec<SchedRes>, bool)> = outs.into_iter().flatten().collect();
        all.sort_by_key(|x| x.0);
        let (mut nsched, mut ntrunc) = (0u64, 0u64);
        for (si, v, truncated) in all {
            if truncated {
                ntrunc += 1;
            }
            rep.hit_n(&format!("sched:{}", scenarios[si].1.iter().map(|t| t.line().split(' ').next().unwrap_or("").to_string()).collect::<Vec<_>>().join("+")), v.len() as u64);
            for r in v {
                nsched += 1;
                rep.case(&r.ops.join("|"), true);
                if nsched % 500 == 1 && rep.samples.len() < 6 {
                    rep.sample(json!({"case": format!("sched{si}"), "ops": r.ops, "wrapper": r.line}));
                }
                if r.deadlock {
                    rep.hit("sched:deadlock");
                    rep.notes.push(format!("schedule ended with unfinished tasks and nothing parked: {:?}", r.ops.last()));
                }
                for f in &r.failures {
                    if reported.insert(f.key.clone()) {
                        rep.oracle_failure(&f.key, &f.what, &r.ops, &f.expected, &f.observed);
                    } else {
                        rep.hit(&format!("failure-again:{}", f.key));
                    }
                }
                if let Some(m) = &r.model {
                    rep.model_compared += 1;
                    let ml = rank_times(m);
                    let sl = rank_times(&r.setup_lines);
                    let n = r.ops.len();
                    let mut bad: Option<(String, String, String)> = None;
                    for i in 0..sl.len().min(n - 2) {
                        if ml[i] != sl[i] {
                            bad = Some((format!("wrapper model vs wrapper on `{}`", r.ops[i]), ml[i].clone(), sl[i].clone()));
                            break;
                        }
                    }
                    if bad.is_none() && ml[n - 1] != r.line {
                        bad = Some((format!("interleaving model vs wrapper on `{}`", r.ops[n - 1]), ml[n - 1].clone(), r.line.clone()));
                    }
                    if let Some((what, m, im)) = bad {
                        rep.disagreement(&what, &r.ops, &m, &im);
                    }
                }
            }
        }
        rep.notes.push(format!(
            "interleavings: {nsched} complete schedules of collect_garbage || writers over {} scenarios (pre-emption bound {bound}, cap {cap}/scenario, {ntrunc} truncated), {:.1}s",
            scenarios.len(),
            t0.elapsed().as_secs_f64()
        ));
    }

    // GC racing real writer tasks on a multi-thread runtime: measured only
    if args.replay.is_none() {
        let mt = tokio::runtime::Builder::new_multi_thread().worker_threads(4).enable_all().build().unwrap();
        let rounds = args.budget(40, 4000);
        let (mut gcs, mut writes) = (0, 0);
        for (j, fl) in [Flavor::Meta, Flavor::Enc(7)].iter().enumerate() {
            let (g, w, bad) = mt.block_on(gc_race(*fl, args.seed + j as u64, rounds));
            gcs += g;
            writes += w;
            if let Some(b) = bad {
                rep.oracle_failure("gc-race-lost-payload", "after collect_garbage ran concurrently with in-process writers a committed key cannot be read in full", &[format!("gc_race flavor={fl:?} seed={} rounds={rounds}", args.seed + j as u64)], "every committed key readable", &b);
            }
        }
        rep.measured.insert("gc_race".into(), json!({"collections": gcs, "successful_writer_calls": writes, "what": "collect_garbage x4 per round racing 3 writer tasks (put / copy / multipart) on a 4-thread runtime; after each round every committed key read cold in full. Real scheduling, not enumerated: measured, not proved."}));
    }
    rep.notes.push(format!("{ncorpus} corpus case(s) run first; {} worker threads", nthreads));
    // branch coverage of the model under the correspondence run (counters kept by the Lean driver)
    if !model_cov.is_empty() {
        let own = |k: &str| k.starts_with("crash:") || k.starts_with("gc") || k == "abort" || k == "legacy" || k == "reopen" || k.starts_with("put:") || k.starts_with("mput:") || k.starts_with("del:") || k.starts_with("copy:") || k.starts_with("ren:");
        let mut unvisited: Vec<String> = vec![];
        let (mut tags, mut visited) = (0u64, 0u64);
        for (k, n) in &model_cov {
            if !own(k) {
                continue;
            }
            tags += 1;
            rep.hit_n(&format!("model:{k}"), *n);
            if *n == 0 {
                unvisited.push(k.clone());
            } else {
                visited += 1;
            }
        }
        rep.measured.insert(
            "model_branch_coverage".into(),
            json!({"tags": tags, "visited": visited, "unvisited": unvisited,
                   "what": "branches of the Lean model (op kind x key presence x mode x outcome, the 81 rows of the get-precondition table, range kinds, cache hit/miss/stale, crash cut positions, GC outcomes) counted by the driver while it answered the generated cases; histogram keys `model:<tag>`"}),
        );
    }
    rep.write(&args);
}
