//! Harness for property C08 (stub: not built yet).
fn main() {
    let a = vh_common::Args::parse();
    let r = vh_common::Report::new("C08", &a, "stub");
    r.write(&a);
}
