//! Deterministic exploration of `collect_garbage` ∥ in-process writers (C08 `gc_safe`).
//!
//! `SchedStore` parks every backend call of a scheduled task until the explorer releases it. On a
//! current-thread tokio runtime the code between two parked calls runs atomically, so a schedule is a
//! list of task ids ("let that task run to its next backend call / to its end"). Schedules are
//! enumerated depth first with a bound on pre-emptions; every complete schedule is checked by the
//! fork oracle and replayed by the Lean driver on `Model/ObjStoreConc.lean` (the backend call each
//! release performed, the surviving object set and every cold read are compared).
use crate::sut::*;
use anda_object_store::{EncryptedStore, EncryptedStoreBuilder, MetaStore, MetaStoreBuilder};
use async_trait::async_trait;
use bytes::Bytes;
use futures::{StreamExt, TryStreamExt, stream::BoxStream};
use object_store::{
    CopyOptions, GetOptions, GetResult, ListResult, MultipartUpload, ObjectMeta, ObjectStore, ObjectStoreExt, PutMultipartOptions, PutOptions,
    PutPayload, PutResult, Result, UploadPart, memory::InMemory, path::Path,
};
use std::collections::{BTreeMap, BTreeSet};
use std::sync::{Arc, Mutex};

tokio::task_local! { static TASK: usize; }

#[derive(Default)]
struct GateState {
    parked: Vec<(usize, String, tokio::sync::oneshot::Sender<()>)>,
}

#[derive(Clone, Default)]
pub struct Gate(Arc<Mutex<GateState>>);

impl Gate {
    async fn pass(&self, desc: String) {
        let Ok(id) = TASK.try_with(|t| *t) else { return }; // not a scheduled task: pass through
        let (tx, rx) = tokio::sync::oneshot::channel();
        self.0.lock().unwrap().parked.push((id, desc, tx));
        let _ = rx.await;
    }
    fn parked_tasks(&self) -> Vec<usize> {
        let mut v: Vec<usize> = self.0.lock().unwrap().parked.iter().map(|p| p.0).collect();
        v.sort();
        v.dedup();
        v
    }
    fn release(&self, id: usize) -> Option<String> {
        let mut g = self.0.lock().unwrap();
        let i = g.parked.iter().position(|p| p.0 == id)?;
        let (_, d, tx) = g.parked.remove(i);
        let _ = tx.send(());
        Some(d)
    }
}

/// `ObjectStore` wrapper that parks every call of a scheduled task at the gate.
#[derive(Debug)]
pub struct SchedStore {
    inner: InMemory,
    gate: GateDbg,
}
#[derive(Clone)]
struct GateDbg(Gate);
impl std::fmt::Debug for GateDbg {
    fn fmt(&self, f: &mut std::fmt::Formatter<'_>) -> std::fmt::Result {
        write!(f, "Gate")
    }
}
impl std::fmt::Display for SchedStore {
    fn fmt(&self, f: &mut std::fmt::Formatter<'_>) -> std::fmt::Result {
        write!(f, "SchedStore")
    }
}

#[derive(Debug)]
struct SchedUpload {
    inner: Box<dyn MultipartUpload>,
    gate: GateDbg,
    path: String,
}
#[async_trait]
impl MultipartUpload for SchedUpload {
    fn put_part(&mut self, payload: PutPayload) -> UploadPart {
        self.inner.put_part(payload)
    }
    async fn complete(&mut self) -> Result<PutResult> {
        self.gate.0.pass(format!("mc:{}", self.path)).await;
        self.inner.complete().await
    }
    async fn abort(&mut self) -> Result<()> {
        self.inner.abort().await
    }
}

#[async_trait]
impl ObjectStore for SchedStore {
    async fn put_opts(&self, location: &Path, payload: PutPayload, opts: PutOptions) -> Result<PutResult> {
        self.gate.0.pass(format!("p:{location}")).await;
        self.inner.put_opts(location, payload, opts).await
    }
    async fn put_multipart_opts(&self, location: &Path, opts: PutMultipartOptions) -> Result<Box<dyn MultipartUpload>> {
        self.gate.0.pass(format!("mi:{location}")).await;
        let inner = self.inner.put_multipart_opts(location, opts).await?;
        Ok(Box::new(SchedUpload { inner, gate: self.gate.clone(), path: location.to_string() }))
    }
    async fn get_opts(&self, location: &Path, options: GetOptions) -> Result<GetResult> {
        self.gate.0.pass(format!("g:{location}")).await;
        self.inner.get_opts(location, options).await
    }
    fn delete_stream(&self, locations: BoxStream<'static, Result<Path>>) -> BoxStream<'static, Result<Path>> {
        let gate = self.gate.clone();
        let gated = locations
            .then(move |l| {
                let gate = gate.clone();
                async move {
                    if let Ok(p) = &l {
                        gate.0.pass(format!("d:{p}")).await;
                    }
                    l
                }
            })
            .boxed();
        self.inner.delete_stream(gated)
    }
    fn list(&self, prefix: Option<&Path>) -> BoxStream<'static, Result<ObjectMeta>> {
        let gate = self.gate.clone();
        let inner = self.inner.clone();
        let prefix = prefix.cloned();
        futures::stream::once(async move {
            gate.0.pass(format!("l:{}", prefix.as_ref().map(|p| p.to_string()).unwrap_or_default())).await;
            inner.list(prefix.as_ref())
        })
        .flatten()
        .boxed()
    }
    async fn list_with_delimiter(&self, prefix: Option<&Path>) -> Result<ListResult> {
        self.gate.0.pass(format!("l:{}", prefix.map(|p| p.to_string()).unwrap_or_default())).await;
        self.inner.list_with_delimiter(prefix).await
    }
    async fn copy_opts(&self, from: &Path, to: &Path, options: CopyOptions) -> Result<()> {
        self.gate.0.pass(format!("c:{to}")).await;
        self.inner.copy_opts(from, to, options).await
    }
}

#[derive(Clone)]
enum TypedS {
    Meta(Arc<MetaStore<SchedStore>>),
    Enc(Arc<EncryptedStore<SchedStore>>),
}
impl TypedS {
    fn build(fl: Flavor, inner: InMemory, gate: Gate) -> (TypedS, Arc<dyn ObjectStore>) {
        let ss = SchedStore { inner, gate: GateDbg(gate) };
        match fl {
            Flavor::Enc(c) => {
                let s = Arc::new(EncryptedStoreBuilder::with_secret(ss, 1000, [7u8; 32]).with_chunk_size(c).build());
                let d: Arc<dyn ObjectStore> = s.clone();
                (TypedS::Enc(s), d)
            }
            _ => {
                let s = Arc::new(MetaStoreBuilder::new(ss, 1000).build());
                let d: Arc<dyn ObjectStore> = s.clone();
                (TypedS::Meta(s), d)
            }
        }
    }
    async fn collect_garbage(&self) -> Result<usize> {
        match self {
            TypedS::Meta(s) => s.collect_garbage().await,
            TypedS::Enc(s) => s.collect_garbage().await,
        }
    }
}

#[derive(Clone, Debug, PartialEq)]
pub enum TaskSpec {
    Gc,
    Put(String, usize, u64),
    Mput(String, Vec<usize>, u64),
    Copy(String, String),
    Ren(String, String),
    Del(String),
    /// `get_opts`: key, conditions (`im+ius`, `-`), range (`b:1:3`), head, warm metadata cache
    Get(String, String, Option<String>, bool, bool),
}

impl TaskSpec {
    pub fn parse(w: &[&str]) -> Option<TaskSpec> {
        Some(match w {
            ["gc"] => TaskSpec::Gc,
            ["put", k, size, seed] => TaskSpec::Put(k.to_string(), size.parse().ok()?, seed.parse().ok()?),
            ["mput", k, sizes, seed] => TaskSpec::Mput(k.to_string(), sizes.split(',').map(|s| s.parse().ok()).collect::<Option<_>>()?, seed.parse().ok()?),
            ["copy", a, b] => TaskSpec::Copy(a.to_string(), b.to_string()),
            ["ren", a, b] => TaskSpec::Ren(a.to_string(), b.to_string()),
            ["del", k] => TaskSpec::Del(k.to_string()),
            ["get", k, cond, rest @ ..] => {
                let mut range = None;
                let (mut head, mut warm) = (false, false);
                for a in rest {
                    match *a {
                        "head" => head = true,
                        "warm" => warm = true,
                        a => range = Some(a.strip_prefix("r=")?.to_string()),
                    }
                }
                TaskSpec::Get(k.to_string(), cond.to_string(), range, head, warm)
            }
            _ => return None,
        })
    }
    pub fn line(&self) -> String {
        match self {
            TaskSpec::Gc => "gc".into(),
            TaskSpec::Put(k, s, d) => format!("put {k} {s} {d}"),
            TaskSpec::Mput(k, s, d) => format!("mput {k} {} {d}", s.iter().map(|x| x.to_string()).collect::<Vec<_>>().join(",")),
            TaskSpec::Copy(a, b) => format!("copy {a} {b}"),
            TaskSpec::Ren(a, b) => format!("ren {a} {b}"),
            TaskSpec::Del(k) => format!("del {k}"),
            TaskSpec::Get(k, c, r, h, w) => format!(
                "get {k} {c}{}{}{}",
                r.as_ref().map(|r| format!(" r={r}")).unwrap_or_default(),
                if *h { " head" } else { "" },
                if *w { " warm" } else { "" }
            ),
        }
    }
    /// the release (0 = start) during which the task mints its generation / takes the floor
    fn mints_at(&self, release: usize) -> bool {
        release == 0 || (matches!(self, TaskSpec::Copy(..) | TaskSpec::Ren(..)) && release == 1)
    }
    /// keys the task writes, with the value an acknowledged call leaves (None = absent); `src` = copy of that key's before-value
    fn effects(&self) -> Vec<(String, Effect)> {
        match self {
            TaskSpec::Gc | TaskSpec::Get(..) => vec![],
            TaskSpec::Put(k, s, d) => vec![(k.clone(), Effect::Bytes(show_data(&gen_bytes(*d, *s))))],
            TaskSpec::Mput(k, s, d) => vec![(k.clone(), Effect::Bytes(show_data(&gen_bytes(*d, s.iter().sum()))))],
            TaskSpec::Copy(a, b) => vec![(b.clone(), Effect::CopyOf(a.clone()))],
            TaskSpec::Ren(a, b) => vec![(b.clone(), Effect::CopyOf(a.clone())), (a.clone(), Effect::Absent)],
            TaskSpec::Del(k) => vec![(k.clone(), Effect::Absent)],
        }
    }
}

#[derive(Clone, Debug)]
enum Effect {
    Bytes(String),
    CopyOf(String),
    Absent,
}

pub fn parse_tasks(line: &str) -> Option<Vec<TaskSpec>> {
    let rest = line.strip_prefix("tasks ")?;
    rest.split('|').map(|g| TaskSpec::parse(&g.split(' ').filter(|s| !s.is_empty()).collect::<Vec<_>>())).collect()
}

pub fn tasks_line(ts: &[TaskSpec]) -> String {
    format!("tasks {}", ts.iter().map(|t| t.line()).collect::<Vec<_>>().join(" | "))
}

#[derive(Default, Clone)]
pub struct ConcFailure {
    pub key: String,
    pub what: String,
    pub expected: String,
    pub observed: String,
}

#[derive(Default)]
pub struct ConcOut {
    /// canonical answer, same format as the driver's answer to `schedule`
    pub line: String,
    pub chosen: Vec<usize>,
    pub enabled_at: Vec<Vec<usize>>,
    pub failures: Vec<ConcFailure>,
    pub deadlock: bool,
}

fn ms_now() -> i64 {
    chrono::Utc::now().timestamp_millis()
}

/// spin until the wall clock is in a later millisecond than everything before (by 2 ms)
fn ms_gap() {
    let t = ms_now();
    while ms_now() < t + 2 {
        std::thread::sleep(std::time::Duration::from_micros(200));
    }
}

/// let every runnable task run until it parks at the gate, blocks on a lock or ends
async fn settle() {
    for _ in 0..6 {
        tokio::task::yield_now().await;
    }
}

type View = BTreeMap<String, Option<(u64, String, String, i64)>>;

/// what a reader task got
#[derive(Clone, Debug, PartialEq)]
pub struct ReadRes {
    pub size: u64,
    pub tok: String,
    pub micros: i64,
    pub range: (u64, u64),
    pub data: Vec<u8>,
}

/// one commit of a key, for the read oracle
#[derive(Clone, Debug)]
struct Commit {
    tok: String,
    micros: i64,
    bytes: Vec<u8>,
}

async fn commit_of(fl: Flavor, backend: &InMemory, k: &str) -> Option<Commit> {
    let store = build_store(fl, backend.clone());
    let r = store.get(&key_path(k)?).await.ok()?;
    let meta = r.meta.clone();
    let b = r.bytes().await.ok()?;
    Some(Commit { tok: meta.e_tag.unwrap_or_default(), micros: meta.last_modified.timestamp_micros(), bytes: b.to_vec() })
}

fn get_options(cond: &str, range: &Option<String>, head: bool, v1: &Option<Commit>) -> Option<GetOptions> {
    let mut o = GetOptions::default();
    let tok = v1.as_ref().map(|c| c.tok.clone()).unwrap_or_else(|| "no-such-token".into());
    let tm = v1.as_ref().map(|c| c.micros).unwrap_or(1_000_000);
    let date = |micros: i64| chrono::DateTime::from_timestamp_micros(micros);
    if cond != "-" {
        for c in cond.split('+') {
            match c {
                "im" => o.if_match = Some(tok.clone()),
                "imx" => o.if_match = Some("nobody-holds-this".into()),
                "inm" => o.if_none_match = Some(tok.clone()),
                "inmx" => o.if_none_match = Some("nobody-holds-this".into()),
                "ius" => o.if_unmodified_since = date(tm),
                "iusm" => o.if_unmodified_since = date(tm - 1000),
                "ims" => o.if_modified_since = date(tm),
                "imsm" => o.if_modified_since = date(tm - 1000),
                _ => return None,
            }
        }
    }
    if let Some(r) = range {
        let parts: Vec<&str> = r.split(':').collect();
        o.range = Some(match parts.as_slice() {
            ["b", s, e] => object_store::GetRange::Bounded(s.parse().ok()?..e.parse().ok()?),
            ["o", n] => object_store::GetRange::Offset(n.parse().ok()?),
            ["s", n] => object_store::GetRange::Suffix(n.parse().ok()?),
            _ => return None,
        });
    }
    o.head = head;
    Some(o)
}

/// what the reference answers for `opts` on one commit (None = the key is absent)
fn expect_on(c: &Option<Commit>, cond: &str, range: &Option<String>, v1: &Option<Commit>) -> std::result::Result<ReadRes, String> {
    let Some(c) = c else { return Err("err:notfound".into()) };
    let tok1 = v1.as_ref().map(|c| c.tok.clone()).unwrap_or_else(|| "no-such-token".into());
    let tm1 = v1.as_ref().map(|c| c.micros).unwrap_or(1_000_000);
    let cs: Vec<&str> = if cond == "-" { vec![] } else { cond.split('+').collect() };
    let im: Option<bool> = if cs.contains(&"im") { Some(c.tok == tok1) } else if cs.contains(&"imx") { Some(false) } else { None };
    let inm: Option<bool> = if cs.contains(&"inm") { Some(c.tok == tok1) } else if cs.contains(&"inmx") { Some(false) } else { None };
    let ius: Option<i64> = if cs.contains(&"ius") { Some(tm1) } else if cs.contains(&"iusm") { Some(tm1 - 1000) } else { None };
    let ims: Option<i64> = if cs.contains(&"ims") { Some(tm1) } else if cs.contains(&"imsm") { Some(tm1 - 1000) } else { None };
    // RFC 9110 13.2.2
    match (im, ius) {
        (Some(false), _) => return Err("err:precond".into()),
        (None, Some(d)) if c.micros > d => return Err("err:precond".into()),
        _ => {}
    }
    match (inm, ims) {
        (Some(true), _) => return Err("err:notmodified".into()),
        (None, Some(d)) if c.micros <= d => return Err("err:notmodified".into()),
        _ => {}
    }
    let len = c.bytes.len() as u64;
    let (s, e) = match range {
        None => (0, len),
        Some(r) => {
            let p: Vec<&str> = r.split(':').collect();
            match p.as_slice() {
                ["b", s, e] => {
                    let (s, e): (u64, u64) = (s.parse().unwrap_or(0), e.parse().unwrap_or(0));
                    if e <= s || s >= len { return Err("err:generic".into()); }
                    (s, e.min(len))
                }
                ["o", n] => {
                    let n: u64 = n.parse().unwrap_or(0);
                    if n >= len { return Err("err:generic".into()); }
                    (n, len)
                }
                ["s", n] => (len.saturating_sub(n.parse().unwrap_or(0)), len),
                _ => return Err("err:generic".into()),
            }
        }
    };
    Ok(ReadRes { size: len, tok: c.tok.clone(), micros: c.micros, range: (s, e), data: c.bytes[s as usize..e as usize].to_vec() })
}

async fn view_of(fl: Flavor, backend: &InMemory, keys: &[String]) -> std::result::Result<View, String> {
    let store = build_store(fl, backend.clone());
    let mut v = View::new();
    for k in keys {
        let p = key_path(k).unwrap();
        match store.get(&p).await {
            Ok(r) => {
                let meta = r.meta.clone();
                match r.bytes().await {
                    Ok(b) => {
                        v.insert(k.clone(), Some((meta.size, show_data(&b), meta.e_tag.unwrap_or_default(), meta.last_modified.timestamp_micros())));
                    }
                    Err(e) => return Err(format!("get {k}: body unreadable: {}", err_kind(&e))),
                }
            }
            Err(object_store::Error::NotFound { .. }) => {
                v.insert(k.clone(), None);
            }
            Err(e) => return Err(format!("get {k}: {}", err_kind(&e))),
        }
    }
    Ok(v)
}

fn canon_key(raw: &str) -> String {
    show_key(&Path::from(raw))
}

/// canonical description of a released backend call (generation strings -> nothing / rank)
fn canon_desc(raw: &str, gens: &mut BTreeMap<String, BTreeSet<String>>) -> String {
    let (kind, path) = raw.split_once(':').unwrap_or((raw, ""));
    if kind == "l" {
        return format!("l:{}", path.split('/').next().unwrap_or(""));
    }
    if let Some(r) = path.strip_prefix("meta/") {
        return format!("{kind}:meta/{}", canon_key(r));
    }
    if let Some(r) = path.strip_prefix("data/") {
        return format!("{kind}:data/{}", canon_key(r));
    }
    if let Some(r) = path.strip_prefix("gen/") {
        let (k, g) = r.rsplit_once('/').unwrap_or((r, ""));
        let key = canon_key(k);
        if kind == "d" {
            let rank = gens.get(&key).map(|s| s.iter().filter(|x| x.as_str() < g).count()).unwrap_or(0);
            return format!("d:gen/{key}/{rank}");
        }
        if kind != "mi" {
            gens.entry(key.clone()).or_default().insert(g.to_string());
        }
        return format!("{kind}:gen/{key}");
    }
    format!("{kind}:?{path}")
}

async fn dump_backend(backend: &InMemory) -> (String, BTreeMap<String, BTreeSet<String>>, Vec<String>) {
    let all: Vec<ObjectMeta> = backend.list(None).try_collect().await.unwrap_or_default();
    let (mut ms, mut ds, mut gs): (Vec<String>, Vec<String>, BTreeMap<String, BTreeSet<String>>) = (vec![], vec![], BTreeMap::new());
    for m in all {
        let s = m.location.as_ref().to_string();
        if let Some(r) = s.strip_prefix("meta/") {
            ms.push(canon_key(r));
        } else if let Some(r) = s.strip_prefix("data/") {
            ds.push(canon_key(r));
        } else if let Some(r) = s.strip_prefix("gen/") {
            let (k, g) = r.rsplit_once('/').unwrap_or((r, ""));
            gs.entry(canon_key(k)).or_default().insert(g.to_string());
        }
    }
    let sort = |v: &mut Vec<String>| v.sort_by(|a, b| key_path(a).cmp(&key_path(b)));
    sort(&mut ms);
    sort(&mut ds);
    let mut gk: Vec<String> = gs.keys().cloned().collect();
    sort(&mut gk);
    let line = format!("ok m=[{}] d=[{}] g=[{}]", ms.join(","), ds.join(","), gk.iter().map(|k| format!("{k}:{}", gs[k].len())).collect::<Vec<_>>().join(","));
    (line, gs, ms)
}

/// Runs one schedule: `choices` is a prefix, continued without pre-emption (stay on the running task,
/// else the lowest enabled id).
pub async fn run(fl: Flavor, backend: InMemory, tasks: &[TaskSpec], choices: &[usize], all_keys: &[String]) -> ConcOut {
    let mut out = ConcOut::default();
    let before = view_of(fl, &backend, all_keys).await;
    let (_, mut gens, _) = dump_backend(&backend).await;
    let gate = Gate::default();
    let (typed, store) = TypedS::build(fl, backend.clone(), gate.clone());
    let n = tasks.len();
    let mut handles: Vec<Option<tokio::task::JoinHandle<std::result::Result<Option<ReadRes>, String>>>> = (0..n).map(|_| None).collect();
    // v1 of every key a reader targets (tokens / dates of the conditions), warm caches
    let mut v1s: BTreeMap<String, Option<Commit>> = BTreeMap::new();
    for t in tasks {
        if let TaskSpec::Get(k, _, _, _, warm) = t {
            if !v1s.contains_key(k) {
                v1s.insert(k.clone(), commit_of(fl, &backend, k).await);
            }
            if *warm {
                let _ = store.head(&key_path(k).unwrap()).await; // not a scheduled task: passes the gate
            }
        }
    }
    let mut started = vec![false; n];
    let mut releases = vec![0usize; n];
    let mut results: Vec<Option<std::result::Result<Option<ReadRes>, String>>> = (0..n).map(|_| None).collect();
    let mut trace: Vec<String> = vec![];
    let mut current: Option<usize> = None;
    let mut cpos = 0usize; // next entry of `choices`
    loop {
        settle().await;
        for i in 0..n {
            if results[i].is_none() && handles[i].as_ref().is_some_and(|h| h.is_finished()) {
                results[i] = Some(handles[i].take().unwrap().await.unwrap_or_else(|_| Err("panic".into())));
            }
        }
        let parked = gate.parked_tasks();
        let enabled: Vec<usize> = (0..n).filter(|i| results[*i].is_none() && (!started[*i] || parked.contains(i))).collect();
        if enabled.is_empty() {
            out.deadlock = results.iter().any(|r| r.is_none());
            break;
        }
        // entries naming a task that is not enabled here (already returned) are ignored
        while cpos < choices.len() && !enabled.contains(&choices[cpos]) {
            cpos += 1;
        }
        let pick = if cpos < choices.len() {
            cpos += 1;
            choices[cpos - 1]
        } else if let Some(c) = current.filter(|c| enabled.contains(c)) {
            c
        } else {
            enabled[0]
        };
        out.enabled_at.push(enabled);
        out.chosen.push(pick);
        current = Some(pick);
        let mints = tasks[pick].mints_at(releases[pick]);
        if mints {
            ms_gap();
        }
        if !started[pick] {
            started[pick] = true;
            let spec = tasks[pick].clone();
            let store = store.clone();
            let typed = typed.clone();
            let v1 = if let TaskSpec::Get(k, ..) = &spec { v1s.get(k).cloned().flatten() } else { None };
            handles[pick] = Some(tokio::spawn(TASK.scope(pick, async move {
                let e = |e: object_store::Error| err_kind(&e);
                let r: std::result::Result<(), String> = match spec {
                    TaskSpec::Get(k, cond, range, head, _) => {
                        let o = get_options(&cond, &range, head, &v1).ok_or("bad get options")?;
                        let r = store.get_opts(&key_path(&k).unwrap(), o).await.map_err(e)?;
                        let meta = r.meta.clone();
                        let range = r.range.clone();
                        let data = if head { vec![] } else { r.bytes().await.map_err(|x| format!("err:body:{}", err_kind(&x)))?.to_vec() };
                        return Ok(Some(ReadRes { size: meta.size, tok: meta.e_tag.unwrap_or_default(), micros: meta.last_modified.timestamp_micros(), range: (range.start, range.end), data }));
                    }
                    TaskSpec::Gc => typed.collect_garbage().await.map(|_| ()).map_err(e),
                    TaskSpec::Put(k, s, d) => store.put(&key_path(&k).unwrap(), PutPayload::from(gen_bytes(d, s))).await.map(|_| ()).map_err(e),
                    TaskSpec::Mput(k, sizes, d) => {
                        let all = gen_bytes(d, sizes.iter().sum());
                        let mut up = store.put_multipart(&key_path(&k).unwrap()).await.map_err(e)?;
                        let mut off = 0;
                        for s in &sizes {
                            up.put_part(PutPayload::from(all[off..off + s].to_vec())).await.map_err(e)?;
                            off += s;
                        }
                        let r = up.complete().await.map(|_| ()).map_err(e);
                        drop(up);
                        r
                    }
                    TaskSpec::Copy(a, b) => store.copy(&key_path(&a).unwrap(), &key_path(&b).unwrap()).await.map_err(e),
                    TaskSpec::Ren(a, b) => store.rename(&key_path(&a).unwrap(), &key_path(&b).unwrap()).await.map_err(e),
                    TaskSpec::Del(k) => store.delete(&key_path(&k).unwrap()).await.map_err(e),
                };
                r.map(|_| None)
            })));
            trace.push(format!("{pick}:start"));
        } else {
            let raw = gate.release(pick).unwrap_or_default();
            trace.push(format!("{pick}:{}", canon_desc(&raw, &mut gens)));
        }
        releases[pick] += 1;
        if mints {
            settle().await;
            ms_gap();
        }
    }
    // ---- answer line (same format as the driver's) ----
    let (dump, _, listed) = dump_backend(&backend).await;
    let probe = build_store(fl, backend.clone());
    let mut reads = vec![];
    for k in &listed {
        let r = match probe.get(&key_path(k).unwrap()).await {
            Ok(g) => match g.bytes().await {
                Ok(b) => show_data(&b),
                Err(e) => format!("err:body:{}", err_kind(&e)),
            },
            Err(e) => err_kind(&e),
        };
        reads.push(format!("{k}={r}"));
    }
    out.line = format!("{} | {} | {}", trace.join(" "), dump, reads.join(" "));
    let mut rds = vec![];
    for (i, t) in tasks.iter().enumerate() {
        if let TaskSpec::Get(k, _, _, head, _) = t {
            let old = v1s.get(k).cloned().flatten().map(|c| c.tok);
            rds.push(format!(
                "r{i}={}",
                match &results[i] {
                    Some(Ok(Some(r))) => {
                        let tk = if Some(&r.tok) == old.as_ref() { "old" } else { "new" };
                        if *head { format!("ok size={} tok={tk}", r.size) } else { format!("ok size={} range={}..{} data={} tok={tk}", r.size, r.range.0, r.range.1, show_data(&r.data)) }
                    }
                    Some(Err(e)) => e.clone(),
                    _ => "unfinished".into(),
                }
            ));
        }
    }
    if !rds.is_empty() {
        out.line = format!("{} | {}", out.line, rds.join(" "));
    }
    if out.deadlock {
        return out;
    }
    // ---- oracle ----
    let sched = out.chosen.iter().map(|c| c.to_string()).collect::<Vec<_>>().join(",");
    // 1. listed => readable in full with the listed size
    match probe.list(None).try_collect::<Vec<ObjectMeta>>().await {
        Err(e) => out.failures.push(ConcFailure { key: "gc-race-list-fails".into(), what: format!("schedule {sched}: a cold listing fails"), expected: "ok".into(), observed: err_kind(&e) }),
        Ok(ms) => {
            for m in ms {
                let ok = match probe.get(&m.location).await {
                    Ok(r) => r.bytes().await.map(|b: Bytes| b.len() as u64 == m.size).unwrap_or(false),
                    Err(_) => false,
                };
                if !ok {
                    out.failures.push(ConcFailure {
                        key: "gc-race-listed-unreadable".into(),
                        what: format!("schedule {sched}: after collect_garbage interleaved with the writers, key {} is listed but cannot be read in full (its payload was collected)", show_key(&m.location)),
                        expected: "every listed key readable with the listed size".into(),
                        observed: format!("get {} fails / other size", show_key(&m.location)),
                    });
                }
            }
        }
    }
    // 0. every completed read is the answer of the reference for ONE commit of the key (the one current
    //    when the tasks started or the one current at the end; with one writer there is no other)
    for (i, t) in tasks.iter().enumerate() {
        let TaskSpec::Get(k, cond, range, head, _) = t else { continue };
        let v1 = v1s.get(k).cloned().flatten();
        let last = commit_of(fl, &backend, k).await;
        let mut commits = vec![v1.clone(), last];
        if tasks.iter().any(|w| matches!(w, TaskSpec::Del(x) if x == k)) || tasks.iter().any(|w| matches!(w, TaskSpec::Ren(x, _) if x == k)) {
            commits.push(None);
        }
        let accept: Vec<std::result::Result<ReadRes, String>> = commits.iter().map(|c| expect_on(c, cond, range, &v1)).collect();
        let got: std::result::Result<ReadRes, String> = match &results[i] {
            Some(Ok(Some(r))) => Ok(r.clone()),
            Some(Err(e)) => Err(e.clone()),
            _ => Err("unfinished".into()),
        };
        let same = |a: &std::result::Result<ReadRes, String>, b: &std::result::Result<ReadRes, String>| match (a, b) {
            (Ok(x), Ok(y)) => x.size == y.size && x.tok == y.tok && x.micros == y.micros && (*head || (x.range == y.range && x.data == y.data)),
            (Err(x), Err(y)) => x == y,
            _ => false,
        };
        if !accept.iter().any(|a| same(a, &got)) {
            let show = |r: &std::result::Result<ReadRes, String>| match r {
                Ok(x) => format!("ok size={} tok={} range={}..{} data={}", x.size, if Some(&x.tok) == v1.as_ref().map(|c| &c.tok) { "v1" } else { "later" }, x.range.0, x.range.1, show_data(&x.data)),
                Err(e) => e.clone(),
            };
            // which commit was served, and what does the reference say about it?
            let served_failing = match &got {
                Ok(g) => commits.iter().zip(accept.iter()).any(|(c, a)| c.as_ref().is_some_and(|c| c.tok == g.tok) && a.is_err()),
                Err(_) => false,
            };
            out.failures.push(ConcFailure {
                key: if served_failing { "cond-read-served-commit-that-fails-its-precondition".into() } else { "cond-read-unexpected-answer".into() },
                what: format!("schedule {sched}: `{}` answered something the reference answers for no commit of the key{}", t.line(), if served_failing { " — it served a commit that does not satisfy the caller's preconditions" } else { "" }),
                expected: format!("one of [{}]", accept.iter().map(show).collect::<Vec<_>>().join(" | ")),
                observed: show(&got),
            });
        }
    }
    // 2. every acknowledged commit readable after a cold restart; untouched keys unchanged
    if let (Ok(before), Ok(after)) = (&before, &view_of(fl, &backend, all_keys).await) {
        let mut written: BTreeMap<String, Vec<Option<String>>> = BTreeMap::new();
        for (i, t) in tasks.iter().enumerate() {
            let acked = matches!(results[i], Some(Ok(_)));
            for (k, eff) in t.effects() {
                let e = written.entry(k.clone()).or_default();
                if acked {
                    e.push(match eff {
                        Effect::Bytes(d) => Some(d),
                        Effect::CopyOf(src) => before.get(&src).cloned().flatten().map(|x| x.1),
                        Effect::Absent => None,
                    });
                }
            }
        }
        for k in all_keys {
            let now = after.get(k).cloned().flatten();
            match written.get(k) {
                None => {
                    if after.get(k) != before.get(k) {
                        out.failures.push(ConcFailure { key: "gc-race-untouched-changed".into(), what: format!("schedule {sched}: key {k}, which no task writes, reads differently after the run"), expected: format!("{:?}", before.get(k)), observed: format!("{:?}", after.get(k)) });
                    }
                }
                Some(vals) if !vals.is_empty() => {
                    let got = now.as_ref().map(|x| x.1.clone());
                    if !vals.contains(&got) {
                        out.failures.push(ConcFailure {
                            key: "gc-race-lost-commit".into(),
                            what: format!("schedule {sched}: key {k} does not read the value of any acknowledged call that wrote it"),
                            expected: format!("one of {vals:?}"),
                            observed: format!("{got:?}"),
                        });
                    }
                }
                Some(_) => {} // only failed calls targeted the key: before- or a failed call's value; readability is checked above
            }
        }
    } else if let Err(e) = view_of(fl, &backend, all_keys).await {
        out.failures.push(ConcFailure { key: "gc-race-unreadable".into(), what: format!("schedule {sched}: a key with a commit point cannot be read after the run: {e}"), expected: "every key readable or absent".into(), observed: e });
    }
    out
}

fn preemptions(choices: &[usize], enabled_at: &[Vec<usize>]) -> usize {
    let mut n = 0;
    for p in 1..choices.len() {
        if choices[p] != choices[p - 1] && enabled_at.get(p).is_some_and(|e| e.contains(&choices[p - 1])) {
            n += 1;
        }
    }
    n
}

/// Depth-first enumeration of the schedules of `tasks` over forks of `base` with at most `bound`
/// pre-emptions, at most `cap` schedules. Calls `visit(chosen schedule, outcome)` for each.
pub fn explore(
    rt: &tokio::runtime::Runtime,
    fl: Flavor,
    base: &InMemory,
    tasks: &[TaskSpec],
    all_keys: &[String],
    bound: usize,
    cap: usize,
    mut visit: impl FnMut(&ConcOut),
) -> (usize, bool) {
    let mut stack: Vec<Vec<usize>> = vec![vec![]];
    let mut count = 0;
    while let Some(prefix) = stack.pop() {
        if count >= cap {
            return (count, true);
        }
        let out = rt.block_on(run(fl, base.fork(), tasks, &prefix, all_keys));
        count += 1;
        for j in (prefix.len()..out.chosen.len()).rev() {
            for alt in &out.enabled_at[j] {
                if *alt != out.chosen[j] {
                    let mut np = out.chosen[..j].to_vec();
                    np.push(*alt);
                    if preemptions(&np, &out.enabled_at) <= bound {
                        stack.push(np);
                    }
                }
            }
        }
        visit(&out);
    }
    (count, false)
}
