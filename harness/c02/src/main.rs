//! C02 — every index answers exactly from the stored documents.
//!
//! Case = a history over one collection with the fixed schema of `engine.rs` (unique scalar,
//! unique optional text, unique array, plain scalar, optional i64, array, map-keyed, two texts, a
//! vector): index creation (with backfill) / removal through close + open, add / update / remove
//! with rejected operations mixed in (unique conflicts on the 1st/2nd/3rd index, schema violations,
//! unknown fields, missing ids, a vector of the wrong dimension failing in the third index family).
//! After every operation the whole observable state is dumped (ids, len, every document, every
//! B-tree key → ids relation through two read paths plus the public Eq / Ge filters, BM25 postings per
//! vocabulary term, HNSW count and search) and
//!   * compared with the Lean model's dump (`drv_c02`): correspondence;
//!   * compared with the indexes recomputed from the fetched documents, both directions (holes and
//!     phantoms): independent oracle.
mod engine;
use engine::*;
use vh_common::serde_json::json;
use vh_common::*;

fn main() {
    let args = Args::parse();
    let mut rep = Report::new(
        "C02",
        &args,
        "case = generated history (10..28 data ops + index create/remove/reopen groups) over the fixed 10-field schema with up to 9 B-tree, \
         2 BM25 and 1 HNSW index; distinct = distinct op list; non-trivial = at least one accepted add and a non-empty index relation at the end",
    );
    let rt = tokio::runtime::Builder::new_current_thread().enable_all().build().unwrap();
    let mut model = ModelProc::from_args(&args);
    let mut cases: Vec<(String, Vec<String>)> = vec![];
    if let Some(p) = &args.replay {
        cases.push(("replay".into(), read_replay(p)));
    } else {
        if let Some(dir) = &args.corpus { cases.extend(read_corpus(dir)); }
        let n = args.budget(2500, 24000);
        for i in 0..n {
            let mut r = Rng::for_case(args.seed, i);
            // thorough: every fourth history is long (40..90 data ops)
            let n_ops = if args.thorough() && i % 4 == 0 { 40 + r.usize(51) } else { 10 + r.usize(19) };
            let g = GenCfg { universe: *r.pick(&[2, 3, 5, 9]), n_ops, malformed: 6, handover: 15, crash_creates: true };
            cases.push((format!("gen{i}"), gen_case(&mut r, &g)));
        }
    }
    let mut reported = 0;
    for (name, ops) in &cases {
        if check_case(&rt, name, ops, &mut model, &mut rep, args.replay.is_none() && reported < 3) { reported += 1; }
        if rep.samples.len() < 3 { rep.sample(json!({"case": name, "ops": ops.iter().take(40).collect::<Vec<_>>()})); }
    }
    rep.write(&args);
}
