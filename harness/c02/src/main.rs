//! Harness for property C02 (stub: not built yet).
fn main() {
    let a = vh_common::Args::parse();
    let r = vh_common::Report::new("C02", &a, "stub");
    r.write(&a);
}
