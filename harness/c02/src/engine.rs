//! Shared engine of the C02 / C04 harnesses: the fixed schema and index catalogue, the line
//! protocol (the same lines are read by the Lean driver `drv_c02` / `drv_c04`), the runner that
//! executes a case on a real in-process `anda_db` collection, the canonical dump of everything the
//! collection lets a caller observe, and the independent oracle (documents → expected indexes).
#![allow(dead_code)]
use anda_db::{
    collection::{Collection, CollectionConfig},
    database::{AndaDB, DBConfig},
    error::DBError,
    index::{HnswConfig, virtual_field_value},
    query::{Filter, RangeQuery},
    schema::{AndaDBSchema, Document, FieldKey, Fv, Vector, bf16},
    storage::StorageConfig,
};
use anda_object_store::{FaultHandle, FaultStore};
use object_store::memory::InMemory;
use serde::{Deserialize, Serialize};
use std::collections::{BTreeMap, BTreeSet, HashMap};
use std::sync::Arc;
use vh_common::*;

#[derive(Debug, Clone, Serialize, Deserialize, AndaDBSchema)]
pub struct Doc {
    pub _id: u64,
    #[unique]
    pub u: u64,
    #[unique]
    pub e: Option<String>,
    #[unique]
    pub ut: Vec<u64>,
    pub a: u64,
    pub b: Option<i64>,
    pub tags: Vec<u64>,
    pub m: BTreeMap<String, u64>,
    pub txt: String,
    pub note: Option<String>,
    pub v: Vector,
}

pub const WORDS: [&str; 6] = ["alpha", "beta", "gamma", "delta", "omega", "sigma"];

#[derive(Clone, Copy, Debug, PartialEq)]
pub enum Ty { U64, OptKeyText, ArrU64, OptI64, MapText, Body, OptBody, Vector }

pub struct FieldSpec { pub num: usize, pub name: &'static str, pub spec: &'static str, pub ty: Ty }

pub const FIELDS: [FieldSpec; 10] = [
    FieldSpec { num: 1, name: "u", spec: "iu", ty: Ty::U64 },
    FieldSpec { num: 2, name: "e", spec: "iou", ty: Ty::OptKeyText },
    FieldSpec { num: 3, name: "ut", spec: "au", ty: Ty::ArrU64 },
    FieldSpec { num: 4, name: "a", spec: "i", ty: Ty::U64 },
    FieldSpec { num: 5, name: "b", spec: "io", ty: Ty::OptI64 },
    FieldSpec { num: 6, name: "tags", spec: "a", ty: Ty::ArrU64 },
    FieldSpec { num: 7, name: "m", spec: "m", ty: Ty::MapText },
    FieldSpec { num: 8, name: "txt", spec: "t", ty: Ty::Body },
    FieldSpec { num: 9, name: "note", spec: "to", ty: Ty::OptBody },
    FieldSpec { num: 10, name: "v", spec: "v", ty: Ty::Vector },
];

pub fn field(num: usize) -> Option<&'static FieldSpec> { FIELDS.iter().find(|f| f.num == num) }
pub fn field_name(num: usize) -> &'static str { field(num).map(|f| f.name).unwrap_or("zzz") }

/// B-tree index catalogue (name, fields); protocol name = rank of the name in string order.
pub const BT: [(&str, &[usize]); 9] = [
    ("u", &[1]), ("e", &[2]), ("ut", &[3]), ("a", &[4]), ("b", &[5]), ("tags", &[6]), ("m", &[7]),
    ("a-b", &[4, 5]), ("b-tags", &[5, 6]),
];
pub const TX: [&[usize]; 2] = [&[8], &[8, 9]];
pub const HN_FIELD: usize = 10;
pub const HN_DIM: usize = 4;

pub fn bt_rank(name: &str) -> usize {
    let mut names: Vec<&str> = BT.iter().map(|b| b.0).collect();
    names.sort();
    names.iter().position(|n| *n == name).unwrap()
}
pub fn bt_by_rank(rank: usize) -> Option<(&'static str, &'static [usize])> { BT.iter().copied().find(|b| bt_rank(b.0) == rank) }

pub fn schema_line() -> String {
    format!("schema {}", join(FIELDS.iter().map(|f| format!("{}:{}", f.num, f.spec)), " "))
}

// ------------------------------------------------------------------------------------------
// abstract values (the `val` grammar of the line protocol)
// ------------------------------------------------------------------------------------------

#[derive(Clone, Debug, PartialEq, Eq, PartialOrd, Ord)]
pub enum Val { Null, Int(i64), Arr(Vec<i64>), Map(Vec<i64>), Text(Vec<usize>), Vec(usize), Odd(String) }

fn csv<T: std::fmt::Display>(xs: &[T]) -> String { if xs.is_empty() { "-".into() } else { join(xs, ",") } }
fn parse_csv<T: std::str::FromStr>(s: &str) -> Option<Vec<T>> {
    if s == "-" || s.is_empty() { return Some(vec![]); }
    s.split(',').map(|x| x.parse().ok()).collect()
}

impl Val {
    pub fn show(&self) -> String {
        match self {
            Val::Null => "~".into(),
            Val::Int(k) => format!("i{k}"),
            Val::Arr(ks) => format!("a{}", csv(ks)),
            Val::Map(ks) => format!("m{}", csv(ks)),
            Val::Text(ws) => format!("t{}", csv(ws)),
            Val::Vec(n) => format!("v{n}"),
            Val::Odd(s) => format!("?{s}"),
        }
    }
    pub fn parse(s: &str) -> Option<Val> {
        if s == "~" { return Some(Val::Null); }
        let (h, r) = s.split_at(1);
        Some(match h {
            "i" => Val::Int(r.parse().ok()?),
            "a" => Val::Arr(parse_csv(r)?),
            "m" => Val::Map(parse_csv(r)?),
            "t" => Val::Text(parse_csv(r)?),
            "v" => Val::Vec(r.parse().ok()?),
            _ => return None,
        })
    }
    fn kind_ok(&self, ty: Ty) -> bool {
        matches!(
            (self, ty),
            (Val::Null, Ty::OptKeyText | Ty::OptI64 | Ty::OptBody)
                | (Val::Int(_), Ty::U64 | Ty::OptKeyText | Ty::OptI64)
                | (Val::Arr(_), Ty::ArrU64)
                | (Val::Map(_), Ty::MapText)
                | (Val::Text(_), Ty::Body | Ty::OptBody)
                | (Val::Vec(_), Ty::Vector)
        ) && !matches!((self, ty), (Val::Int(k), Ty::U64) if *k < 0)
    }
}

pub fn vector_of(dim: usize) -> Vector { (0..dim).map(|i| bf16::from_f32(0.25 * (i + 1) as f32)).collect() }
pub fn body_of(ws: &[usize]) -> String { ws.iter().map(|w| WORDS[*w % WORDS.len()]).collect::<Vec<_>>().join(" ") }

/// the `Fv` a caller would pass for this abstract value on this field (also used for ill-typed values)
pub fn to_fv(ty: Option<Ty>, v: &Val) -> Fv {
    match v {
        Val::Null => Fv::Null,
        Val::Int(k) => match ty {
            Some(Ty::OptKeyText) => Fv::Text(format!("k{k}")),
            Some(Ty::OptI64) => Fv::I64(*k),
            _ => if *k >= 0 { Fv::U64(*k as u64) } else { Fv::I64(*k) },
        },
        Val::Arr(ks) => Fv::Array(ks.iter().map(|k| Fv::U64(*k as u64)).collect()),
        Val::Map(ks) => Fv::Map(ks.iter().map(|k| (FieldKey::Text(format!("k{k}")), Fv::U64(1))).collect()),
        Val::Text(ws) => Fv::Text(body_of(ws)),
        Val::Vec(n) => Fv::Vector(vector_of(*n)),
        Val::Odd(s) => Fv::Text(s.clone()),
    }
}

fn key_num(s: &str) -> Option<i64> { s.strip_prefix('k')?.parse().ok() }

/// abstract reading of a stored field value
pub fn from_fv(ty: Ty, fv: Option<&Fv>) -> Val {
    match (ty, fv) {
        (_, None) | (_, Some(Fv::Null)) => Val::Null,
        (Ty::U64 | Ty::OptI64, Some(Fv::U64(n))) => Val::Int(*n as i64),
        (Ty::U64 | Ty::OptI64, Some(Fv::I64(n))) => Val::Int(*n),
        (Ty::OptKeyText, Some(Fv::Text(s))) => key_num(s).map(Val::Int).unwrap_or_else(|| Val::Odd(s.clone())),
        (Ty::ArrU64, Some(Fv::Array(xs))) => {
            let mut out = vec![];
            for x in xs {
                match x { Fv::U64(n) => out.push(*n as i64), Fv::I64(n) => out.push(*n), o => return Val::Odd(format!("{o:?}")) }
            }
            Val::Arr(out)
        }
        (Ty::MapText, Some(Fv::Map(m))) => {
            let mut out = vec![];
            for k in m.keys() {
                match k { FieldKey::Text(s) => match key_num(s) { Some(n) => out.push(n), None => return Val::Odd(s.clone()) }, o => return Val::Odd(format!("{o:?}")) }
            }
            Val::Map(out)
        }
        (Ty::Body | Ty::OptBody, Some(Fv::Text(s))) => {
            let mut out = vec![];
            for w in s.split_whitespace() {
                match WORDS.iter().position(|x| *x == w) { Some(i) => out.push(i), None => return Val::Odd(s.clone()) }
            }
            Val::Text(out)
        }
        (Ty::Vector, Some(Fv::Vector(v))) => Val::Vec(v.len()),
        (Ty::Vector, Some(Fv::Array(v))) => Val::Vec(v.len()),
        (_, Some(o)) => Val::Odd(format!("{o:?}").replace(' ', "")),
    }
}

pub type ADoc = BTreeMap<usize, Val>;

pub fn get(d: &ADoc, f: usize) -> Val { d.get(&f).cloned().unwrap_or(Val::Null) }

pub fn show_doc(d: &ADoc) -> String { join(FIELDS.iter().map(|f| format!("{}={}", f.num, get(d, f.num).show())), ";") }

pub fn parse_fvs(toks: &[&str]) -> Option<Vec<(usize, Val)>> {
    toks.iter().map(|t| { let (f, v) = t.split_once('=')?; Some((f.parse().ok()?, Val::parse(v)?)) }).collect()
}

// ------------------------------------------------------------------------------------------
// oracle side: documents → expected index content (independent of the Lean model)
// ------------------------------------------------------------------------------------------

/// key text as printed in a dump
pub fn tuple_text(d: &ADoc, fields: &[usize]) -> String { format!("({})", join(fields.iter().map(|f| get(d, *f).show()), ";")) }

/// keys of one document under one B-tree index (default hooks): printed key texts
pub fn keys_of(d: &ADoc, fields: &[usize]) -> Vec<String> {
    if fields.len() == 1 {
        match get(d, fields[0]) {
            Val::Int(k) => vec![k.to_string()],
            Val::Arr(ks) | Val::Map(ks) => ks.iter().map(|k| k.to_string()).collect(),
            _ => vec![],
        }
    } else {
        vec![tuple_text(d, fields)]
    }
}

pub fn tokens_of(d: &ADoc, fields: &[usize]) -> BTreeSet<usize> {
    let mut out = BTreeSet::new();
    for f in fields { if let Val::Text(ws) = get(d, *f) { out.extend(ws); } }
    out
}

/// the bytes key of a multi-field index for this document, computed from the abstract values
pub fn composite_bytes(d: &ADoc, fields: &[usize]) -> Vec<u8> {
    let fvs: Vec<Fv> = fields.iter().map(|f| to_fv(field(*f).map(|s| s.ty), &get(d, *f))).collect();
    let refs: Vec<Option<&Fv>> = fvs.iter().map(Some).collect();
    match virtual_field_value(&refs) { Some(Fv::Bytes(b)) => b, _ => vec![] }
}

pub type RelMap = BTreeMap<String, BTreeSet<u64>>;

fn show_rel(m: &RelMap) -> String {
    let mut rows: Vec<String> = m.iter().filter(|(_, ids)| !ids.is_empty()).map(|(k, ids)| format!("{k}>{}", join(ids, ","))).collect();
    rows.sort();
    rows.join(" ")
}

// ------------------------------------------------------------------------------------------
// the real collection
// ------------------------------------------------------------------------------------------

pub fn err_name(e: &DBError) -> String {
    match e {
        DBError::Schema { .. } => "err:invalid".into(),
        DBError::AlreadyExists { .. } => "err:exists".into(),
        DBError::NotFound { .. } => "err:notfound".into(),
        DBError::Index { .. } => "err:index".into(),
        // a handle that is not active (poisoned, closing, …) answers with a typed state error
        DBError::Generic { .. } if e.collection_state().is_some() => "err:state".into(),
        DBError::Generic { .. } => "err:generic".into(),
        other => format!("err:other({})", format!("{other:?}").chars().take(80).collect::<String>().replace([' ', '\n'], "_")),
    }
}

#[derive(Default, Clone)]
pub struct Observed {
    pub dump: String,
    pub docs: BTreeMap<u64, ADoc>,
    /// problems seen while observing (read paths that contradict each other or the documents)
    pub complaints: Vec<(String, String, String, String)>, // key, what, expected, observed
}

fn key_text(fv: &Fv, dict: &HashMap<Vec<u8>, String>) -> String {
    match fv {
        Fv::U64(n) => n.to_string(),
        Fv::I64(n) => n.to_string(),
        Fv::Text(s) => key_num(s).map(|n| n.to_string()).unwrap_or_else(|| format!("?{s}")),
        Fv::Bytes(b) => dict.get(b).cloned().unwrap_or_else(|| format!("#{}", hex(b))),
        o => format!("?{o:?}"),
    }
}

fn names_of(fields: &[usize]) -> Vec<&'static str> { fields.iter().map(|f| field_name(*f)).collect() }

/// Everything observable, in the canonical text the Lean driver prints for `dump`.
pub async fn observe(c: &Collection, dict: &mut HashMap<Vec<u8>, String>, probe_ids_upto: u64) -> Observed {
    let mut o = Observed::default();
    let ids = c.ids();
    // documents
    for id in &ids {
        match c.get(*id).await {
            Ok(doc) => {
                let mut d = ADoc::new();
                for f in FIELDS.iter() { d.insert(f.num, from_fv(f.ty, doc.get_field(f.name))); }
                if doc.id() != *id { o.complaints.push(("get:wrong-id".into(), format!("get({id}) returned a document with another id"), id.to_string(), doc.id().to_string())); }
                o.docs.insert(*id, d);
            }
            Err(e) => o.complaints.push(("ids:unfetchable".into(), format!("id {id} is reported by ids() but get fails"), "a document".into(), err_name(&e))),
        }
    }
    for id in 1..=probe_ids_upto {
        if !ids.contains(&id) {
            if c.get(id).await.is_ok() { o.complaints.push(("ids:fetchable-but-unlisted".into(), format!("get({id}) succeeds but ids() does not list it"), "not found".into(), "a document".into())); }
            if c.contains(id) { o.complaints.push(("ids:contains-mismatch".into(), format!("contains({id}) but ids() does not list it"), "false".into(), "true".into())); }
        }
    }
    if c.len() != ids.len() { o.complaints.push(("len:mismatch".into(), "len() differs from ids().len()".into(), ids.len().to_string(), c.len().to_string())); }
    for d in o.docs.values() {
        for (_, fields) in BT.iter().filter(|b| b.1.len() > 1) { dict.insert(composite_bytes(d, fields), tuple_text(d, fields)); }
    }
    let mut parts: Vec<String> = vec![];
    let mut bts = vec![];
    for (name, fields) in BT.iter() {
        let names = names_of(fields);
        let Ok(view) = c.get_btree_index(&names) else { continue };
        // read path 1: ordered walk of the whole key space
        let walked: Vec<(Fv, Vec<u64>)> = view.range_query_with(RangeQuery::Not(Box::new(RangeQuery::Include(vec![]))), |k, ids| (true, vec![(k, ids.clone())]));
        let mut rel = RelMap::new();
        let mut key_fv: BTreeMap<String, Fv> = BTreeMap::new();
        for (k, ids) in &walked {
            let t = key_text(k, dict);
            rel.entry(t.clone()).or_default().extend(ids.iter().copied());
            key_fv.insert(t, k.clone());
        }
        // read path 2: key listing + point lookups
        let mut rel2 = RelMap::new();
        for k in view.keys(None, None) {
            let ids = view.query_with(&k, |ids| Some(ids.clone())).unwrap_or_default();
            rel2.entry(key_text(&k, dict)).or_default().extend(ids);
        }
        rel2.retain(|_, v| !v.is_empty());
        let mut rel1 = rel.clone();
        rel1.retain(|_, v| !v.is_empty());
        if rel1 != rel2 { o.complaints.push((format!("bt:{name}:read-paths-differ"), format!("index {name}: range walk and keys()+query_with disagree"), show_rel(&rel1), show_rel(&rel2))); }
        // expected from the fetched documents (both directions)
        let mut exp = RelMap::new();
        for (id, d) in &o.docs {
            for k in keys_of(d, fields) { exp.entry(k).or_default().insert(*id); }
            if fields.len() > 1 { key_fv.entry(tuple_text(d, fields)).or_insert_with(|| Fv::Bytes(composite_bytes(d, fields))); }
        }
        if exp != rel1 {
            let phantom = rel1.iter().any(|(k, ids)| ids.iter().any(|i| !exp.get(k).is_some_and(|e| e.contains(i))));
            let kind = if phantom { "phantom" } else { "hole" };
            o.complaints.push((format!("bt:{name}:{kind}"), format!("B-tree index {name} differs from the one recomputed from the stored documents ({kind})"), show_rel(&exp), show_rel(&rel1)));
        }
        let unique = !view.allow_duplicates();
        if unique {
            for (k, ids) in &rel1 {
                if ids.len() > 1 { o.complaints.push((format!("unique:{name}:shared-value"), format!("unique index {name}: value {k} is owned by several documents"), "one owner".into(), join(ids, ","))); }
            }
        }
        // the public filter path: Eq per distinct key (stored or expected) and one range
        let mut probe: BTreeSet<String> = rel1.keys().cloned().collect();
        probe.extend(exp.keys().cloned());
        for k in &probe {
            let fv = match key_fv.get(k) {
                Some(fv) => fv.clone(),
                None => match fields {
                    [f] => to_fv(field(*f).map(|s| s.ty).map(|t| if t == Ty::MapText { Ty::OptKeyText } else { t }), &Val::Int(k.parse().unwrap_or(0))),
                    _ => continue,
                },
            };
            let want: Vec<u64> = exp.get(k).map(|s| s.iter().copied().collect()).unwrap_or_default();
            match c.query_all_ids(Filter::Field((name.to_string(), RangeQuery::Eq(fv)))).await {
                Ok(got) if got == want => {}
                Ok(got) => o.complaints.push((format!("filter:eq:{name}"), format!("Eq filter on {name} = {k} is not the set of live documents holding that value"), csv(&want), csv(&got))),
                Err(e) => o.complaints.push((format!("filter:eq:{name}"), format!("Eq filter on {name} = {k} failed"), csv(&want), err_name(&e))),
            }
        }
        if fields.len() == 1 && !exp.is_empty() {
            let mut nums: Vec<i64> = exp.keys().filter_map(|k| k.parse().ok()).collect();
            nums.sort();
            let pivot = nums[nums.len() / 2];
            let ty = field(fields[0]).map(|s| s.ty).map(|t| if t == Ty::MapText { Ty::OptKeyText } else { t });
            let mut want: BTreeSet<u64> = BTreeSet::new();
            for (k, ids) in &exp { if k.parse::<i64>().is_ok_and(|n| n >= pivot) { want.extend(ids); } }
            let want: Vec<u64> = want.into_iter().collect();
            match c.query_all_ids(Filter::Field((name.to_string(), RangeQuery::Ge(to_fv(ty, &Val::Int(pivot)))))).await {
                Ok(got) if got == want => {}
                Ok(got) => o.complaints.push((format!("filter:ge:{name}"), format!("Ge filter on {name} >= {pivot} is not the set of live documents with such a value"), csv(&want), csv(&got))),
                Err(e) => o.complaints.push((format!("filter:ge:{name}"), format!("Ge filter on {name} >= {pivot} failed"), csv(&want), err_name(&e))),
            }
        }
        bts.push(format!("bt{}[u{}]: {}", bt_rank(name), unique as u8, show_rel(&rel1)));
    }
    bts.sort();
    parts.extend(bts);
    let mut txs = vec![];
    for fields in TX.iter() {
        let names = names_of(fields);
        let Ok(view) = c.get_bm25_index(&names) else { continue };
        let mut rel = RelMap::new();
        for (w, word) in WORDS.iter().enumerate() {
            let hits: BTreeSet<u64> = view.search(word, 10_000, None).into_iter().map(|(id, _)| id).collect();
            if !hits.is_empty() { rel.insert(w.to_string(), hits); }
        }
        let mut exp = RelMap::new();
        let mut n_exp = 0u64;
        for (id, d) in &o.docs {
            let toks = tokens_of(d, fields);
            if !toks.is_empty() { n_exp += 1; }
            for w in toks { exp.entry(w.to_string()).or_default().insert(*id); }
        }
        let tag = csv(fields);
        if exp != rel {
            let phantom = rel.iter().any(|(k, ids)| ids.iter().any(|i| !exp.get(k).is_some_and(|e| e.contains(i))));
            let kind = if phantom { "phantom" } else { "hole" };
            o.complaints.push((format!("tx:{tag}:{kind}"), format!("BM25 index over fields {tag}: term postings differ from the documents' texts ({kind})"), show_rel(&exp), show_rel(&rel)));
        }
        let n = view.stats().num_elements;
        if n != n_exp { o.complaints.push((format!("tx:{tag}:count"), format!("BM25 index over fields {tag}: document count differs from the number of live documents with text"), n_exp.to_string(), n.to_string())); }
        txs.push(format!("tx{tag}[n{n}]: {}", show_rel(&rel)));
    }
    txs.sort();
    parts.extend(txs);
    if let Ok(view) = c.get_hnsw_index(field_name(HN_FIELD)) {
        let n = view.stats().num_elements;
        let q: Vec<f32> = (0..view.dimension()).map(|i| 0.25 * (i + 1) as f32).collect();
        let hits: BTreeSet<u64> = view.search(&q, ids.len() + 8).into_iter().map(|(id, _)| id).collect();
        let with_vec: BTreeSet<u64> = o.docs.iter().filter(|(_, d)| matches!(get(d, HN_FIELD), Val::Vec(_))).map(|(id, _)| *id).collect();
        if !hits.is_subset(&with_vec) { o.complaints.push(("hn:phantom".into(), "vector search returned an id that is not a live document carrying a vector".into(), csv(&with_vec.iter().collect::<Vec<_>>()), csv(&hits.iter().collect::<Vec<_>>()))); }
        if n != with_vec.len() as u64 { o.complaints.push(("hn:count".into(), "vector index does not hold exactly one entry per live document with a vector".into(), with_vec.len().to_string(), n.to_string())); }
        if hits != with_vec && hits.is_subset(&with_vec) { o.complaints.push(("hn:hole".into(), "vector search over the whole (tiny) collection misses a live document".into(), csv(&with_vec.iter().collect::<Vec<_>>()), csv(&hits.iter().collect::<Vec<_>>()))); }
        parts.push(format!("hn{HN_FIELD}[n{n}]: {}", csv(&hits.iter().collect::<Vec<_>>())));
    }
    let docs = join(o.docs.iter().map(|(id, d)| format!("{id}:{{{}}}", show_doc(d))), " ");
    o.dump = format!("ids={} len={} docs={} | {}", csv(&ids), c.len(), docs, parts.join(" | "));
    o
}


// ------------------------------------------------------------------------------------------
// range queries of the `q` lines (same grammar as the Lean driver, evaluated independently)
// ------------------------------------------------------------------------------------------

#[derive(Clone, Debug)]
pub enum Rq { Eq(i64), Gt(i64), Ge(i64), Lt(i64), Le(i64), Bw(i64, i64), In(Vec<i64>), Or(Vec<Rq>), And(Vec<Rq>), Not(Box<Rq>) }

impl Rq {
    fn leaf(t: &str) -> Option<Rq> {
        let p: Vec<&str> = t.split(':').collect();
        let n = |s: &str| s.parse::<i64>().ok();
        Some(match p.as_slice() {
            ["eq", a] => Rq::Eq(n(a)?), ["gt", a] => Rq::Gt(n(a)?), ["ge", a] => Rq::Ge(n(a)?),
            ["lt", a] => Rq::Lt(n(a)?), ["le", a] => Rq::Le(n(a)?),
            ["bw", a, b] => Rq::Bw(n(a)?, n(b)?),
            ["in", ks] => Rq::In(parse_csv::<i64>(ks)?),
            _ => return None,
        })
    }
    pub fn parse(t: &str) -> Option<Rq> {
        let inner = |pre: &str| t.strip_prefix(pre).and_then(|r| r.strip_suffix(')'));
        if let Some(b) = inner("or(") { return b.split('|').map(Rq::leaf).collect::<Option<Vec<_>>>().map(Rq::Or); }
        if let Some(b) = inner("and(") { return b.split('|').map(Rq::leaf).collect::<Option<Vec<_>>>().map(Rq::And); }
        if let Some(b) = inner("not(") { return Rq::leaf(b).map(|q| Rq::Not(Box::new(q))); }
        Rq::leaf(t)
    }
    /// what the documentation of `RangeQuery` says a key must satisfy
    pub fn accepts(&self, k: i64) -> bool {
        match self {
            Rq::Eq(a) => k == *a, Rq::Gt(a) => k > *a, Rq::Ge(a) => k >= *a, Rq::Lt(a) => k < *a, Rq::Le(a) => k <= *a,
            Rq::Bw(a, b) => *a <= k && k <= *b,
            Rq::In(ks) => ks.contains(&k),
            Rq::Or(qs) => qs.iter().any(|q| q.accepts(k)),
            Rq::And(qs) => !qs.is_empty() && qs.iter().all(|q| q.accepts(k)),
            Rq::Not(q) => !q.accepts(k),
        }
    }
    pub fn to_real(&self, ty: Option<Ty>) -> RangeQuery<Fv> {
        let v = |k: &i64| to_fv(ty, &Val::Int(*k));
        match self {
            Rq::Eq(a) => RangeQuery::Eq(v(a)), Rq::Gt(a) => RangeQuery::Gt(v(a)), Rq::Ge(a) => RangeQuery::Ge(v(a)),
            Rq::Lt(a) => RangeQuery::Lt(v(a)), Rq::Le(a) => RangeQuery::Le(v(a)),
            Rq::Bw(a, b) => RangeQuery::Between(v(a), v(b)),
            Rq::In(ks) => RangeQuery::Include(ks.iter().map(v).collect()),
            Rq::Or(qs) => RangeQuery::Or(qs.iter().map(|q| Box::new(q.to_real(ty))).collect()),
            Rq::And(qs) => RangeQuery::And(qs.iter().map(|q| Box::new(q.to_real(ty))).collect()),
            Rq::Not(q) => RangeQuery::Not(Box::new(q.to_real(ty))),
        }
    }
    pub fn shape(&self) -> &'static str {
        match self { Rq::Eq(_) => "eq", Rq::Gt(_) => "gt", Rq::Ge(_) => "ge", Rq::Lt(_) => "lt", Rq::Le(_) => "le", Rq::Bw(..) => "between", Rq::In(_) => "include", Rq::Or(_) => "or", Rq::And(_) => "and", Rq::Not(_) => "not" }
    }
}

/// key type of a single-field index as the filter API expects it
pub fn key_ty(fields: &[usize]) -> Option<Ty> {
    match fields { [f] => field(*f).map(|s| s.ty).map(|t| if t == Ty::MapText { Ty::OptKeyText } else { t }), _ => None }
}


// ------------------------------------------------------------------------------------------
// known finding F-C02-2: an index created in the callback of the open that follows a power loss is
// backfilled from the id set of the last flush; documents recovery registers afterwards and the new index
// refuses (unique conflict, wrong vector dimension) are skipped with a log line -> the index stays incomplete
// ------------------------------------------------------------------------------------------
pub const F_C02_2: &str = "after-crash:index-created-in-open-callback:incomplete";

fn parse_rel(s: &str) -> RelMap {
    let mut m = RelMap::new();
    for row in s.split(' ').filter(|r| !r.is_empty()) {
        if let Some((k, ids)) = row.rsplit_once('>') { m.insert(k.to_string(), ids.split(',').filter_map(|i| i.parse().ok()).collect()); }
    }
    m
}

/// `tainted`: indexes (B-tree name, or "hn") created in the callback of a post-crash open and still registered.
/// A complaint is the known finding only if it is a *hole* of such an index that a refusal explains: every
/// document with a missing posting has a missing key that another document owns in the index (unique
/// refusal; `insert_array` refuses all of a document's keys at once), resp. a vector of another dimension.
fn is_f_c02_2(key: &str, expected: &str, observed: &str, tainted: &HashMap<String, usize>, refused: &mut HashMap<String, BTreeSet<u64>>, docs: &BTreeMap<u64, ADoc>) -> bool {
    let parts: Vec<&str> = key.split(':').collect();
    (match parts.as_slice() {
        ["bt", name, "hole"] if tainted.contains_key(*name) => {
            let (exp, obs) = (parse_rel(expected), parse_rel(observed));
            let mut missing: BTreeMap<u64, Vec<String>> = BTreeMap::new();
            for (k, ids) in &exp { for id in ids { if !obs.get(k).is_some_and(|o| o.contains(id)) { missing.entry(*id).or_default().push(k.clone()); } } }
            // a document once refused by this index stays missing from it (also after the owner of the key is removed)
            let known = refused.entry(name.to_string()).or_default();
            let ok = !missing.is_empty() && missing.iter().all(|(id, ks)| known.contains(id) || ks.iter().any(|k| obs.get(k).is_some_and(|o| o.iter().any(|j| j != id))));
            if ok { known.extend(missing.keys().copied()); }
            ok
        }
        ["filter", _, name] if tainted.contains_key(*name) => {
            // the public path over the same incomplete index: it returns a subset of the expected ids
            let want: BTreeSet<&str> = expected.split(',').collect();
            observed.split(',').all(|i| i == "-" || want.contains(i))
        }
        ["hn", "count"] | ["hn", "hole"] => match tainted.get("hn") {
            Some(dim) => docs.values().any(|d| matches!(get(d, HN_FIELD), Val::Vec(n) if n != *dim)),
            None => false,
        },
        _ => false,
    }) || dropped_after_refusal(&parts, expected, observed, refused)
}

/// Second-order shape of the same finding: a document that an index created in a post-crash open callback
/// refuses is live but un-indexable there; when an intent replay later re-indexes it,
/// `insert_document_into_indexes` ends at that refusal and the document is missing from every LATER index too.
/// Accepted only when every document with a missing entry is one already known to be refused by such an index.
fn dropped_after_refusal(parts: &[&str], expected: &str, observed: &str, refused: &HashMap<String, BTreeSet<u64>>) -> bool {
    let known: BTreeSet<u64> = refused.values().flatten().copied().collect();
    if known.is_empty() { return false; }
    let ids = |s: &str| -> BTreeSet<u64> { s.split(',').filter_map(|i| i.parse().ok()).collect() };
    let missing: Option<BTreeSet<u64>> = match parts {
        ["bt", _, "hole"] | ["tx", _, "hole"] => {
            let (exp, obs) = (parse_rel(expected), parse_rel(observed));
            let mut m = BTreeSet::new();
            for (k, is) in &exp { for id in is { if !obs.get(k).is_some_and(|o| o.contains(id)) { m.insert(*id); } } }
            Some(m)
        }
        ["hn", "hole"] => Some(ids(expected).difference(&ids(observed)).copied().collect()),
        ["filter", _, _] if ids(observed).is_subset(&ids(expected)) => Some(ids(expected).difference(&ids(observed)).copied().collect()),
        ["tx", _, "count"] | ["hn", "count"] => {
            let (e, o) = (expected.parse::<u64>().unwrap_or(0), observed.parse::<u64>().unwrap_or(u64::MAX));
            return o < e && e - o <= known.len() as u64;
        }
        _ => None,
    };
    missing.is_some_and(|m| !m.is_empty() && m.is_subset(&known))
}

pub fn doc_from_line(fvs: &[(usize, Val)]) -> Option<Doc> {
    if fvs.len() != FIELDS.len() { return None; }
    let mut d = ADoc::new();
    for (f, v) in fvs {
        let spec = field(*f)?;
        if !v.kind_ok(spec.ty) || d.insert(*f, v.clone()).is_some() { return None; }
    }
    let int = |f| match get(&d, f) { Val::Int(k) => Some(k), _ => None };
    let arr = |f| match get(&d, f) { Val::Arr(k) => k.iter().map(|x| *x as u64).collect::<Vec<u64>>(), _ => vec![] };
    let body = |f| match get(&d, f) { Val::Text(ws) => Some(body_of(&ws)), _ => None };
    Some(Doc {
        _id: 0,
        u: int(1)? as u64,
        e: int(2).map(|k| format!("k{k}")),
        ut: arr(3),
        a: int(4)? as u64,
        b: int(5),
        tags: arr(6),
        m: match get(&d, 7) { Val::Map(ks) => ks.iter().map(|k| (format!("k{k}"), 1u64)).collect(), _ => return None },
        txt: body(8)?,
        note: body(9),
        v: match get(&d, 10) { Val::Vec(n) => vector_of(n), _ => return None },
    })
}

async fn exec_ix(c: &mut Collection, toks: &[&str]) -> String {
    let nums = |s: &str| parse_csv::<usize>(s).unwrap_or_default();
    let res = |r: Result<(), DBError>| match r { Ok(()) => "ok".to_string(), Err(e) => err_name(&e) };
    let rmd = |r: Result<bool, DBError>| match r { Ok(b) => format!("removed {}", b as u8), Err(e) => err_name(&e) };
    match toks {
        ["mkbt", rank, fields] => {
            let rank: usize = rank.parse().unwrap_or(99);
            let names: Vec<&str> = match bt_by_rank(rank) { Some((_, fs)) if fs == nums(fields).as_slice() => names_of(fs), _ => names_of(&nums(fields)) };
            res(c.create_btree_index(&names).await)
        }
        ["mktx", fields] => res(c.create_bm25_index(&names_of(&nums(fields))).await),
        ["mkhn", f, dim] => res(c.create_hnsw_index(field_name(f.parse().unwrap_or(99)), HnswConfig { dimension: dim.parse().unwrap_or(0), ..Default::default() }).await),
        ["rmbt", rank] => match bt_by_rank(rank.parse().unwrap_or(99)) { Some((_, fs)) => rmd(c.remove_btree_index(&names_of(fs)).await), None => "removed 0".into() },
        ["rmtx", fields] => rmd(c.remove_bm25_index(&names_of(&nums(fields))).await),
        ["rmhn", f] => rmd(c.remove_hnsw_index(field_name(f.parse().unwrap_or(99))).await),
        _ => "bad-op".into(),
    }
}

pub fn is_ix_op(line: &str) -> bool { matches!(line.split(' ').next(), Some("mkbt" | "mktx" | "mkhn" | "rmbt" | "rmtx" | "rmhn")) }
pub fn is_mutation(line: &str) -> bool { matches!(line.split(' ').next(), Some("add" | "upd" | "rm")) }

#[derive(Clone, Debug)]
pub struct StepRec { pub op: String, pub out: String, pub dump: String, pub tag: String }

pub struct CaseRun {
    pub steps: Vec<StepRec>,
    /// (index of the op after which it was seen, key, what, expected, observed)
    pub complaints: Vec<(usize, String, String, String, String)>,
}

fn db_config() -> DBConfig {
    DBConfig { name: "vh".into(), description: String::new(), storage: StorageConfig { compress_level: 0, ..Default::default() }, lock: None }
}

/// Runs one case (protocol lines, first line `schema …`) on a real collection.
pub async fn run_real(ops: &[String]) -> Result<CaseRun, String> {
    if ops.first().map(|s| s.as_str()) != Some(schema_line().as_str()) { return Err("case must start with the fixed schema line".into()); }
    // one backend for the whole case; every boot (process) reaches it through its own `FaultStore`, so a
    // power loss can cut the old process off: nothing it still tries to write (drop handlers, late tasks)
    // reaches the backend, which keeps exactly the writes that had completed
    let base: Arc<InMemory> = Arc::new(InMemory::new());
    let boot = |base: &Arc<InMemory>| -> (Arc<FaultStore<Arc<InMemory>>>, FaultHandle) { let (s, h) = FaultStore::wrap(base.clone()); (Arc::new(s), h) };
    let (store, mut power) = boot(&base);
    let mut db = AndaDB::connect(store, db_config()).await.map_err(|e| format!("connect: {e}"))?;
    let mut run = CaseRun { steps: vec![], complaints: vec![] };
    let mut dict: HashMap<Vec<u8>, String> = HashMap::new();
    let mut coll: Option<Arc<Collection>> = None;
    let mut max_seen: u64 = 0;
    let mut last: Option<Observed> = None;
    // indexes created in the callback of a post-crash open (name -> 0, "hn" -> dimension), while registered
    let mut tainted: HashMap<String, usize> = HashMap::new();
    let mut refused: HashMap<String, BTreeSet<u64>> = HashMap::new();
    let mut i = 0usize;
    while i < ops.len() {
        let line = &ops[i];
        let toks: Vec<&str> = line.split(' ').filter(|s| !s.is_empty()).collect();
        match toks.as_slice() {
            ["schema", ..] | ["reopen"] | ["crash"] => {
                let crashed = toks[0] == "crash";
                let before_reopen = if toks[0] == "reopen" { last.as_ref().map(|o| o.dump.clone()) } else { None };
                // the group: this line plus the index operations that follow it run inside the open callback
                let mut j = i + 1;
                while j < ops.len() && is_ix_op(&ops[j]) { j += 1; }
                let group: Vec<String> = ops[i..j].to_vec();
                let mut recs: Vec<(StepRec, Observed)> = vec![];
                let probe = max_seen + 1;
                let cb = async |c: &mut Collection| -> Result<(), DBError> {
                    for (n, g) in group.iter().enumerate() {
                        let out = if n == 0 { "ok".to_string() } else { exec_ix(c, &g.split(' ').collect::<Vec<_>>()).await };
                        let obs = observe(c, &mut dict, probe).await;
                        recs.push((StepRec { op: g.clone(), out, dump: obs.dump.clone(), tag: String::new() }, obs));
                    }
                    Ok(())
                };
                let c = if toks[0] == "schema" {
                    db.open_or_create_collection(Doc::schema().map_err(|e| format!("schema: {e}"))?, CollectionConfig { name: "c".into(), description: String::new() }, cb).await
                } else if crashed {
                    // power loss: the old process is cut off from the backend and dropped without close;
                    // a new process connects to what the backend holds and opens the collection (recovery)
                    power.crash_after_mutations(0);
                    drop(coll.take());
                    drop(db);
                    let (store, h) = boot(&base);
                    power = h;
                    db = AndaDB::connect(store, db_config()).await.map_err(|e| format!("connect after crash: {e}"))?;
                    db.open_collection("c".into(), cb).await
                } else {
                    drop(coll.take());
                    db.close_collection("c").await.map_err(|e| format!("close: {e}"))?;
                    db.open_collection("c".into(), cb).await
                }
                .map_err(|e| format!("open: {e}"))?;
                let last_dump = recs.last().map(|r| r.0.dump.clone()).unwrap_or_default();
                for (rec, _) in &recs {
                    let t: Vec<&str> = rec.op.split(' ').collect();
                    match t.as_slice() {
                        ["mkbt", rank, _] if crashed && rec.out == "ok" => { if let Some((name, _)) = bt_by_rank(rank.parse().unwrap_or(99)) { tainted.insert(name.to_string(), 0); } }
                        ["mkhn", _, dim] if crashed && rec.out == "ok" => { tainted.insert("hn".into(), dim.parse().unwrap_or(0)); }
                        ["rmbt", rank] if rec.out == "removed 1" => { if let Some((name, _)) = bt_by_rank(rank.parse().unwrap_or(99)) { tainted.remove(name); refused.remove(name); } }
                        ["rmhn", _] if rec.out == "removed 1" => { tainted.remove("hn"); }
                        _ => {}
                    }
                }
                for (n, (mut rec, obs)) in recs.into_iter().enumerate() {
                    // inside the open callback after a crash the collection is loaded but not yet recovered:
                    // neither compared nor judged (recovery runs after the callback)
                    if crashed { rec.dump = "unrecovered".into(); } else { for (k, w, e, o) in obs.complaints { let k = if is_f_c02_2(&k, &e, &o, &tainted, &mut refused, &obs.docs) { F_C02_2.to_string() } else { k }; run.complaints.push((i + n, k, w, e, o)); } }
                    run.steps.push(rec);
                }
                let after = observe(&c, &mut dict, probe).await;
                if crashed { for (k, w, e, o) in after.complaints.clone() { let k = if is_f_c02_2(&k, &e, &o, &tainted, &mut refused, &after.docs) { F_C02_2.to_string() } else { format!("after-crash:{k}") }; run.complaints.push((j - 1, k, format!("after crash recovery: {w}"), e, o)); } }
                if let Some(b) = &before_reopen && j == i + 1 && *b != after.dump {
                    run.complaints.push((i, "reopen:changed-state".into(), "a clean close + open changed what the collection shows".into(), b.clone(), after.dump.clone()));
                }
                if !crashed && after.dump != last_dump {
                    run.complaints.push((j - 1, "open:post-processing-changed-state".into(), "the collection differs between the end of the open callback and the returned handle".into(), last_dump, after.dump.clone()));
                }
                last = Some(after);
                coll = Some(c);
                i = j;
                continue;
            }
            _ => {}
        }
        let Some(c) = coll.as_ref() else { return Err("no collection".into()) };
        let before = if is_mutation(line) { last.take() } else { None };
        let out = match toks.as_slice() {
            ["add", rest @ ..] => {
                let fvs = parse_fvs(rest).ok_or("bad add")?;
                // remember the composite keys this document would produce
                let ad: ADoc = fvs.iter().cloned().collect();
                for (_, fields) in BT.iter().filter(|b| b.1.len() > 1) { dict.insert(composite_bytes(&ad, fields), tuple_text(&ad, fields)); }
                let r = match doc_from_line(&fvs) {
                    Some(d) => c.add_from(&d).await,
                    None => {
                        let mut doc: Document = c.new_document();
                        doc.set_id(0);
                        let mut bad = None;
                        for (f, v) in &fvs {
                            if let Err(e) = doc.set_field(field_name(*f), to_fv(field(*f).map(|s| s.ty), v)) { bad = Some(DBError::from(e)); break; }
                        }
                        match bad { Some(e) => Err(e), None => c.add(doc).await }
                    }
                };
                match r { Ok(id) => { max_seen = max_seen.max(id); format!("id {id}") } Err(e) => { max_seen += 1; err_name(&e) } }
            }
            ["upd", id, rest @ ..] => {
                let id: u64 = id.parse().map_err(|_| "bad upd")?;
                let fvs = parse_fvs(rest).ok_or("bad upd")?;
                if let Some(old) = before.as_ref().and_then(|b| b.docs.get(&id)) {
                    let mut nd = old.clone();
                    for (f, v) in &fvs { nd.insert(*f, v.clone()); }
                    for (_, fields) in BT.iter().filter(|b| b.1.len() > 1) { dict.insert(composite_bytes(&nd, fields), tuple_text(&nd, fields)); }
                }
                let fields: BTreeMap<String, Fv> = fvs.iter().map(|(f, v)| (field_name(*f).to_string(), to_fv(field(*f).map(|s| s.ty), v))).collect();
                match c.update(id, fields).await { Ok(_) => "ok".into(), Err(e) => err_name(&e) }
            }
            ["flush"] => match c.flush(anda_db::unix_ms()).await { Ok(_) => "ok".into(), Err(e) => err_name(&e) },
            ["check"] => "ok".into(),
            ["rm", id] => {
                let id: u64 = id.parse().map_err(|_| "bad rm")?;
                match c.remove(id).await { Ok(Some(_)) => "removed 1".into(), Ok(None) => "absent".into(), Err(e) => err_name(&e) }
            }
            ["q", rank, rq] => {
                let q = Rq::parse(rq).ok_or("bad q")?;
                let (name, fields): (&str, &[usize]) = bt_by_rank(rank.parse().unwrap_or(99)).unwrap_or(("zzz", &[]));
                match c.query_all_ids(Filter::Field((name.to_string(), q.to_real(key_ty(fields))))).await {
                    Ok(ids) => format!("ids {}", csv(&ids)),
                    Err(e) => err_name(&e),
                }
            }
            _ => return Err(format!("bad op: {line}")),
        };
        let obs = observe(c, &mut dict, max_seen + 1).await;
        if let ["q", rank, rq] = toks.as_slice() && let Some(ids) = out.strip_prefix("ids ") && let Some((name, fields)) = bt_by_rank(rank.parse().unwrap_or(99)) && fields.len() == 1 {
            // oracle: the live documents with a stored key the query accepts, recomputed from the fetched documents
            let q = Rq::parse(rq).ok_or("bad q")?;
            let want: Vec<u64> = obs.docs.iter().filter(|(_, d)| keys_of(d, fields).iter().any(|k| k.parse::<i64>().is_ok_and(|n| q.accepts(n)))).map(|(id, _)| *id).collect();
            if csv(&want) != ids {
                let key = format!("filter:{}:{name}", q.shape());
                let key = if is_f_c02_2(&key, &csv(&want), ids, &tainted, &mut refused, &obs.docs) { F_C02_2.to_string() } else { key };
                run.complaints.push((i, key, format!("range filter {rq} on index {name} is not the set of live documents with a matching stored value"), csv(&want), ids.to_string()));
            }
        }
        if let Some(b) = &before && out.starts_with("err:") && b.dump != obs.dump {
            let shape = toks[0];
            run.complaints.push((i, format!("rejected:{shape}:{out}:left-a-trace"), format!("a rejected {shape} ({out}) changed what the collection shows"), b.dump.clone(), obs.dump.clone()));
        }
        // third-order shape of F-C02-2: an HNSW index created in a post-crash open callback refuses a stored vector
        // (other dimension); an update that touches the vector field of such a document fails in the index and its
        // rollback cannot re-insert the old vector either -> the handle poisons itself
        let hn_refuses = tainted.get("hn").is_some_and(|dim| obs.docs.values().any(|d| matches!(get(d, HN_FIELD), Val::Vec(n) if n != *dim)));
        if c.is_poisoned() { run.complaints.push((i, if hn_refuses { F_C02_2.to_string() } else { "poisoned".into() }, "the handle poisoned itself on a storage backend that never fails".into(), "healthy handle".into(), "poisoned".into())); }
        for (k, w, e, o) in obs.complaints.clone() { let k = if is_f_c02_2(&k, &e, &o, &tainted, &mut refused, &obs.docs) { F_C02_2.to_string() } else { k }; run.complaints.push((i, k, w, e, o)); }
        run.steps.push(StepRec { op: line.clone(), out, dump: obs.dump.clone(), tag: String::new() });
        last = Some(obs);
        i += 1;
    }
    if let Some(c) = coll { drop(c); let _ = db.close().await; }
    Ok(run)
}

/// Replays the same lines on the Lean driver.
pub fn run_model(m: &mut ModelProc, ops: &[String]) -> Vec<StepRec> {
    let mut out = vec![];
    for op in ops {
        let o = m.ask(op);
        let d = m.ask("dump");
        // the model's branch tag travels after ` #` and is not part of the compared answer
        let (o, tag) = match o.split_once(" #") { Some((a, b)) => (a.to_string(), b.to_string()), None => (o, String::new()) };
        out.push(StepRec { op: op.clone(), out: o, dump: d, tag });
    }
    out
}

// ------------------------------------------------------------------------------------------
// generation
// ------------------------------------------------------------------------------------------

pub struct GenCfg { pub universe: i64, pub n_ops: usize, pub malformed: u64, /// percentage of histories that start with a unique value changing hands across a flush, then a crash
    pub handover: u64,
    /// index operations in the open callback after a power loss may create indexes that can refuse a document (F-C02-2)
    pub crash_creates: bool }

fn gen_val(r: &mut Rng, f: &FieldSpec, g: &GenCfg) -> Val {
    let u = g.universe;
    match f.ty {
        Ty::U64 => Val::Int(r.range(0, if f.num == 1 { u } else { 2 })),
        Ty::OptKeyText => if r.chance(1, 4) { Val::Null } else { Val::Int(r.range(0, (u - 1).clamp(1, 8))) },
        Ty::ArrU64 => { let n = r.usize(if f.num == 3 { 3 } else { 4 }); Val::Arr((0..n).map(|_| r.range(0, if f.num == 3 { u } else { 3 })).collect()) }
        Ty::OptI64 => if r.chance(1, 4) { Val::Null } else { Val::Int(r.range(-2, 2)) },
        Ty::MapText => { let mut ks: Vec<i64> = (0..4).filter(|_| r.chance(1, 3)).collect(); ks.sort(); Val::Map(ks) }
        Ty::Body => { let n = r.usize(4); Val::Text((0..n).map(|_| r.usize(WORDS.len())).collect()) }
        Ty::OptBody => if r.chance(1, 2) { Val::Null } else { let n = 1 + r.usize(2); Val::Text((0..n).map(|_| r.usize(WORDS.len())).collect()) },
        Ty::Vector => Val::Vec(if r.chance(1, 14) { 3 } else { HN_DIM }),
    }
}

fn wrong_val(r: &mut Rng, f: &FieldSpec) -> Val {
    match f.ty {
        Ty::U64 => if r.chance(1, 2) { Val::Arr(vec![1]) } else { Val::Null },
        Ty::OptKeyText | Ty::OptI64 => Val::Arr(vec![1, 2]),
        Ty::ArrU64 => if r.chance(1, 2) { Val::Int(1) } else { Val::Null },
        Ty::MapText => Val::Int(2),
        Ty::Body => Val::Null,
        Ty::OptBody => Val::Arr(vec![0]),
        Ty::Vector => Val::Int(3),
    }
}

fn gen_rq(r: &mut Rng, lo: i64, hi: i64) -> String {
    let k = |r: &mut Rng| r.range(lo, hi);
    let leaf = |r: &mut Rng| -> String {
        match r.below(8) {
            0 => format!("eq:{}", k(r)), 1 => format!("gt:{}", k(r)), 2 => format!("ge:{}", k(r)), 3 => format!("lt:{}", k(r)), 4 => format!("le:{}", k(r)),
            5 => { let (a, b) = (k(r), k(r)); if r.chance(1, 6) { format!("bw:{}:{}", a.max(b), a.min(b)) } else { format!("bw:{}:{}", a.min(b), a.max(b)) } }
            _ => { let n = r.usize(4); format!("in:{}", csv(&(0..n).map(|_| k(r)).collect::<Vec<_>>())) }
        }
    };
    match r.below(10) {
        0 | 1 => format!("or({}|{})", leaf(r), leaf(r)),
        2 => format!("and({}|{})", leaf(r), leaf(r)),
        3 => { let (a, b) = (k(r), k(r)); format!("and(ge:{}|le:{})", a.min(b), a.max(b)) }
        4 => format!("not({})", leaf(r)),
        5 => format!("and({}|{}|{})", leaf(r), leaf(r), leaf(r)),
        _ => leaf(r),
    }
}

/// a filter over one single-field index (rarely over an index name that does not exist)
fn gen_q(r: &mut Rng, g: &GenCfg) -> String {
    if r.chance(1, 25) { return format!("q 30 {}", gen_rq(r, 0, 3)); }
    // a multi-field index has byte keys: an integer value does not convert (error), a query without values is answered
    if r.chance(1, 14) {
        let name = if r.chance(1, 2) { "a-b" } else { "b-tags" };
        let q = match r.below(4) { 0 => "in:-".to_string(), 1 => "not(in:-)".to_string(), 2 => format!("or(in:-|{})", gen_rq(r, 0, 3).replace(['(', ')', '|'], "_").split('_').next().map(|_| "eq:1").unwrap_or("eq:1")), _ => gen_rq(r, 0, 3) };
        return format!("q {} {q}", bt_rank(name));
    }
    let singles: Vec<&(&str, &[usize])> = BT.iter().filter(|b| b.1.len() == 1).collect();
    let (name, fs) = **r.pick(&singles);
    // probe values around the values the generator stores in that field
    let (lo, hi) = match fs[0] { 5 => (-3, 3), 1 | 3 => (0, g.universe + 1), 2 => (0, (g.universe - 1).clamp(1, 8) + 1), _ => (0, 4) };
    format!("q {} {}", bt_rank(name), gen_rq(r, lo, hi))
}

fn gen_ix_op(r: &mut Rng) -> String {
    match r.below(20) {
        0..=8 => { let (name, fs) = BT[r.usize(BT.len())]; format!("mkbt {} {}", bt_rank(name), csv(fs)) }
        9..=12 => { let (name, _) = BT[r.usize(BT.len())]; format!("rmbt {}", bt_rank(name)) }
        13 | 14 => format!("mktx {}", csv(TX[r.usize(2)])),
        15 => format!("rmtx {}", csv(TX[r.usize(2)])),
        16 => format!("mkhn {HN_FIELD} {}", if r.chance(1, 6) { 3 } else { HN_DIM }),
        17 => format!("rmhn {HN_FIELD}"),
        18 => match r.below(3) { 0 => "mkbt 20 99".into(), 1 => "mkbt 22 10".into(), _ => "mktx 99".into() },
        _ => match r.below(3) { 0 => "mkhn 4 4".into(), 1 => "mkhn 99 4".into(), _ => "mkbt 21 4,99".into() },
    }
}

/// A unique value changes hands between the last flush and a power loss. Documents 1, 2 and 3 are flushed and
/// hold distinct values in every unique place. Shapes: (a) hand-over — the releaser is any of them (remove, or
/// update of a random non-empty subset of its unique places), the taker is a new document or, just as often,
/// another FLUSHED document with a lower or a higher id than the releaser (both id directions: a replay that
/// goes document by document in id order survives only one of them); (b) rotation — the values of one place
/// rotate among the three flushed documents through a temporary value, upwards or downwards in id order.
/// Then crash recovery, a contender for the value, `Eq` probes, a second reopen (clean or another power loss).
fn gen_handover(r: &mut Rng, g: &GenCfg, ops: &mut Vec<String>) -> u64 {
    let line = |r: &mut Rng, head: &str, fixed: &[(usize, Val)]| -> String {
        let fvs: Vec<(usize, Val)> = FIELDS.iter().map(|f| (f.num, fixed.iter().find(|x| x.0 == f.num).map(|x| x.1.clone()).unwrap_or_else(|| match f.num { 1..=5 => Val::Null, _ => gen_val(r, f, g) }))).collect();
        format!("{head} {}", join(fvs.iter().map(|(f, v)| format!("{f}={}", v.show())), " "))
    };
    // what document d (1..=3) holds in its unique places: u, e, one element of ut, (a, b)
    let u_of = |d: u64| 19 + d as i64;          // 20 21 22
    let e_of = |d: u64| 5 + d as i64;           // 6 7 8
    let t_of = |d: u64| 29 + d as i64;          // 30 31 32  (ut = [t, t + 10])
    let b_of = |d: u64| 6 + d as i64;           // (a, b) = (7, 7) (7, 8) (7, 9)
    for d in 1..=3u64 {
        ops.push(line(r, "add", &[(1, Val::Int(u_of(d))), (2, Val::Int(e_of(d))), (3, Val::Arr(vec![t_of(d), t_of(d) + 10])), (4, Val::Int(7)), (5, Val::Int(b_of(d)))]));
    }
    let mut next = 4u64;
    ops.push(if r.chance(2, 3) { "flush".into() } else { "reopen".into() });
    let mut probes: Vec<String> = vec![];
    let contender: Vec<(usize, Val)>;
    if r.chance(1, 4) {
        // (b) rotation of one place among the three flushed documents
        let up = r.chance(1, 2);
        let order: [u64; 3] = if up { [1, 2, 3] } else { [3, 2, 1] };
        let place = r.below(3);
        let set = |d: u64, from: u64, tmp: bool| -> String {
            match place {
                0 => format!("upd {d} 1=i{}", if tmp { 90 } else { u_of(from) }),
                1 => format!("upd {d} 2=i{}", if tmp { 0 } else { e_of(from) }),
                _ => format!("upd {d} 3=a{}", if tmp { "-".to_string() } else { format!("{},{}", t_of(from), t_of(from) + 10) }),
            }
        };
        // order[0] steps aside, order[1] takes order[0]'s value, order[2] takes order[1]'s, order[0] takes order[2]'s
        ops.push(set(order[0], 0, true));
        ops.push(set(order[1], order[0], false));
        ops.push(set(order[2], order[1], false));
        if r.chance(3, 4) { ops.push(set(order[0], order[2], false)); }
        contender = vec![(1, Val::Int(u_of(1))), (2, Val::Int(e_of(1))), (3, Val::Arr(vec![t_of(1)])), (4, Val::Int(3)), (5, Val::Int(3))];
        for d in 1..=3u64 { probes.push(format!("q {} eq:{}", bt_rank(["u", "e", "ut"][place as usize]), [u_of(d), e_of(d), t_of(d)][place as usize])); }
    } else {
        // (a) hand-over
        let rel = 1 + r.below(3);
        let places: Vec<usize> = [1usize, 2, 3, 4].iter().copied().filter(|_| r.chance(1, 2)).collect();
        let places = if places.is_empty() { vec![*r.pick(&[1usize, 2, 3, 4])] } else { places };
        let by_remove = r.chance(1, 3);
        if by_remove { ops.push(format!("rm {rel}")); } else {
            let mut fvs: Vec<String> = vec![];
            for p in &places {
                match p { 1 => fvs.push(format!("1=i{}", 50 + rel)), 2 => fvs.push(if r.chance(1, 2) { "2=~".into() } else { "2=i1".to_string() }), 3 => fvs.push(if r.chance(1, 2) { format!("3=a{}", t_of(rel) + 10) } else { "3=a-".to_string() }), _ => fvs.push(if r.chance(1, 2) { "5=i1".into() } else { "5=~".to_string() }) }
            }
            ops.push(format!("upd {rel} {}", fvs.join(" ")));
        }
        let has = |p: usize| by_remove || places.contains(&p);
        // the values that changed hands (the contender asks for the same ones)
        let mut taken: Vec<(usize, Val)> = vec![];
        if has(1) { taken.push((1, Val::Int(u_of(rel)))); }
        if has(2) { taken.push((2, Val::Int(e_of(rel)))); }
        if has(3) { taken.push((3, Val::Arr(vec![t_of(rel)]))); }
        if has(4) { taken.push((4, Val::Int(7))); taken.push((5, Val::Int(b_of(rel)))); }
        if r.chance(1, 2) {
            // a FLUSHED document takes them by an update: lower or higher id than the releaser
            let others: Vec<u64> = (1..=3u64).filter(|d| *d != rel).collect();
            let tak = *r.pick(&others);
            ops.push(format!("upd {tak} {}", join(taken.iter().map(|(f, v)| format!("{f}={}", v.show())), " ")));
        } else {
            let mut fresh = taken.clone();
            if !has(1) { fresh.push((1, Val::Int(60))); }
            if !has(3) { fresh.push((3, Val::Arr(vec![]))); }
            if !has(4) { fresh.push((4, Val::Int(9))); fresh.push((5, Val::Int(9))); }
            ops.push(line(r, "add", &fresh));
            let b = next;
            next += 1;
            // a second hop before the power loss: the new holder passes the scalar value on to yet another new document
            if has(1) && r.chance(1, 4) {
                ops.push(format!("upd {b} 1=i61"));
                ops.push(line(r, "add", &[(1, Val::Int(u_of(rel))), (3, Val::Arr(vec![])), (4, Val::Int(6)), (5, Val::Int(6))]));
                next += 1;
            }
        }
        contender = { let mut c = taken.clone(); if !has(1) { c.push((1, Val::Int(70))); } if !has(3) { c.push((3, Val::Arr(vec![]))); } if !has(4) { c.push((4, Val::Int(4))); c.push((5, Val::Int(4))); } c };
        probes.push(format!("q {} eq:{}", bt_rank("u"), u_of(rel)));
        probes.push(format!("q {} eq:{}", bt_rank("e"), e_of(rel)));
        probes.push(format!("q {} eq:{}", bt_rank("ut"), t_of(rel)));
    }
    if r.chance(1, 4) { ops.push(format!("upd {} 8=t1", 1 + r.below(3))); }
    // an unflushed document that is also updated: it has an intent *and* lies in the repair-scan window, above
    // another unflushed document
    if r.chance(1, 3) {
        ops.push(line(r, "add", &[(1, Val::Int(80)), (3, Val::Arr(vec![])), (4, Val::Int(5)), (5, Val::Int(5))]));
        ops.push(format!("upd {next} {}", if r.chance(1, 2) { "1=i81" } else { "8=t2" }));
        next += 1;
    }
    ops.push("crash".into());
    ops.push("check".into());
    ops.push(line(r, "add", &contender)); // a contender for the handed-over values
    next += 1;
    ops.extend(probes);
    ops.push(if r.chance(1, 4) { "crash".into() } else { "reopen".into() });
    ops.push("check".into());
    next
}

/// Index operations for the open callback after a power loss that cannot run into F-C02-2 (used by C04, where
/// the finding is not registered): no creation of an index that can *refuse* a document (unique B-tree, HNSW
/// with its dimension). The callback runs before recovery, so the backfill sees only the documents of the last
/// flush; a document recovery finds later and the new index refuses is skipped with a log line.
fn gen_ix_op_after_crash(r: &mut Rng) -> String {
    match r.below(10) {
        0..=3 => { let (name, fs) = *r.pick(&[BT[3], BT[4], BT[5], BT[6]]); format!("mkbt {} {}", bt_rank(name), csv(fs)) }
        4 | 5 => { let (name, _) = BT[r.usize(BT.len())]; format!("rmbt {}", bt_rank(name)) }
        6 => format!("mktx {}", csv(TX[r.usize(2)])),
        7 => format!("rmtx {}", csv(TX[r.usize(2)])),
        8 => format!("rmhn {HN_FIELD}"),
        _ => "mkbt 20 99".into(),
    }
}

pub fn gen_case(r: &mut Rng, g: &GenCfg) -> Vec<String> {
    let mut ops = vec![schema_line()];
    // initial registry: most indexes present, sometimes a sparse one
    let dense = r.chance(3, 4);
    let mut order: Vec<usize> = (0..BT.len()).collect();
    r.shuffle(&mut order);
    for k in order {
        if r.chance(if dense { 4 } else { 1 }, 5) { let (name, fs) = BT[k]; ops.push(format!("mkbt {} {}", bt_rank(name), csv(fs))); }
    }
    for t in TX.iter() { if r.chance(if dense { 3 } else { 1 }, 4) { ops.push(format!("mktx {}", csv(t))); } }
    if r.chance(if dense { 4 } else { 1 }, 5) { ops.push(format!("mkhn {HN_FIELD} {HN_DIM}")); }
    let mut next_id = 1u64;
    if r.below(100) < g.handover { next_id = gen_handover(r, g, &mut ops); }
    // ids that may be live (an add was generated for them and no rm since): updates and removals aim
    // at them most of the time; a rejected add still consumes its id, an invalid one does not
    let mut maybe: Vec<u64> = (1..next_id).collect();
    for _ in 0..g.n_ops {
        let id = if !maybe.is_empty() && r.chance(4, 5) { *r.pick(&maybe) } else { 1 + r.below(next_id.max(1)) };
        match r.below(100) {
            0..=39 => {
                let mut fvs: Vec<(usize, Val)> = FIELDS.iter().map(|f| (f.num, gen_val(r, f, g))).collect();
                let mut allocates = true;
                if r.below(100) < g.malformed {
                    match r.below(3) {
                        0 => { let k = r.usize(fvs.len()); allocates = matches!(FIELDS[k].ty, Ty::OptKeyText | Ty::OptI64 | Ty::OptBody); fvs.remove(k); }
                        1 => { let k = r.usize(fvs.len()); fvs[k].1 = wrong_val(r, &FIELDS[k]); allocates = false; }
                        _ => { fvs.push((99, Val::Int(1))); allocates = false; }
                    }
                }
                ops.push(format!("add {}", join(fvs.iter().map(|(f, v)| format!("{f}={}", v.show())), " ")));
                if allocates { maybe.push(next_id); next_id += 1; }
            }
            40..=70 => {
                let n = 1 + r.usize(3);
                // one update in four aims at the fields that carry unique / multi-field indexes
                let mut fs: Vec<usize> = if r.chance(1, 4) { (0..6).collect() } else { (0..FIELDS.len()).collect() };
                r.shuffle(&mut fs);
                let mut fvs: Vec<(usize, Val)> = fs[..n].iter().map(|k| (FIELDS[*k].num, gen_val(r, &FIELDS[*k], g))).collect();
                if r.below(100) < g.malformed {
                    match r.below(3) {
                        0 => fvs.clear(),
                        1 => { fvs[0].1 = wrong_val(r, field(fvs[0].0).unwrap()); }
                        _ => fvs.push((99, Val::Int(1))),
                    }
                }
                ops.push(format!("upd {id} {}", join(fvs.iter().map(|(f, v)| format!("{f}={}", v.show())), " ")).trim_end().to_string());
            }
            71..=79 => { ops.push(format!("rm {id}")); maybe.retain(|x| *x != id); }
            80..=82 => ops.push(format!("rm {}", 1 + r.below(next_id + 1))),
            83 | 84 => ops.push("reopen".into()),
            85 => { ops.push("crash".into()); ops.push("check".into()); }
            86 | 87 => ops.push("flush".into()),
            88..=94 => ops.push(gen_q(r, g)),
            // index operations run in the open callback: of a clean reopen, or (one in five) of the open after a power loss
            _ => { let crash = r.chance(1, 5); ops.push(if crash { "crash" } else { "reopen" }.into()); for _ in 0..1 + r.usize(2) { ops.push(if crash && !g.crash_creates { gen_ix_op_after_crash(r) } else { gen_ix_op(r) }); } if crash { ops.push("check".into()); } }
        }
    }
    ops
}

// ------------------------------------------------------------------------------------------
// checking one case: implementation vs oracle, implementation vs model
// ------------------------------------------------------------------------------------------

pub struct Verdict {
    pub complaints: Vec<(usize, String, String, String, String)>,
    /// first step at which model and implementation differ: (step, what, model, impl)
    pub disagreement: Option<(usize, String, String, String)>,
    pub steps: Vec<StepRec>,
    /// branch tags of the model run (one per step that changes state)
    pub tags: Vec<String>,
    pub error: Option<String>,
    pub panicked: bool,
}

pub fn check_once(rt: &tokio::runtime::Runtime, ops: &[String], model: &mut Option<ModelProc>) -> Verdict {
    let r = std::panic::catch_unwind(std::panic::AssertUnwindSafe(|| rt.block_on(run_real(ops))));
    let mut v = Verdict { complaints: vec![], disagreement: None, steps: vec![], tags: vec![], error: None, panicked: false };
    let run = match r {
        Ok(Ok(run)) => run,
        Ok(Err(e)) => { v.error = Some(e); return v; }
        Err(_) => { v.panicked = true; return v; }
    };
    v.complaints = run.complaints;
    if let Some(m) = model.as_mut() {
        let ms = run_model(m, ops);
        v.tags = ms.iter().filter(|s| !s.tag.is_empty()).map(|s| s.tag.clone()).collect();
        for (k, (a, b)) in ms.iter().zip(run.steps.iter()).enumerate() {
            if a.out != b.out { v.disagreement = Some((k, format!("outcome of `{}`", a.op), a.out.clone(), b.out.clone())); break; }
            if a.dump != b.dump { v.disagreement = Some((k, format!("observable state after `{}`", a.op), a.dump.clone(), b.dump.clone())); break; }
        }
    }
    v.steps = run.steps;
    v
}

/// Checks a case, shrinks and records what it finds. Returns true when something was reported.
pub fn check_case(rt: &tokio::runtime::Runtime, name: &str, ops: &[String], model: &mut Option<ModelProc>, rep: &mut Report, do_shrink: bool) -> bool {
    let v = check_once(rt, ops, model);
    if let Some(e) = &v.error { rep.hit("case_error"); if rep.notes.len() < 10 { rep.notes.push(format!("case {name} could not run: {e}")); } return false; }
    if v.panicked {
        let small = if do_shrink { shrink_ops(ops, |c| { let mut none = None; check_once(rt, c, &mut none).panicked }) } else { ops.to_vec() };
        rep.oracle_failure("panic", "the implementation panicked", &small, "no panic", "panic");
        return true;
    }
    for s in &v.steps {
        let kind = s.op.split(' ').next().unwrap_or("");
        rep.hit(&format!("op:{kind}"));
        rep.hit(&format!("out:{kind}:{}", s.out.split(' ').next().unwrap_or("")));
    }
    for t in &v.tags { rep.hit(&format!("branch:{t}")); }
    for s in &v.steps {
        if let Some(rest) = s.op.strip_prefix("q ") && let Some(q) = rest.split(' ').nth(1).and_then(Rq::parse) {
            let n = s.out.strip_prefix("ids ").map(|x| if x == "-" { 0 } else { x.split(',').count() });
            rep.hit(&format!("query:{}:{}", q.shape(), match n { None => "error", Some(0) => "empty", Some(_) => "hits" }));
        }
    }
    if model.is_some() { rep.model_compared += 2 * v.steps.len() as u64; }
    let accepted = v.steps.iter().any(|s| s.out.starts_with("id "));
    let indexed = v.steps.last().is_some_and(|s| s.dump.contains('>'));
    rep.case(&ops.join("|"), accepted && indexed);
    let mut reported = false;
    // a case that shows the known finding is still judged on everything else first
    if let Some((_, key, what, exp, obs)) = v.complaints.iter().find(|c| c.1 != F_C02_2).or(v.complaints.first()).cloned() {
        let small = if do_shrink {
            shrink_ops(ops, |c| { let mut none = None; check_once(rt, c, &mut none).complaints.iter().any(|x| x.1 == key) })
        } else { ops.to_vec() };
        let (exp, obs) = if small.len() < ops.len() {
            let mut none = None;
            check_once(rt, &small, &mut none).complaints.iter().find(|x| x.1 == key).map(|x| (x.3.clone(), x.4.clone())).unwrap_or((exp, obs))
        } else { (exp, obs) };
        rep.oracle_failure(&key, &what, &small, &exp, &obs);
        reported = true;
    }
    if let Some((_, what, m, i)) = v.disagreement.clone() {
        let small = if do_shrink { shrink_ops(ops, |c| check_once(rt, c, model).disagreement.is_some()) } else { ops.to_vec() };
        let (what, m, i) = if small.len() < ops.len() { check_once(rt, &small, model).disagreement.map(|d| (d.1, d.2, d.3)).unwrap_or((what, m, i)) } else { (what, m, i) };
        rep.disagreement(&what, &small, &m, &i);
        reported = true;
    }
    reported
}

/// delta debugging that keeps the schema line
pub fn shrink_ops(ops: &[String], mut fails: impl FnMut(&[String]) -> bool) -> Vec<String> {
    let head = ops[0].clone();
    let tail: Vec<String> = ops[1..].to_vec();
    let small = shrink(tail, |c| { let mut v = vec![head.clone()]; v.extend_from_slice(c); fails(&v) }, 150);
    let mut v = vec![head];
    v.extend(small);
    v
}
