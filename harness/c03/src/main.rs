//! C03 — filters follow set algebra; a bounded page is an end of the full result.
//!
//! Case = a small collection (indexed values *not* correlated with ids: duplicates, arrays,
//! missing values, id gaps from removals) + a batch of queries (filter trees over `_id` and every
//! B-tree index, RangeQuery trees inside `Field`, limits around 0 / n / MAX, both entry points,
//! `query_all_ids`, and `search_ids` with BM25 candidates).
//!
//! * correspondence: the same queries are sent to the Lean model (`drv_c03`), whose state is the
//!   id set and the key ↦ posting relation the harness derives from the documents;
//! * oracle (independent of the model): `BTreeSet` evaluation of the set-algebra reading,
//!   then take / take-from-the-end.
use anda_db::{
    collection::{Collection, CollectionConfig},
    database::{AndaDB, DBConfig},
    error::DBError,
    query::{Filter, Query, RangeQuery, Search},
    schema::{AndaDBSchema, Fv},
    storage::StorageConfig,
};
use object_store::memory::InMemory;
use serde::{Deserialize, Serialize};
use std::collections::{BTreeMap, BTreeSet};
use std::sync::Arc;
use vh_common::serde_json::json;
use vh_common::*;

#[derive(Debug, Clone, Serialize, Deserialize, AndaDBSchema)]
struct Doc {
    _id: u64,
    a: u64,
    b: Option<i64>,
    tags: Vec<u64>,
    txt: String,
    /// second text field with its own BM25 index: a text search fuses TWO ranked lists (RRF), so the
    /// fused candidate list can be longer than the per-index breadth `top_k`
    txt2: String,
}

const WORDS: [&str; 6] = ["alpha", "beta", "gamma", "delta", "omega", "sigma"];
const MAX: usize = 1000;

// ------------------------------------------------------------------------------------------
// query AST (harness side)
// ------------------------------------------------------------------------------------------

#[derive(Clone, Debug)]
enum Rq {
    Eq(i64), Gt(i64), Ge(i64), Lt(i64), Le(i64), Bt(i64, i64), In(Vec<i64>),
    And(Vec<Rq>), Or(Vec<Rq>), Not(Box<Rq>),
}

#[derive(Clone, Debug)]
enum Fl {
    Id(Rq),
    Field(usize, Rq), // 0 = a, 1 = b, 2 = tags, 9 = unknown index
    Or(Vec<Fl>), And(Vec<Fl>), Not(Box<Fl>),
}

fn index_name(ix: usize) -> &'static str {
    match ix { 0 => "a", 1 => "b", 2 => "tags", _ => "nope" }
}

impl Rq {
    fn line(&self) -> String {
        match self {
            Rq::Eq(k) => format!("eq {k}"), Rq::Gt(k) => format!("gt {k}"), Rq::Ge(k) => format!("ge {k}"),
            Rq::Lt(k) => format!("lt {k}"), Rq::Le(k) => format!("le {k}"), Rq::Bt(a, b) => format!("bt {a} {b}"),
            Rq::In(ks) => format!("in {}{}", ks.len(), ks.iter().map(|k| format!(" {k}")).collect::<String>()),
            Rq::And(qs) => format!("and {}{}", qs.len(), qs.iter().map(|q| format!(" {}", q.line())).collect::<String>()),
            Rq::Or(qs) => format!("or {}{}", qs.len(), qs.iter().map(|q| format!(" {}", q.line())).collect::<String>()),
            Rq::Not(q) => format!("not {}", q.line()),
        }
    }
    fn parse(t: &mut std::slice::Iter<'_, &str>) -> Option<Rq> {
        let k = |t: &mut std::slice::Iter<'_, &str>| t.next()?.parse::<i64>().ok();
        Some(match *t.next()? {
            "eq" => Rq::Eq(k(t)?), "gt" => Rq::Gt(k(t)?), "ge" => Rq::Ge(k(t)?), "lt" => Rq::Lt(k(t)?), "le" => Rq::Le(k(t)?),
            "bt" => Rq::Bt(k(t)?, k(t)?),
            "in" => { let n = k(t)? as usize; let mut v = vec![]; for _ in 0..n { v.push(k(t)?) } Rq::In(v) }
            "and" => { let n = k(t)? as usize; let mut v = vec![]; for _ in 0..n { v.push(Rq::parse(t)?) } Rq::And(v) }
            "or" => { let n = k(t)? as usize; let mut v = vec![]; for _ in 0..n { v.push(Rq::parse(t)?) } Rq::Or(v) }
            "not" => Rq::Not(Box::new(Rq::parse(t)?)),
            _ => return None,
        })
    }
    /// `signed`: the index holds i64 keys (field `b`), otherwise u64.
    fn real(&self, signed: bool) -> RangeQuery<Fv> {
        let fv = |k: &i64| if signed { Fv::I64(*k) } else { Fv::U64((*k).max(0) as u64) };
        match self {
            Rq::Eq(k) => RangeQuery::Eq(fv(k)), Rq::Gt(k) => RangeQuery::Gt(fv(k)), Rq::Ge(k) => RangeQuery::Ge(fv(k)),
            Rq::Lt(k) => RangeQuery::Lt(fv(k)), Rq::Le(k) => RangeQuery::Le(fv(k)), Rq::Bt(a, b) => RangeQuery::Between(fv(a), fv(b)),
            Rq::In(ks) => RangeQuery::Include(ks.iter().map(fv).collect()),
            Rq::And(qs) => RangeQuery::And(qs.iter().map(|q| Box::new(q.real(signed))).collect()),
            Rq::Or(qs) => RangeQuery::Or(qs.iter().map(|q| Box::new(q.real(signed))).collect()),
            Rq::Not(q) => RangeQuery::Not(Box::new(q.real(signed))),
        }
    }
    /// oracle: does key `k` satisfy the predicate (documented semantics: inverted Between and
    /// empty And/Or match nothing)
    fn sat(&self, k: i64) -> bool {
        match self {
            Rq::Eq(v) => k == *v, Rq::Gt(v) => k > *v, Rq::Ge(v) => k >= *v, Rq::Lt(v) => k < *v, Rq::Le(v) => k <= *v,
            Rq::Bt(a, b) => a <= b && *a <= k && k <= *b,
            Rq::In(ks) => ks.contains(&k),
            Rq::And(qs) => !qs.is_empty() && qs.iter().all(|q| q.sat(k)),
            Rq::Or(qs) => qs.iter().any(|q| q.sat(k)),
            Rq::Not(q) => !q.sat(k),
        }
    }
    fn nonneg(&self) -> bool {
        match self {
            Rq::Eq(k) | Rq::Gt(k) | Rq::Ge(k) | Rq::Lt(k) | Rq::Le(k) => *k >= 0,
            Rq::Bt(a, b) => *a >= 0 && *b >= 0,
            Rq::In(ks) => ks.iter().all(|k| *k >= 0),
            Rq::And(qs) | Rq::Or(qs) => qs.iter().all(|q| q.nonneg()),
            Rq::Not(q) => q.nonneg(),
        }
    }
}

impl Fl {
    fn line(&self) -> String {
        match self {
            Fl::Id(q) => format!("I {}", q.line()),
            Fl::Field(ix, q) => format!("F {ix} {}", q.line()),
            Fl::Or(fs) => format!("O {}{}", fs.len(), fs.iter().map(|f| format!(" {}", f.line())).collect::<String>()),
            Fl::And(fs) => format!("A {}{}", fs.len(), fs.iter().map(|f| format!(" {}", f.line())).collect::<String>()),
            Fl::Not(f) => format!("N {}", f.line()),
        }
    }
    fn parse(t: &mut std::slice::Iter<'_, &str>) -> Option<Fl> {
        Some(match *t.next()? {
            "I" => Fl::Id(Rq::parse(t)?),
            "F" => { let ix = t.next()?.parse().ok()?; Fl::Field(ix, Rq::parse(t)?) }
            "O" => { let n: usize = t.next()?.parse().ok()?; let mut v = vec![]; for _ in 0..n { v.push(Fl::parse(t)?) } Fl::Or(v) }
            "A" => { let n: usize = t.next()?.parse().ok()?; let mut v = vec![]; for _ in 0..n { v.push(Fl::parse(t)?) } Fl::And(v) }
            "N" => Fl::Not(Box::new(Fl::parse(t)?)),
            _ => return None,
        })
    }
    fn real(&self) -> Filter {
        match self {
            Fl::Id(q) => { assert!(q.nonneg(), "negative bound on an unsigned key space"); Filter::Field(("_id".to_string(), q.real(false))) }
            Fl::Field(ix, q) => { assert!(*ix == 1 || q.nonneg(), "negative bound on an unsigned key space"); Filter::Field((index_name(*ix).to_string(), q.real(*ix == 1))) }
            Fl::Or(fs) => Filter::Or(fs.iter().map(|f| Box::new(f.real())).collect()),
            Fl::And(fs) => Filter::And(fs.iter().map(|f| Box::new(f.real())).collect()),
            Fl::Not(f) => Filter::Not(Box::new(f.real())),
        }
    }
    fn uses_unknown_index(&self) -> bool {
        match self {
            Fl::Id(_) => false,
            Fl::Field(ix, _) => *ix > 2,
            Fl::Or(fs) | Fl::And(fs) => fs.iter().any(|f| f.uses_unknown_index()),
            Fl::Not(f) => f.uses_unknown_index(),
        }
    }
    /// "top-level bare B-tree field" — the call shape of finding F-C03-1
    fn is_bare_btree_field(&self) -> bool {
        matches!(self, Fl::Field(ix, _) if *ix <= 2)
    }
    /// oracle: set-algebra reading over the live documents
    fn sat(&self, st: &RefState, id: u64) -> bool {
        match self {
            Fl::Id(q) => st.docs.contains_key(&id) && q.sat(id as i64),
            Fl::Field(ix, q) => st.docs.get(&id).is_some_and(|d| keys_of(d, *ix).iter().any(|k| q.sat(*k))),
            Fl::Or(fs) => fs.iter().any(|f| f.sat(st, id)),
            Fl::And(fs) => !fs.is_empty() && fs.iter().all(|f| f.sat(st, id)),
            Fl::Not(f) => st.docs.contains_key(&id) && !f.sat(st, id),
        }
    }
    fn shape(&self) -> &'static str {
        match self { Fl::Id(_) => "id", Fl::Field(..) => "field", Fl::Or(_) => "or", Fl::And(_) => "and", Fl::Not(_) => "not" }
    }
}

/// oracle-side reading of the documented budget (docs: depth <= 64, nodes <= 4096, branches <= 1024,
/// include list <= 4096), written independently of the model: explicit stack, no recursion.
fn within_budget(f: &Fl) -> bool {
    enum N<'a> { F(&'a Fl), R(&'a Rq) }
    let (mut nodes, mut branches) = (0usize, 0usize);
    let mut stack = vec![(N::F(f), 0usize)];
    while let Some((n, depth)) = stack.pop() {
        if depth > 64 { return false; }
        nodes += 1;
        match n {
            N::F(Fl::Id(q)) | N::F(Fl::Field(_, q)) => stack.push((N::R(q), depth + 1)),
            N::F(Fl::Or(fs)) | N::F(Fl::And(fs)) => { branches += fs.len(); stack.extend(fs.iter().map(|f| (N::F(f), depth + 1))); }
            N::F(Fl::Not(f)) => stack.push((N::F(f), depth + 1)),
            N::R(Rq::In(ks)) => { if ks.len() > 4096 { return false; } }
            N::R(Rq::And(qs)) | N::R(Rq::Or(qs)) => { branches += qs.len(); stack.extend(qs.iter().map(|q| (N::R(q), depth + 1))); }
            N::R(Rq::Not(q)) => stack.push((N::R(q), depth + 1)),
            N::R(_) => {}
        }
    }
    nodes <= 4096 && branches <= 1024
}

impl Rq {
    /// one-step reductions (for shrinking a failing query)
    fn reductions(&self) -> Vec<Rq> {
        let mut out = vec![];
        match self {
            Rq::In(ks) => for i in 0..ks.len() { let mut k = ks.clone(); k.remove(i); out.push(Rq::In(k)); },
            Rq::And(qs) | Rq::Or(qs) => {
                let mk = |v: Vec<Rq>| if matches!(self, Rq::And(_)) { Rq::And(v) } else { Rq::Or(v) };
                for i in 0..qs.len() {
                    out.push(qs[i].clone());
                    let mut v = qs.clone(); v.remove(i); out.push(mk(v));
                    for r in qs[i].reductions() { let mut v = qs.clone(); v[i] = r; out.push(mk(v)); }
                }
            }
            Rq::Not(q) => { out.push((**q).clone()); for r in q.reductions() { out.push(Rq::Not(Box::new(r))); } }
            _ => {}
        }
        out
    }
}

impl Fl {
    fn reductions(&self) -> Vec<Fl> {
        let mut out = vec![];
        match self {
            Fl::Id(q) => for r in q.reductions() { out.push(Fl::Id(r)); },
            Fl::Field(ix, q) => for r in q.reductions() { out.push(Fl::Field(*ix, r)); },
            Fl::And(fs) | Fl::Or(fs) => {
                let mk = |v: Vec<Fl>| if matches!(self, Fl::And(_)) { Fl::And(v) } else { Fl::Or(v) };
                for i in 0..fs.len() {
                    out.push(fs[i].clone());
                    let mut v = fs.clone(); v.remove(i); out.push(mk(v));
                    for r in fs[i].reductions() { let mut v = fs.clone(); v[i] = r; out.push(mk(v)); }
                }
            }
            Fl::Not(f) => { out.push((**f).clone()); for r in f.reductions() { out.push(Fl::Not(Box::new(r))); } }
        }
        out
    }
}

/// Shrinks the filter of the last op (`q …` / `s …`) of a failing case while it keeps failing.
fn shrink_query(ops: Vec<String>, fails: &mut dyn FnMut(&[String]) -> bool) -> Vec<String> {
    let mut ops = ops;
    let Some(last) = ops.last().cloned() else { return ops };
    let toks: Vec<&str> = last.split(' ').collect();
    if toks.len() < 4 { return ops; }
    let head = toks[..3].join(" ");
    let mut it = toks[3..].iter();
    let Some(mut f) = Fl::parse(&mut it) else { return ops };
    let mut budget = 300;
    'outer: loop {
        for cand in f.reductions() {
            if budget == 0 { break 'outer; }
            budget -= 1;
            let n = ops.len();
            let mut trial = ops.clone();
            trial[n - 1] = format!("{head} {}", cand.line());
            if fails(&trial) { f = cand; ops = trial; continue 'outer; }
        }
        break;
    }
    ops
}

fn keys_of(d: &Doc, ix: usize) -> Vec<i64> {
    match ix {
        0 => vec![d.a as i64],
        1 => d.b.into_iter().collect(),
        2 => d.tags.iter().map(|t| *t as i64).collect(),
        _ => vec![],
    }
}

#[derive(Default, Clone)]
struct RefState {
    docs: BTreeMap<u64, Doc>,
}

impl RefState {
    /// the model's state lines: ids + key ↦ postings for each index
    fn model_lines(&self) -> Vec<String> {
        let mut out = vec!["reset".to_string(), format!("ids {}", if self.docs.is_empty() { "-".into() } else { join(self.docs.keys(), ",") })];
        for ix in 0..3 {
            let mut m: BTreeMap<i64, BTreeSet<u64>> = BTreeMap::new();
            for (id, d) in &self.docs {
                for k in keys_of(d, ix) {
                    m.entry(k).or_default().insert(*id);
                }
            }
            let mut l = format!("idx {ix}");
            for (k, ids) in m {
                l.push_str(&format!(" {k}:{}", join(ids, ",")));
            }
            out.push(l);
        }
        out
    }
}

// ------------------------------------------------------------------------------------------
// generation
// ------------------------------------------------------------------------------------------

/// operand count of a composite: mostly 1..3, the empty composite (a constant) only now and then
fn width(r: &mut Rng) -> usize { if r.chance(1, 12) { 0 } else { 1 + r.usize(3) } }

fn gen_rq(r: &mut Rng, depth: u32, lo: i64, hi: i64) -> Rq {
    let k = |r: &mut Rng| r.range(lo - 1, hi + 1);
    let leaf = depth == 0 || r.chance(3, 5);
    if leaf {
        match r.below(8) {
            0 => Rq::Eq(k(r)), 1 => Rq::Gt(k(r)), 2 => Rq::Ge(k(r)), 3 => Rq::Lt(k(r)), 4 => Rq::Le(k(r)),
            5 => { let a = k(r); let b = k(r); if r.chance(4, 5) { Rq::Bt(a.min(b), a.max(b)) } else { Rq::Bt(a.max(b), a.min(b)) } }
            _ => { let n = r.usize(5); Rq::In((0..n).map(|_| k(r)).collect()) }
        }
    } else {
        match r.below(5) {
            0 | 1 => { let n = width(r); Rq::And((0..n).map(|_| gen_rq(r, depth - 1, lo, hi)).collect()) }
            2 | 3 => { let n = width(r); Rq::Or((0..n).map(|_| gen_rq(r, depth - 1, lo, hi)).collect()) }
            _ => Rq::Not(Box::new(gen_rq(r, depth - 1, lo, hi))),
        }
    }
}

fn gen_fl(r: &mut Rng, depth: u32, max_id: i64, allow_unknown: bool) -> Fl {
    let leaf = depth == 0 || r.chance(2, 5);
    if leaf {
        match r.below(if allow_unknown { 41 } else { 40 }) {
            // unsigned key spaces (`_id`, a, tags): bounds from 0; signed (b): negatives too
            0..=9 => Fl::Id(gen_rq(r, 2, 1, max_id)),
            10..=19 => Fl::Field(0, gen_rq(r, 2, 1, 8)),
            20..=29 => Fl::Field(1, gen_rq(r, 2, -5, 5)),
            30..=39 => Fl::Field(2, gen_rq(r, 2, 1, 6)),
            _ => Fl::Field(9, Rq::Eq(1)),
        }
    } else {
        match r.below(5) {
            0 => { let n = width(r); Fl::And((0..n).map(|_| gen_fl(r, depth - 1, max_id, allow_unknown)).collect()) }
            1 | 2 | 3 => { let n = width(r); Fl::Or((0..n).map(|_| gen_fl(r, depth - 1, max_id, allow_unknown)).collect()) }
            _ => Fl::Not(Box::new(gen_fl(r, depth - 1, max_id, allow_unknown))),
        }
    }
}

/// A collection whose text search has MORE fused candidates than the per-index breadth `top_k`: the word
/// occurs in `txt` of one half of the documents and in `txt2` of the other half (two BM25 indexes, two ranked
/// lists, little overlap), documents of random length so relevance is uncorrelated with the id.
fn gen_wide_case(r: &mut Rng) -> Vec<String> {
    let n = 12 + r.usize(16);
    let word = *r.pick(&WORDS);
    let mut ops = vec![];
    for i in 0..n {
        let a = r.below(9);
        let b = if r.chance(1, 4) { "-".to_string() } else { r.range(-5, 5).to_string() };
        let nt = r.usize(3);
        let tags: Vec<u64> = (0..nt).map(|_| r.below(7)).collect();
        let filler = |r: &mut Rng| { let k = r.usize(4); let mut w: Vec<&str> = (0..k).map(|_| *r.pick(&WORDS)).filter(|x| *x != word).collect(); w.push(word); let p = r.usize(w.len()); let l = w.len() - 1; w.swap(p, l); w.join("_") };
        let other = |r: &mut Rng| { if r.chance(1, 2) { "-".to_string() } else { let w: Vec<&str> = (0..1 + r.usize(2)).map(|_| *r.pick(&WORDS)).filter(|x| *x != word).collect(); if w.is_empty() { "-".to_string() } else { w.join("_") } } };
        let both = r.chance(1, 8);
        let (t1, t2) = if both { (filler(r), filler(r)) } else if (i + r.usize(2)) % 2 == 0 { (filler(r), other(r)) } else { (other(r), filler(r)) };
        ops.push(format!("doc {a} {b} {} {t1} {t2}", if tags.is_empty() { "-".into() } else { join(tags, ",") }));
    }
    for _ in 0..r.usize(3) { ops.push(format!("rm {}", 1 + r.usize(n))); }
    for _ in 0..16 {
        let f = match r.below(10) {
            0 => Fl::Id(Rq::Ge(1)),                                   // matches every document
            1 => Fl::Not(Box::new(Fl::Id(Rq::In(vec![])))),           // matches every document
            2 => Fl::Field(0, Rq::Ge(0)),                             // matches every document
            3 => Fl::Not(Box::new(Fl::Id(Rq::In(vec![1 + r.usize(n) as i64])))),
            4 => Fl::Id(gen_rq(r, 1, 1, n as i64)),
            5 => Fl::Not(Box::new(gen_fl(r, 1, n as i64, false))),
            _ => gen_fl(r, 2, n as i64, false),
        };
        let lim = match r.below(6) { 0 | 1 | 2 => 1, 3 | 4 => 2, _ => 1 + r.usize(4) };
        ops.push(format!("M {lim} {word} {}", f.line()));
    }
    ops
}

fn gen_case(r: &mut Rng) -> Vec<String> {
    if r.chance(1, 5) { return gen_wide_case(r); }
    let n = 3 + r.usize(10);
    let mut ops = vec![];
    for _ in 0..n {
        let a = r.below(9);
        let b = if r.chance(1, 4) { "-".to_string() } else { r.range(-5, 5).to_string() };
        let nt = r.usize(4);
        let tags: Vec<u64> = (0..nt).map(|_| r.below(7)).collect();
        let nw = 1 + r.usize(3);
        let words: Vec<&str> = (0..nw).map(|_| *r.pick(&WORDS)).collect();
        let txt2 = if r.chance(1, 2) { "-".to_string() } else { (0..1 + r.usize(2)).map(|_| *r.pick(&WORDS)).collect::<Vec<_>>().join("_") };
        ops.push(format!("doc {a} {b} {} {} {txt2}", if tags.is_empty() { "-".into() } else { join(tags, ",") }, words.join("_")));
    }
    let nrm = r.usize(n / 3 + 1);
    // array updates: the collection a filter sees is the result of a HISTORY; an update replaces the array
    // value of `tags` - first by one with repeats over a small alphabet, then by one that shares a leading run
    // with it (set difference of old and new must be taken over the whole arrays)
    for _ in 0..r.usize(3) {
        let id = 1 + r.usize(n);
        let t1: Vec<u64> = (0..2 + r.usize(3)).map(|_| r.below(3)).collect();
        let keep = 1 + r.usize(t1.len());
        let mut t2: Vec<u64> = t1[..keep].to_vec();
        for _ in 0..r.usize(3) { t2.push(r.below(7)); }
        ops.push(format!("upd {id} {}", join(t1, ",")));
        ops.push(format!("upd {id} {}", join(t2, ",")));
    }
    for _ in 0..nrm {
        ops.push(format!("rm {}", 1 + r.usize(n)));
    }
    let nq = 24;
    for _ in 0..nq {
        let unk = r.chance(1, 12);
        let mut f = gen_fl(r, 3, n as i64, unk);
        if r.chance(1, 40) {
            // around and beyond the complexity budget (depth 64, 4096 nodes, 1024 branches, 4096 include keys)
            f = match r.below(6) {
                0 => { let d = 60 + r.usize(8); (0..d).fold(f, |acc, _| Fl::Not(Box::new(acc))) }
                1 => { let d = 58 + r.usize(8); Fl::Field(0, (0..d).fold(Rq::Ge(1), |acc, _| Rq::Not(Box::new(acc)))) }
                2 => { let w = 1020 + r.usize(8); Fl::Or((0..w).map(|i| Fl::Id(Rq::Eq((i % 7) as i64))).collect()) }
                3 => { let w = 4090 + r.usize(10); Fl::Id(Rq::In((0..w).map(|i| (i % 9) as i64).collect())) }
                4 => { let w = 510 + r.usize(5); Fl::And(vec![Fl::Field(2, Rq::Or((0..w).map(|i| Rq::Eq((i % 5) as i64)).collect())), Fl::Or((0..w).map(|i| Fl::Id(Rq::Ge((i % 3) as i64))).collect())]) }
                _ => { let w = 1000; Fl::Or((0..4).map(|_| Fl::And((0..w / 4).map(|i| Fl::Field(0, Rq::And(vec![Rq::Ge(1), Rq::Le(8), Rq::Not(Box::new(Rq::Eq((i % 9) as i64)))]))).collect())).collect()) }
            };
        }
        let lim = match r.below(10) {
            0 => "none".to_string(), 1 => "0".to_string(), 2 => (MAX + 1).to_string(), 3 => (n + 1).to_string(),
            4..=6 => (1 + r.usize(3)).to_string(), // small pages: the limit usually cuts the result
            _ => (1 + r.usize(n)).to_string(),
        };
        match r.below(11) {
            10 => ops.push(format!("M {} {} {}", 1 + r.usize(3), r.pick(&WORDS), f.line())),
            0 => ops.push(format!("q all - {}", f.line())),
            1..=3 => ops.push(format!("q first {lim} {}", f.line())),
            4..=6 => ops.push(format!("q last {lim} {}", f.line())),
            7 => ops.push(format!("s {} {} {}", 1 + r.usize(n), r.pick(&WORDS), f.line())),
            _ => {
                // the whole of search_ids: every limit class, with / without search part, with / without filter
                let word = if r.chance(1, 4) { "-" } else { *r.pick(&WORDS) };
                let fl = if r.chance(1, 5) { "nofilter".to_string() } else { f.line() };
                ops.push(format!("S {lim} {word} {fl}"));
            }
        }
    }
    ops
}

// ------------------------------------------------------------------------------------------
// running a case
// ------------------------------------------------------------------------------------------

fn fmt_res(r: &Result<Vec<u64>, DBError>) -> String {
    match r {
        Ok(v) => format!("ok {}", if v.is_empty() { "-".to_string() } else { join(v, ",") }),
        Err(DBError::Index { .. }) => "err:noindex".into(),
        Err(DBError::Generic { source, .. }) if source.to_string().contains("exceeds maximum") => "err:complexity".into(),
        Err(e) => format!("err:other({e})").replace('\n', " "),
    }
}

/// `search_ids` breadth constants (factor, cap, default page) as regenerated from the source into the
/// model (`searchconsts` driver op); the harness needs them only to know how many candidates the index
/// stage can have handed on.
static SEARCH_CONSTS: std::sync::OnceLock<(usize, usize, usize)> = std::sync::OnceLock::new();
fn search_consts() -> (usize, usize, usize) { *SEARCH_CONSTS.get().unwrap_or(&(10, 4096, 10)) }

struct Outcome {
    /// per query op: (op line, implementation answer, model request line, oracle answer or None when the oracle abstains)
    rows: Vec<(String, String, String, Option<String>)>,
    nontrivial: bool,
    /// input-distribution labels of the case (filter shape, limit class, whether the limit cut the result)
    labels: Vec<String>,
}

fn limit_class(limit: Option<usize>, n_full: usize) -> &'static str {
    match limit {
        None => "limit:none",
        Some(0) => "limit:0",
        Some(l) if l > MAX => "limit:>MAX",
        Some(l) if l < n_full => "limit:cuts-the-result",
        Some(l) if l == n_full => "limit:exactly-the-result",
        Some(_) => "limit:beyond-the-result",
    }
}

async fn open_collection() -> Result<(AndaDB, Arc<Collection>), DBError> {
    let db = AndaDB::connect(
        Arc::new(InMemory::new()),
        DBConfig { name: "c03".into(), description: String::new(), storage: StorageConfig { compress_level: 0, ..Default::default() }, lock: None },
    )
    .await?;
    let c = db
        .open_or_create_collection(Doc::schema()?, CollectionConfig { name: "c".into(), description: String::new() }, async |c| {
            c.create_btree_index_nx(&["a"]).await?;
            c.create_btree_index_nx(&["b"]).await?;
            c.create_btree_index_nx(&["tags"]).await?;
            c.create_bm25_index_nx(&["txt"]).await?;
            c.create_bm25_index_nx(&["txt2"]).await?;
            Ok(())
        })
        .await?;
    Ok((db, c))
}

async fn run_case(ops: &[String]) -> Result<(RefState, Outcome), String> {
    let (_db, c) = open_collection().await.map_err(|e| format!("setup: {e}"))?;
    let mut st = RefState::default();
    let mut out = Outcome { rows: vec![], nontrivial: false, labels: vec![] };
    for op in ops {
        let toks: Vec<&str> = op.split(' ').filter(|s| !s.is_empty()).collect();
        match toks.as_slice() {
            ["doc", a, b, tags, txt, rest @ ..] if rest.len() <= 1 => {
                let txt2 = rest.first().map(|t| if *t == "-" { String::new() } else { t.replace('_', " ") }).unwrap_or_default();
                let d = Doc {
                    _id: 0,
                    a: a.parse().map_err(|_| "bad doc")?,
                    b: if *b == "-" { None } else { Some(b.parse().map_err(|_| "bad doc")?) },
                    tags: if *tags == "-" { vec![] } else { tags.split(',').map(|t| t.parse().unwrap_or(0)).collect() },
                    txt: if *txt == "-" { String::new() } else { txt.replace('_', " ") },
                    txt2,
                };
                let id = c.add_from(&d).await.map_err(|e| format!("add: {e}"))?;
                st.docs.insert(id, Doc { _id: id, ..d });
            }
            ["upd", id, tags] => {
                let id: u64 = id.parse().map_err(|_| "bad upd")?;
                let tags: Vec<u64> = if *tags == "-" { vec![] } else { tags.split(',').map(|t| t.parse().unwrap_or(0)).collect() };
                if let Some(d) = st.docs.get_mut(&id) {
                    let mut f = BTreeMap::new();
                    f.insert("tags".to_string(), Fv::Array(tags.iter().map(|t| Fv::U64(*t)).collect()));
                    c.update(id, f).await.map_err(|e| format!("update: {e}"))?;
                    d.tags = tags;
                }
            }
            ["rm", id] => {
                let id: u64 = id.parse().map_err(|_| "bad rm")?;
                if st.docs.remove(&id).is_some() {
                    c.remove(id).await.map_err(|e| format!("remove: {e}"))?;
                }
            }
            ["q", which, lim, rest @ ..] => {
                let mut it = rest.iter();
                let f = Fl::parse(&mut it).ok_or("bad filter")?;
                if it.next().is_some() { return Err("trailing tokens".into()); }
                let limit: Option<usize> = if *lim == "none" || *lim == "-" { None } else { Some(lim.parse().map_err(|_| "bad limit")?) };
                let res = match *which {
                    "first" => c.query_ids(f.real(), limit).await,
                    "last" => c.query_last_ids(f.real(), limit).await,
                    _ => c.query_all_ids(f.real()).await,
                };
                // oracle
                let full: Vec<u64> = st.docs.keys().copied().filter(|id| f.sat(&st, *id)).collect();
                let expect = if !within_budget(&f) {
                    Some(Err(()))
                } else if f.uses_unknown_index() {
                    None // an unknown index may or may not surface as an error (And short-circuits): not part of the property
                } else {
                    Some(Ok({
                    let l = limit.unwrap_or(MAX).min(MAX);
                    match *which {
                        "first" => full.iter().copied().take(l).collect::<Vec<_>>(),
                        "last" => full[full.len().saturating_sub(l)..].to_vec(),
                        _ => full.clone(),
                    }}))
                };
                if !full.is_empty() && res.as_ref().is_ok_and(|v| !v.is_empty()) { out.nontrivial = true; }
                out.labels.push(format!("q:shape:{}", f.shape()));
                if *which != "all" { out.labels.push(format!("q:{}", limit_class(limit, full.len()))); }
                out.labels.push(format!("q:matches:{}", if full.is_empty() { "none" } else if full.len() == st.docs.len() { "all-documents" } else { "some" }));
                out.rows.push((op.clone(), fmt_res(&res), op.clone(), expect.map(|v| match v { Ok(v) => fmt_res(&Ok(v)), Err(()) => "err:complexity".to_string() })));
            }
            ["s", lim, word, rest @ ..] => {
                let mut it = rest.iter();
                let f = Fl::parse(&mut it).ok_or("bad filter")?;
                let limit: usize = lim.parse().map_err(|_| "bad limit")?;
                let search = || Some(Search { text: Some(word.to_string()), ..Default::default() });
                // candidates in relevance order: the same search without a filter, unbounded for these sizes
                let cands = c.search_ids(Query { search: search(), filter: None, limit: Some(500) }).await.map_err(|e| format!("search: {e}"))?;
                let res = c.search_ids(Query { search: search(), filter: Some(f.real()), limit: Some(limit) }).await;
                let expect = if !within_budget(&f) { Some("err:complexity".to_string()) } else if f.uses_unknown_index() { None } else {
                    Some(fmt_res(&Ok(cands.iter().copied().filter(|id| f.sat(&st, *id)).take(limit.min(MAX)).collect::<Vec<_>>())))
                };
                if res.as_ref().is_ok_and(|v| !v.is_empty()) { out.nontrivial = true; }
                // the model gets the candidate list the real BM25 index produced (BM25 ranking is C11's business)
                let (factor, cap, _) = search_consts();
                let wide = cands.len() > (limit.min(MAX) * factor).min(cap); // see the `S` op: C11's business
                let expect = if wide { None } else { expect };
                let model_req = if cands.is_empty() || wide { String::new() } else { format!("s {limit} {} {}", join(&cands, ","), f.line()) };
                out.rows.push((op.clone(), fmt_res(&res), model_req, expect));
            }
            ["S", lim, word, rest @ ..] => {
                // the whole of `search_ids`: limit none|n, search part present or not, filter present or not
                let limit: Option<usize> = if *lim == "none" { None } else { Some(lim.parse().map_err(|_| "bad limit")?) };
                let f = if rest == ["nofilter"] { None } else {
                    let mut it = rest.iter();
                    let f = Fl::parse(&mut it).ok_or("bad filter")?;
                    if it.next().is_some() { return Err("trailing tokens".into()); }
                    Some(f)
                };
                let search = || if *word == "-" { None } else { Some(Search { text: Some(word.to_string()), ..Default::default() }) };
                let (factor, cap, dflt) = search_consts();
                let l = limit.unwrap_or(dflt).min(MAX);
                let top_k = (l * factor).min(cap);
                // candidates in relevance order: the same search without a filter, as wide as the API allows
                let cands: Option<Vec<u64>> = match search() {
                    None => None,
                    Some(sp) => Some(c.search_ids(Query { search: Some(sp), filter: None, limit: Some(MAX) }).await.map_err(|e| format!("search: {e}"))?),
                };
                let res = c.search_ids(Query { search: search(), filter: f.as_ref().map(|f| f.real()), limit }).await;
                // more candidates than `top_k`: which of them the narrower index call keeps is the text index's
                // business (C11: top-k is a prefix of top-(k+1)), not this property's - abstain.
                let abstain = l != 0 && cands.as_ref().is_some_and(|cs| cs.len() > top_k);
                let full: Vec<u64> = match &f { Some(f) => st.docs.keys().copied().filter(|id| f.sat(&st, *id)).collect(), None => vec![] };
                let expect = if f.as_ref().is_some_and(|f| !within_budget(f)) { Some("err:complexity".to_string()) }
                    else if f.as_ref().is_some_and(|f| f.uses_unknown_index()) || abstain { None }
                    else { Some(fmt_res(&Ok(match (&cands, &f) {
                        (Some(cs), Some(f)) => cs.iter().copied().filter(|id| f.sat(&st, *id)).take(l).collect::<Vec<_>>(),
                        (Some(cs), None) => cs.iter().copied().take(l).collect(),
                        (None, Some(_)) => full.iter().copied().take(l).collect(),
                        (None, None) => vec![],
                    }))) };
                if res.as_ref().is_ok_and(|v| !v.is_empty()) { out.nontrivial = true; }
                out.labels.push(format!("S:search={} filter={}", if cands.is_some() { "yes" } else { "no" }, f.as_ref().map(|f| f.shape()).unwrap_or("no")));
                let n_full = match (&cands, &f) {
                    (Some(cs), Some(f)) => cs.iter().filter(|id| f.sat(&st, **id)).count(),
                    (Some(cs), None) => cs.len(),
                    (None, _) => full.len(),
                };
                out.labels.push(format!("S:{}", limit_class(limit, n_full)));
                if let (Some(cs), Some(f)) = (&cands, &f) {
                    let kept = cs.iter().filter(|id| f.sat(&st, **id)).count();
                    out.labels.push(format!("S:filter-keeps:{}", if cs.is_empty() { "no-candidates" } else if kept == 0 { "none" } else if kept == cs.len() { "all-candidates" } else { "some" }));
                }
                if abstain { out.labels.push("S:abstained(more candidates than top_k)".into()); }
                let model_req = if abstain { String::new() } else {
                    format!("S {lim} {} {}", match &cands { None => "none".to_string(), Some(cs) if cs.is_empty() => "-".to_string(), Some(cs) => join(cs, ",") },
                        f.as_ref().map(|f| f.line()).unwrap_or_else(|| "nofilter".to_string()))
                };
                out.rows.push((op.clone(), fmt_res(&res), model_req, expect));
            }
            ["M", lim, word, rest @ ..] => {
                // Metamorphic search check, independent of which candidates the index stage produced (they are not
                // observable beyond the page when the fused list is longer than `top_k`): logically equivalent
                // filters give equal answers, and a filter that matches every live document gives the answer of
                // the same search without a filter.
                let limit: usize = lim.parse().map_err(|_| "bad limit")?;
                let mut it = rest.iter();
                let f = Fl::parse(&mut it).ok_or("bad filter")?;
                if it.next().is_some() { return Err("trailing tokens".into()); }
                if !within_budget(&f) || f.uses_unknown_index() { continue; }
                let search = || Some(Search { text: Some(word.to_string()), ..Default::default() });
                let run = |flt: Option<Fl>| { let c = c.clone(); async move {
                    c.search_ids(Query { search: search(), filter: flt.map(|f| f.real()), limit: Some(limit) }).await
                } };
                let base = run(Some(f.clone())).await;
                let variants: Vec<(&str, Fl)> = vec![
                    ("And[f]", Fl::And(vec![f.clone()])),
                    ("Or[f]", Fl::Or(vec![f.clone()])),
                    ("Not(Not f)", Fl::Not(Box::new(Fl::Not(Box::new(f.clone()))))),
                    ("And[f, f]", Fl::And(vec![f.clone(), f.clone()])),
                ];
                let mut expect = fmt_res(&base);
                let mut got = fmt_res(&base);
                for (name, v) in variants {
                    if !within_budget(&v) { continue; } // the wrapped form may leave the complexity budget: not equivalent then
                    let r = fmt_res(&run(Some(v)).await);
                    if r != fmt_res(&base) { expect = format!("{name}: {r}"); got = format!("f: {}", fmt_res(&base)); break; }
                }
                let matches_all = st.docs.keys().all(|id| f.sat(&st, *id));
                let n_match = st.docs.keys().filter(|id| f.sat(&st, **id)).count();
                if expect == got && matches_all {
                    let r = fmt_res(&run(None).await);
                    if r != fmt_res(&base) { expect = format!("no filter: {r}"); got = format!("f (matches every document): {}", fmt_res(&base)); }
                }
                // soundness of the page itself: only matching ids, no repetition, at most `limit`
                if expect == got && let Ok(v) = &base {
                    let set: BTreeSet<u64> = v.iter().copied().collect();
                    if set.len() != v.len() || v.len() > limit.min(MAX) || v.iter().any(|id| !f.sat(&st, *id)) {
                        expect = "distinct matching ids, at most `limit`".into(); got = fmt_res(&base);
                    }
                }
                let wide = c.search_ids(Query { search: search(), filter: None, limit: Some(MAX) }).await.map(|v| v.len()).unwrap_or(0);
                let (factor, cap, _) = search_consts();
                out.labels.push(format!("M:candidates-{}-top_k", if wide > (limit.min(MAX) * factor).min(cap) { "exceed" } else { "within" }));
                out.labels.push(format!("M:shape:{} matches:{}", f.shape(), if matches_all { "all" } else if n_match == 0 { "none" } else { "some" }));
                if base.as_ref().is_ok_and(|v| !v.is_empty()) { out.nontrivial = true; }
                out.rows.push((op.clone(), got, String::new(), Some(expect)));
            }
            _ => return Err(format!("bad op: {op}")),
        }
    }
    Ok((st, out))
}

/// Runs one case against implementation, oracle and model. Returns (#oracle failures, #disagreements)
/// and records them when `record` is set.
fn check_case(rt: &tokio::runtime::Runtime, ops: &[String], model: &mut Option<ModelProc>, rep: &mut Report, record: bool) -> (usize, usize) {
    let r = std::panic::catch_unwind(std::panic::AssertUnwindSafe(|| rt.block_on(run_case(ops))));
    let (st, out) = match r {
        Ok(Ok(x)) => x,
        Ok(Err(e)) => {
            if record { rep.hit("case_error"); rep.notes.push(format!("case could not run: {e}")); }
            return (0, 0);
        }
        Err(_) => {
            if record { rep.oracle_failure("panic", "the implementation panicked", ops, "no panic", "panic"); }
            return (1, 0);
        }
    };
    let (mut nf, mut nd) = (0, 0);
    // state-changing ops precede queries in generated cases, but a replay/corpus file may interleave:
    // the model is given the *final* state only when all queries come last.
    let last_state_op = ops.iter().rposition(|o| o.starts_with("doc") || o.starts_with("rm") || o.starts_with("upd")).unwrap_or(0);
    let first_query = ops.iter().position(|o| o.starts_with("q ") || o.starts_with("s ") || o.starts_with("S ") || o.starts_with("M ")).unwrap_or(ops.len());
    let model_ok = last_state_op < first_query;
    if let Some(m) = model.as_mut() && model_ok {
        for l in st.model_lines() {
            let a = m.ask(&l);
            if a != "ok" && record { rep.disagreement("model rejected a state line", &[l.clone()], &a, "ok"); nd += 1; }
        }
    }
    for (op, got, model_req, expect) in &out.rows {
        if record {
            rep.hit(&format!("op:{}", if op.starts_with("q ") { op.split(' ').take(2).collect::<Vec<_>>().join("-") } else { op.split(' ').next().unwrap_or("").to_string() }));
            rep.hit(if got.starts_with("ok -") { "answer:empty" } else if got.starts_with("ok") { "answer:nonempty" } else { "answer:error" });
        }
        if let Some(exp) = expect && exp != got {
            nf += 1;
            if record {
                let toks: Vec<&str> = op.split(' ').collect();
                let mut it = toks[if toks[0] == "q" { 3 } else { 3 }..].iter();
                let f = Fl::parse(&mut it);
                let key = match (&f, toks[0]) {
                    (Some(f), "q") if f.is_bare_btree_field() && got.starts_with("ok") => format!("query_{}:bare-btree-field:bounded-page-in-key-order", toks[1]),
                    (Some(f), "s") if f.is_bare_btree_field() && got.starts_with("ok") => "search_ids:bare-btree-field:bounded-page-in-key-order".to_string(),
                    (Some(f), "M") => format!("search:equivalent-filters-differ:{}", f.shape()),
                    (Some(f), _) => format!("{}:{}", toks[0], f.shape()),
                    _ if toks[0] == "S" => "S:nofilter".into(),
                    _ => "unparsed".into(),
                };
                let mut ctx: Vec<String> = ops.iter().filter(|o| o.starts_with("doc") || o.starts_with("rm") || o.starts_with("upd")).cloned().collect();
                ctx.push(op.clone());
                rep.oracle_failure(&key, "result differs from the set-algebra reading (ascending full result, then first/last `limit`)", &ctx, exp, got);
            }
        }
        if let Some(m) = model.as_mut() && model_ok && !model_req.is_empty() {
            let ans = m.ask(model_req);
            if record { rep.model_compared += 1; }
            if &ans != got {
                nd += 1;
                if record {
                    let mut ctx: Vec<String> = st.model_lines();
                    ctx.push(model_req.clone());
                    rep.disagreement("query answer", &ctx, &ans, got);
                }
            }
        }
    }
    if record {
        for l in &out.labels { rep.hit(l); }
        let canon = ops.join("|");
        rep.case(&canon, out.nontrivial);
    }
    (nf, nd)
}

fn main() {
    let args = Args::parse();
    let mut rep = Report::new(
        "C03",
        &args,
        "case = generated collection (3..12 docs, values uncorrelated with ids, duplicates/arrays/missing, removals) + 24 queries \
         (filter trees depth<=3 over _id and 3 B-tree indexes, RangeQuery trees depth<=2, limits around 0/n/MAX, first/last/all, search+filter); \
         distinct = distinct op list; non-trivial = at least one query with a non-empty full match set answered non-empty",
    );
    let rt = tokio::runtime::Builder::new_current_thread().enable_all().build().unwrap();
    let mut model = ModelProc::from_args(&args);
    if let Some(m) = model.as_mut() {
        let c = m.ask("consts");
        if c != format!("MAX_SEARCH_LIMIT={}", Collection::MAX_SEARCH_LIMIT) {
            rep.disagreement("constants", &["consts".into()], &c, &format!("MAX_SEARCH_LIMIT={}", Collection::MAX_SEARCH_LIMIT));
        }
    }

    if let Some(m) = model.as_mut() {
        let c = m.ask("searchconsts");
        let get = |k: &str| c.split(' ').find_map(|kv| kv.strip_prefix(k).and_then(|v| v.strip_prefix('=')).and_then(|v| v.parse::<usize>().ok()));
        match (get("factor"), get("cap"), get("default")) {
            (Some(f), Some(cp), Some(d)) => { let _ = SEARCH_CONSTS.set((f, cp, d)); }
            _ => rep.disagreement("constants", &["searchconsts".into()], &c, "factor=<n> cap=<n> default=<n>"),
        }
    }

    let mut cases: Vec<(String, Vec<String>)> = vec![];
    if let Some(p) = &args.replay {
        cases.push(("replay".into(), read_replay(p)));
    } else {
        if let Some(dir) = &args.corpus { cases.extend(read_corpus(dir)); }
        let n = args.budget(2000, 60000);
        for i in 0..n {
            let mut r = Rng::for_case(args.seed, i);
            cases.push((format!("gen{i}"), gen_case(&mut r)));
        }
    }
    for (name, ops) in &cases {
        let before_f = rep.oracle_failures.len();
        let (nf, _nd) = check_case(&rt, ops, &mut model, &mut rep, true);
        if nf > 0 && rep.oracle_failures.len() > before_f && args.replay.is_none() {
            // shrink the failing case: keep the failing query, minimise the documents
            let failing = rep.oracle_failures.last().cloned().unwrap();
            let fops: Vec<String> = failing["ops"].as_array().unwrap().iter().map(|x| x.as_str().unwrap().to_string()).collect();
            let small = shrink(fops, |cand| {
                cand.iter().any(|o| o.starts_with("q ") || o.starts_with("s ") || o.starts_with("S ") || o.starts_with("M ")) && {
                    let mut none = None;
                    let mut scratch = Report::new("C03", &args, "");
                    check_case(&rt, cand, &mut none, &mut scratch, false).0 > 0
                }
            }, 200);
            let small = shrink_query(small, &mut |cand: &[String]| {
                let mut none = None;
                let mut scratch = Report::new("C03", &args, "");
                check_case(&rt, cand, &mut none, &mut scratch, false).0 > 0
            });
            let mut none = None;
            let mut scratch = Report::new("C03", &args, "");
            check_case(&rt, &small, &mut none, &mut scratch, true);
            if let (Some(last), Some(fresh)) = (rep.oracle_failures.last_mut(), scratch.oracle_failures.first()) {
                *last = fresh.clone();
                last["case"] = json!(name);
            }
        }
        if rep.samples.len() < 3 { rep.sample(json!({"case": name, "ops": ops.iter().take(40).collect::<Vec<_>>()})); }
    }
    rep.write(&args);
}
