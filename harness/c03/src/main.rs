//! Harness for property C03 (stub: not built yet).
fn main() {
    let a = vh_common::Args::parse();
    let r = vh_common::Report::new("C03", &a, "stub");
    r.write(&a);
}
