//! `RecStore`: an `ObjectStore` wrapper around a shared `InMemory` that
//!  * records every backend read (`get_opts`: path, requested range, head flag),
//!  * can cut the response stream of payload objects into arbitrary segments,
//!  * can deliver fewer / more / different bytes than the backend holds (a lying backend stream).
//! Everything else is forwarded unchanged.

use async_trait::async_trait;
use bytes::Bytes;
use futures::{StreamExt, stream::BoxStream};
use object_store::{path::Path, *};
use std::ops::Range;
use std::sync::{Arc, Mutex};

#[derive(Clone, Debug, PartialEq, Eq)]
pub struct ReadRec {
    pub path: String,
    pub range: Option<(u64, u64)>,
    pub other_range: bool,
    pub head: bool,
}

#[derive(Clone, Debug)]
pub enum StreamFault {
    /// drop the last `n` bytes of what the backend returned
    DropTail(usize),
    /// append `n` extra bytes
    Append(usize),
    /// xor byte `i` of the response with 1
    Flip(usize),
}

#[derive(Default, Debug)]
pub struct Shared {
    pub log: Mutex<Vec<ReadRec>>,
    /// segment sizes for payload responses (`None` = as delivered by the backend)
    pub segs: Mutex<Option<Vec<usize>>>,
    pub fault: Mutex<Option<StreamFault>>,
    /// every byte string handed to the backend by a write (`put_opts`, multipart parts), with its path
    pub writes: Mutex<Vec<(String, Vec<u8>)>>,
    /// everything else a write hands to the backend besides the body: attributes and tags (Debug text)
    pub side: Mutex<Vec<(String, String)>>,
}

#[derive(Clone, Debug)]
pub struct RecStore {
    pub inner: Arc<memory::InMemory>,
    pub shared: Arc<Shared>,
}

impl RecStore {
    pub fn new(inner: Arc<memory::InMemory>) -> RecStore {
        RecStore { inner, shared: Arc::new(Shared::default()) }
    }
    pub fn take_log(&self) -> Vec<ReadRec> {
        std::mem::take(&mut *self.shared.log.lock().unwrap())
    }
    pub fn set_segs(&self, s: Option<Vec<usize>>) {
        *self.shared.segs.lock().unwrap() = s;
    }
    pub fn set_fault(&self, f: Option<StreamFault>) {
        *self.shared.fault.lock().unwrap() = f;
    }
}

impl std::fmt::Display for RecStore {
    fn fmt(&self, f: &mut std::fmt::Formatter<'_>) -> std::fmt::Result {
        write!(f, "RecStore")
    }
}

fn is_payload(p: &Path) -> bool {
    let s = p.as_ref();
    s.starts_with("gen/") || s.starts_with("data/")
}

#[derive(Debug)]
struct RecUpload {
    path: String,
    shared: Arc<Shared>,
    inner: Box<dyn MultipartUpload>,
}

#[async_trait]
impl MultipartUpload for RecUpload {
    fn put_part(&mut self, payload: PutPayload) -> UploadPart {
        let mut v = Vec::new();
        for s in payload.iter() {
            v.extend_from_slice(s);
        }
        self.shared.writes.lock().unwrap().push((self.path.clone(), v));
        self.inner.put_part(payload)
    }
    async fn complete(&mut self) -> Result<PutResult> {
        self.inner.complete().await
    }
    async fn abort(&mut self) -> Result<()> {
        self.inner.abort().await
    }
}

#[async_trait]
impl ObjectStore for RecStore {
    async fn put_opts(&self, location: &Path, payload: PutPayload, opts: PutOptions) -> Result<PutResult> {
        let mut v = Vec::new();
        for s in payload.iter() {
            v.extend_from_slice(s);
        }
        self.shared.writes.lock().unwrap().push((location.to_string(), v));
        self.shared.side.lock().unwrap().push((location.to_string(), format!("{:?} {:?}", opts.attributes, opts.tags)));
        self.inner.put_opts(location, payload, opts).await
    }

    async fn put_multipart_opts(&self, location: &Path, opts: PutMultipartOptions) -> Result<Box<dyn MultipartUpload>> {
        self.shared.side.lock().unwrap().push((location.to_string(), format!("{:?} {:?}", opts.attributes, opts.tags)));
        let inner = self.inner.put_multipart_opts(location, opts).await?;
        Ok(Box::new(RecUpload { path: location.to_string(), shared: self.shared.clone(), inner }))
    }

    async fn get_opts(&self, location: &Path, options: GetOptions) -> Result<GetResult> {
        let (range, other_range) = match &options.range {
            Some(GetRange::Bounded(r)) => (Some((r.start, r.end)), false),
            Some(_) => (None, true),
            None => (None, false),
        };
        self.shared.log.lock().unwrap().push(ReadRec { path: location.to_string(), range, other_range, head: options.head });
        let res = self.inner.get_opts(location, options).await?;
        if !is_payload(location) {
            return Ok(res);
        }
        let segs = self.shared.segs.lock().unwrap().clone();
        let fault = self.shared.fault.lock().unwrap().clone();
        if segs.is_none() && fault.is_none() {
            return Ok(res);
        }
        let meta = res.meta.clone();
        let range = res.range.clone();
        let attributes = res.attributes.clone();
        let mut data: Vec<u8> = res.bytes().await?.to_vec();
        match fault {
            Some(StreamFault::DropTail(n)) => {
                let keep = data.len().saturating_sub(n);
                data.truncate(keep);
            }
            Some(StreamFault::Append(n)) => data.extend(std::iter::repeat_n(0xA5u8, n)),
            Some(StreamFault::Flip(i)) => {
                if !data.is_empty() {
                    let k = i % data.len();
                    data[k] ^= 1;
                }
            }
            None => {}
        }
        let mut parts: Vec<Result<Bytes>> = Vec::new();
        let mut off = 0usize;
        for s in segs.unwrap_or_default() {
            let e = (off + s).min(data.len());
            parts.push(Ok(Bytes::copy_from_slice(&data[off..e])));
            off = e;
        }
        if off < data.len() {
            parts.push(Ok(Bytes::copy_from_slice(&data[off..])));
        }
        Ok(GetResult {
            payload: GetResultPayload::Stream(futures::stream::iter(parts).boxed()),
            meta,
            range,
            attributes,
            extensions: Default::default(),
        })
    }

    async fn get_ranges(&self, location: &Path, ranges: &[Range<u64>]) -> Result<Vec<Bytes>> {
        let mut out = Vec::new();
        for r in ranges {
            let o = GetOptions::new().with_range(Some(r.clone()));
            out.push(self.get_opts(location, o).await?.bytes().await?);
        }
        Ok(out)
    }

    fn delete_stream(&self, locations: BoxStream<'static, Result<Path>>) -> BoxStream<'static, Result<Path>> {
        self.inner.delete_stream(locations)
    }

    fn list(&self, prefix: Option<&Path>) -> BoxStream<'static, Result<ObjectMeta>> {
        self.inner.list(prefix)
    }

    fn list_with_offset(&self, prefix: Option<&Path>, offset: &Path) -> BoxStream<'static, Result<ObjectMeta>> {
        self.inner.list_with_offset(prefix, offset)
    }

    async fn list_with_delimiter(&self, prefix: Option<&Path>) -> Result<ListResult> {
        self.inner.list_with_delimiter(prefix).await
    }

    async fn copy_opts(&self, from: &Path, to: &Path, options: CopyOptions) -> Result<()> {
        self.inner.copy_opts(from, to, options).await
    }

    async fn rename_opts(&self, from: &Path, to: &Path, options: RenameOptions) -> Result<()> {
        self.inner.rename_opts(from, to, options).await
    }
}
