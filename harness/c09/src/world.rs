//! The real code under test: an `EncryptedStore` over `RecStore(InMemory)`, plus what the harness
//! remembers about what was written through it (the independent reference of the oracle).

use crate::recstore::RecStore;
use aes_gcm::{AeadInOut, Aes256Gcm, Key, KeyInit, Nonce, Tag};
use anda_object_store::{EncryptedStore, EncryptedStoreBuilder};
use futures::{StreamExt, TryStreamExt};
use object_store::{memory::InMemory, path::Path, *};
use std::collections::BTreeMap;
use std::sync::Arc;
use vh_common::Rng;

pub type Store = EncryptedStore<RecStore>;

#[derive(Clone, Debug)]
pub struct Truth {
    pub plain: Vec<u8>,
    pub size: u64,
    pub e_tag: Option<String>,
    pub last_modified_ms: i64,
    pub payload_path: String,
    /// pre-0.10 layout written by the harness (no generation): head and listings legitimately report
    /// different backend timestamps, and the document is not in the sealed generation layout
    pub legacy: bool,
}

#[derive(Clone, Debug)]
pub struct Hist {
    pub loc: String,
    pub plain: Vec<u8>,
    pub meta_bytes: Vec<u8>,
    pub payload_path: String,
    pub payload_bytes: Vec<u8>,
    pub size: u64,
    pub e_tag: Option<String>,
    pub last_modified_ms: i64,
    /// the op line that made this commit and the bodies it handed to the backend: (path, length)
    pub op: String,
    pub writes: Vec<(String, usize)>,
    /// pre-0.10 layout (no generation): reported timestamps are the backend's, not part of the commit
    pub legacy: bool,
}

pub struct World {
    pub mem: Arc<InMemory>,
    pub rec: RecStore,
    pub store: Store,
    pub key: [u8; 32],
    pub chunk: u64,
    pub strict: bool,
    pub truth: BTreeMap<String, Truth>,
    pub history: Vec<Hist>,
    pub plaintexts: Vec<Vec<u8>>,
}

pub fn data(seed: u64, size: usize) -> Vec<u8> {
    let mut r = Rng::new(seed ^ 0xC09C_09C0_9C09);
    (0..size).map(|_| r.next_u64() as u8).collect()
}

pub fn key_of(seed: u64) -> [u8; 32] {
    let mut r = Rng::new(seed ^ 0x6b65_79);
    let mut k = [0u8; 32];
    for b in k.iter_mut() {
        *b = r.next_u64() as u8;
    }
    k
}

pub struct Gcm(pub Aes256Gcm);

impl Gcm {
    pub fn new(key: [u8; 32]) -> Gcm {
        Gcm(Aes256Gcm::new(&Key::<Aes256Gcm>::from(key)))
    }
    /// AES-256-GCM seal with detached tag (used to *write* objects under the model's nonce and AAD).
    pub fn seal(&self, nonce: &[u8], aad: &[u8], pt: &[u8]) -> Option<(Vec<u8>, Vec<u8>)> {
        let nonce: [u8; 12] = nonce.try_into().ok()?;
        let mut buf = pt.to_vec();
        let tag = self.0.encrypt_inout_detached(&Nonce::from(nonce), aad, (&mut buf[..]).into()).ok()?;
        let tag: [u8; 16] = tag.into();
        Some((buf, tag.to_vec()))
    }
    /// AES-256-GCM open with detached tag; `None` when the tag does not verify (or sizes are off).
    pub fn open(&self, nonce: &[u8], aad: &[u8], ct: &[u8], tag: &[u8]) -> Option<Vec<u8>> {
        let nonce: [u8; 12] = nonce.try_into().ok()?;
        let tag: [u8; 16] = tag.try_into().ok()?;
        let mut buf = ct.to_vec();
        self.0.decrypt_inout_detached(&Nonce::from(nonce), aad, (&mut buf[..]).into(), &Tag::from(tag)).ok()?;
        Some(buf)
    }
}

/// Canonical error class (the same names the Lean driver prints).
pub fn classify(err: &Error) -> &'static str {
    let msg = err.to_string();
    let dbg = format!("{err:?}");
    let has = |s: &str| msg.contains(s) || dbg.contains(s);
    if matches!(err, Error::NotFound { .. }) {
        return "err:notfound";
    }
    if has("stripped metadata authentication fields") {
        "err:stripped"
    } else if has("unauthenticated legacy metadata rejected") {
        "err:strictlegacy"
    } else if has("missing metadata authentication nonce") {
        "err:missingnonce"
    } else if has("missing metadata authentication tag") {
        "err:missingtag"
    } else if has("metadata authentication failed") {
        "err:authfailed"
    } else if has("unsupported encrypted chunk AAD version") {
        "err:aadversion"
    } else if has("missing AES256 tag for chunk") {
        "err:missingchunktag"
    } else if has("AES256 decrypt failed") {
        "err:decrypt"
    } else if has("truncated encrypted data") {
        "err:truncated"
    } else if has("Failed to deserialize Metadata") {
        "err:decode"
    } else if has("Wanted range starting at")
        || has("Range started at")
        || has("is larger than length")
        || has("is less than start")
        || has("StartTooLarge")
        || has("Inconsistent")
        || matches!(err, Error::NotSupported { .. })
    {
        "err:range"
    } else if matches!(err, Error::AlreadyExists { .. }) {
        "err:exists"
    } else if matches!(err, Error::Precondition { .. }) {
        "err:precond"
    } else {
        "err:other"
    }
}

/// Result of consuming a `get_opts` stream to the end: bytes yielded, and the error that ended it (if any).
pub struct GetOut {
    pub range: Option<(u64, u64)>,
    pub meta: Option<ObjectMeta>,
    pub bytes: Vec<u8>,
    pub err: Option<&'static str>,
}

pub async fn get_collect(store: &Store, loc: &str, opts: GetOptions) -> GetOut {
    match store.get_opts(&Path::from(loc), opts).await {
        Err(e) => GetOut { range: None, meta: None, bytes: vec![], err: Some(classify(&e)) },
        Ok(res) => {
            let range = Some((res.range.start, res.range.end));
            let meta = Some(res.meta.clone());
            let mut s = res.into_stream();
            let mut bytes = Vec::new();
            let mut err = None;
            while let Some(item) = s.next().await {
                match item {
                    Ok(b) => bytes.extend_from_slice(&b),
                    Err(e) => {
                        err = Some(classify(&e));
                        break;
                    }
                }
            }
            GetOut { range, meta, bytes, err }
        }
    }
}

impl World {
    pub fn new(key_seed: u64, chunk: u64, strict: bool) -> World {
        let mem = Arc::new(InMemory::new());
        let rec = RecStore::new(mem.clone());
        let key = key_of(key_seed);
        let store = Self::build(&rec, key, chunk, strict);
        World { mem, rec, store, key, chunk, strict, truth: BTreeMap::new(), history: vec![], plaintexts: vec![] }
    }

    pub fn build(rec: &RecStore, key: [u8; 32], chunk: u64, strict: bool) -> Store {
        let b = EncryptedStoreBuilder::with_secret(rec.clone(), 1000, key).with_chunk_size(chunk);
        if strict { b.with_strict_metadata_auth().build() } else { b.build() }
    }

    /// A store with an empty metadata cache over the same backend.
    pub fn cold(&self) -> Store {
        Self::build(&self.rec, self.key, self.chunk, self.strict)
    }

    pub async fn snapshot(&self) -> BTreeMap<String, Vec<u8>> {
        let mut out = BTreeMap::new();
        let metas: Vec<ObjectMeta> = self.mem.list(None).try_collect().await.expect("list backend");
        for m in metas {
            let b = self.mem.get(&m.location).await.expect("get backend").bytes().await.expect("bytes");
            out.insert(m.location.to_string(), b.to_vec());
        }
        out
    }

    pub async fn raw_put(&self, path: &str, bytes: &[u8]) {
        self.mem.put(&Path::from(path), PutPayload::from(bytes.to_vec())).await.expect("raw put");
    }

    pub async fn raw_delete(&self, path: &str) {
        let _ = self.mem.delete(&Path::from(path)).await;
    }

    /// Records the committed view of `loc` right after a successful write.
    async fn commit_truth(&mut self, loc: &str, plain: Vec<u8>, op: &str, w0: usize) -> Result<(), String> {
        let writes: Vec<(String, usize)> = self.rec.shared.writes.lock().unwrap()[w0..].iter().map(|(p, b)| (p.clone(), b.len())).collect();
        let head = self.store.head(&Path::from(loc)).await.map_err(|e| format!("head after write: {e}"))?;
        let snap = self.snapshot().await;
        let meta_bytes = snap.get(&format!("meta/{loc}")).ok_or("no metadata document after write")?.clone();
        let doc = crate::metadoc::decode(&meta_bytes)?;
        let payload_path = match &doc.g {
            Some(g) => format!("gen/{loc}/{g}"),
            None => format!("data/{loc}"),
        };
        let payload_bytes = snap.get(&payload_path).ok_or("no payload object after write")?.clone();
        self.truth.insert(
            loc.to_string(),
            Truth {
                plain: plain.clone(),
                size: head.size,
                e_tag: head.e_tag.clone(),
                last_modified_ms: head.last_modified.timestamp_millis(),
                payload_path: payload_path.clone(),
                legacy: op.starts_with("legacy"),
            },
        );
        self.history.push(Hist {
            loc: loc.to_string(),
            plain: plain.clone(),
            meta_bytes,
            payload_path,
            payload_bytes,
            size: head.size,
            e_tag: head.e_tag.clone(),
            last_modified_ms: head.last_modified.timestamp_millis(),
            op: op.to_string(),
            writes,
            legacy: op.starts_with("legacy"),
        });
        self.plaintexts.push(plain);
        Ok(())
    }

    /// Executes one write op line. `Err` = the op line is malformed or the write failed unexpectedly.
    pub async fn write(&mut self, w: &[&str]) -> Result<(), String> {
        let op = w.join(" ");
        let op = op.as_str();
        let w0 = self.rec.shared.writes.lock().unwrap().len();
        match w {
            ["legacy", loc, size, seed, kind] => {
                // a genuine pre-0.10 object, written straight into the backend as the old versions did:
                // `unsealed` (pre-authentication: no seal, empty chunk AAD) or `sealedv1` (0.9.x: sealed,
                // bound chunk AAD, no generation pointer); ciphertext under data/<loc>
                let plain = data(seed.parse().map_err(|_| "seed")?, size.parse().map_err(|_| "size")?);
                let gcm = Gcm::new(self.key);
                let sealed = *kind == "sealedv1";
                let c = self.chunk;
                // fresh per object: from the op's data seed, the key and a per-world counter (the harness, like the
                // old writers, must never reuse a base nonce under one key)
                let seed_n: u64 = seed.parse().map_err(|_| "seed")?;
                let loc_h = loc.bytes().fold(0xcbf29ce484222325u64, |h, b| (h ^ b as u64).wrapping_mul(0x100000001b3));
                let mut r = Rng::new(seed_n ^ loc_h ^ ((self.history.len() as u64) << 40) ^ 0x1e9ac7);
                let mut base = [0u8; 12];
                for b in base.iter_mut() {
                    *b = r.next_u64() as u8;
                }
                let mut ct = Vec::new();
                let mut tags: Vec<Vec<u8>> = Vec::new();
                for (i, ch) in plain.chunks(c as usize).enumerate() {
                    let mut nonce = base;
                    let ctr = u64::from_le_bytes(nonce[4..12].try_into().unwrap()).wrapping_add(i as u64);
                    nonce[4..12].copy_from_slice(&ctr.to_le_bytes());
                    let mut aad = Vec::new();
                    if sealed {
                        aad.extend_from_slice(b"anda_object_store.encrypted.chunk.v1");
                        aad.extend_from_slice(&c.to_le_bytes());
                        aad.extend_from_slice(&(i as u64).to_le_bytes());
                    }
                    let (x, t) = gcm.seal(&nonce, &aad, ch).ok_or("seal")?;
                    ct.extend_from_slice(&x);
                    tags.push(t);
                }
                use cbor2::Value;
                let etag = format!("legacy-etag-{}", plain.len());
                let mut entries: Vec<(Value, Value)> = vec![
                    (Value::Text("s".into()), Value::Integer((plain.len() as u64).into())),
                    (Value::Text("e".into()), Value::Text(etag.clone())),
                    (Value::Text("o".into()), Value::Text("inner".into())),
                    (Value::Text("v".into()), Value::Null),
                    (Value::Text("n".into()), Value::Bytes(base.to_vec())),
                    (Value::Text("t".into()), Value::Array(tags.iter().map(|t| Value::Bytes(t.clone())).collect())),
                    (Value::Text("c".into()), Value::Integer(c.into())),
                ];
                if sealed {
                    // metadata_auth_aad of a v1 document (no generation, no commit time), written out by hand
                    let mut aad = b"anda_object_store.encrypted.metadata.v1".to_vec();
                    let pb = |out: &mut Vec<u8>, v: &[u8]| {
                        out.extend_from_slice(&(v.len() as u64).to_le_bytes());
                        out.extend_from_slice(v);
                    };
                    pb(&mut aad, loc.as_bytes());
                    aad.extend_from_slice(&(plain.len() as u64).to_le_bytes());
                    aad.push(1);
                    pb(&mut aad, etag.as_bytes());
                    aad.push(1);
                    pb(&mut aad, b"inner");
                    aad.push(0);
                    pb(&mut aad, &base);
                    aad.push(1);
                    aad.extend_from_slice(&c.to_le_bytes());
                    aad.push(1);
                    aad.push(1);
                    aad.extend_from_slice(&(tags.len() as u64).to_le_bytes());
                    for t in &tags {
                        pb(&mut aad, t);
                    }
                    let mut an = [0u8; 12];
                    for b in an.iter_mut() {
                        *b = r.next_u64() as u8;
                    }
                    let (_, at) = gcm.seal(&an, &aad, &[]).ok_or("seal")?;
                    entries.push((Value::Text("av".into()), Value::Integer(1u64.into())));
                    entries.push((Value::Text("an".into()), Value::Bytes(an.to_vec())));
                    entries.push((Value::Text("at".into()), Value::Bytes(at)));
                }
                // an overwritten key: the store itself would have removed the replaced payload
                if let Some(t) = self.truth.get(*loc) {
                    let old = t.payload_path.clone();
                    self.raw_delete(&old).await;
                }
                self.raw_put(&format!("data/{loc}"), &ct).await;
                self.raw_put(&format!("meta/{loc}"), &crate::metadoc::encode_value(&Value::Map(entries))).await;
                // the long-lived instance may hold an older document of this key
                self.store = Self::build(&self.rec, self.key, self.chunk, self.strict);
                self.commit_truth(loc, plain, op, w0).await
            }
            ["puta", loc, size, seed] => {
                // put with caller attributes (forwarded to the payload object by the store)
                let plain = data(seed.parse().map_err(|_| "seed")?, size.parse().map_err(|_| "size")?);
                let mut attributes = Attributes::new();
                attributes.insert(Attribute::ContentType, "application/x-vh-c09".into());
                attributes.insert(Attribute::Metadata("vh".into()), "c09-attribute".into());
                let opts = PutOptions { attributes, ..Default::default() };
                self.store.put_opts(&Path::from(*loc), PutPayload::from(plain.clone()), opts).await.map_err(|e| format!("put_opts: {e}"))?;
                self.commit_truth(loc, plain, op, w0).await
            }
            ["put", loc, size, seed] => {
                let plain = data(seed.parse().map_err(|_| "seed")?, size.parse().map_err(|_| "size")?);
                self.store.put(&Path::from(*loc), PutPayload::from(plain.clone())).await.map_err(|e| format!("put: {e}"))?;
                self.commit_truth(loc, plain, op, w0).await
            }
            ["mput", loc, seed, parts] => {
                let sizes: Vec<usize> = if *parts == "-" { vec![] } else { parts.split(',').map(|p| p.parse().map_err(|_| "part")).collect::<Result<_, _>>()? };
                let total: usize = sizes.iter().sum();
                let plain = data(seed.parse().map_err(|_| "seed")?, total);
                let mut up = self.store.put_multipart(&Path::from(*loc)).await.map_err(|e| format!("put_multipart: {e}"))?;
                let mut off = 0;
                for s in sizes {
                    up.put_part(PutPayload::from(plain[off..off + s].to_vec())).await.map_err(|e| format!("put_part: {e}"))?;
                    off += s;
                }
                up.complete().await.map_err(|e| format!("complete: {e}"))?;
                self.commit_truth(loc, plain, op, w0).await
            }
            ["copy", from, to] => {
                let plain = self.truth.get(*from).ok_or("copy: unknown source")?.plain.clone();
                self.store.copy(&Path::from(*from), &Path::from(*to)).await.map_err(|e| format!("copy: {e}"))?;
                self.commit_truth(to, plain, op, w0).await
            }
            ["rename", from, to] => {
                let plain = self.truth.get(*from).ok_or("rename: unknown source")?.plain.clone();
                self.store.rename(&Path::from(*from), &Path::from(*to)).await.map_err(|e| format!("rename: {e}"))?;
                if from != to {
                    self.truth.remove(*from);
                }
                self.commit_truth(to, plain, op, w0).await
            }
            ["del", loc] => {
                self.store.delete(&Path::from(*loc)).await.map_err(|e| format!("delete: {e}"))?;
                self.truth.remove(*loc);
                Ok(())
            }
            _ => Err(format!("unknown write op {w:?}")),
        }
    }
}
