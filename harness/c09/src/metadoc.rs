//! The sidecar metadata document of `EncryptedStore` as the backend holds it (CBOR map with
//! single-letter keys), decoded independently of the crate under test through `cbor2::Value`.

use cbor2::Value;

#[derive(Clone, Debug, PartialEq, Eq)]
pub struct MetaDoc {
    pub s: u64,
    pub e: Option<String>,
    pub o: Option<String>,
    pub v: Option<String>,
    pub n: Vec<u8>,
    pub t: Vec<Vec<u8>>,
    pub c: Option<u64>,
    pub av: Option<u64>,
    pub an: Option<Vec<u8>>,
    pub at: Option<Vec<u8>>,
    pub g: Option<String>,
    pub m: Option<u64>,
}

pub fn parse_value(bytes: &[u8]) -> Result<Value, String> {
    cbor2::from_slice::<Value>(bytes).map_err(|e| format!("cbor: {e:?}"))
}

pub fn encode_value(v: &Value) -> Vec<u8> {
    cbor2::to_vec(v).expect("cbor encode")
}

fn as_u64(v: &Value) -> Result<u64, String> {
    match v {
        Value::Integer(i) => u64::try_from(*i).map_err(|_| "integer out of u64".to_string()),
        other => Err(format!("expected integer, got {other:?}")),
    }
}

fn as_opt_text(v: &Value) -> Result<Option<String>, String> {
    match v {
        Value::Null => Ok(None),
        Value::Text(s) => Ok(Some(s.clone())),
        other => Err(format!("expected text/null, got {other:?}")),
    }
}

fn as_bytes(v: &Value) -> Result<Vec<u8>, String> {
    match v {
        Value::Bytes(b) => Ok(b.clone()),
        Value::Array(xs) => xs.iter().map(|x| as_u64(x).and_then(|n| u8::try_from(n).map_err(|_| "byte".to_string()))).collect(),
        other => Err(format!("expected bytes, got {other:?}")),
    }
}

pub fn decode(bytes: &[u8]) -> Result<MetaDoc, String> {
    let v = parse_value(bytes)?;
    let Value::Map(entries) = v else { return Err("not a map".into()) };
    let get = |k: &str| entries.iter().find(|(kk, _)| matches!(kk, Value::Text(t) if t == k)).map(|(_, v)| v);
    let opt_u64 = |k: &str| -> Result<Option<u64>, String> {
        match get(k) {
            None | Some(Value::Null) => Ok(None),
            Some(v) => as_u64(v).map(Some),
        }
    };
    let opt_bytes = |k: &str| -> Result<Option<Vec<u8>>, String> {
        match get(k) {
            None | Some(Value::Null) => Ok(None),
            Some(v) => as_bytes(v).map(Some),
        }
    };
    let opt_text = |k: &str| -> Result<Option<String>, String> {
        match get(k) {
            None => Ok(None),
            Some(v) => as_opt_text(v),
        }
    };
    let t = match get("t") {
        Some(Value::Array(xs)) => xs.iter().map(as_bytes).collect::<Result<Vec<_>, _>>()?,
        other => return Err(format!("field t: {other:?}")),
    };
    Ok(MetaDoc {
        s: as_u64(get("s").ok_or("missing s")?)?,
        e: opt_text("e")?,
        o: opt_text("o")?,
        v: opt_text("v")?,
        n: as_bytes(get("n").ok_or("missing n")?)?,
        t,
        c: opt_u64("c")?,
        av: opt_u64("av")?,
        an: opt_bytes("an")?,
        at: opt_bytes("at")?,
        g: opt_text("g")?,
        m: opt_u64("m")?,
    })
}

/// Removes the given top-level keys of the CBOR map.
pub fn strip_fields(bytes: &[u8], keys: &[&str]) -> Result<Vec<u8>, String> {
    let Value::Map(mut entries) = parse_value(bytes)? else { return Err("not a map".into()) };
    entries.retain(|(k, _)| !matches!(k, Value::Text(t) if keys.contains(&t.as_str())));
    Ok(encode_value(&Value::Map(entries)))
}

/// Replaces (or inserts) a top-level key.
pub fn set_field(bytes: &[u8], key: &str, val: Value) -> Result<Vec<u8>, String> {
    let Value::Map(mut entries) = parse_value(bytes)? else { return Err("not a map".into()) };
    let mut done = false;
    for (k, v) in entries.iter_mut() {
        if matches!(k, Value::Text(t) if t == key) {
            *v = val.clone();
            done = true;
        }
    }
    if !done {
        entries.push((Value::Text(key.to_string()), val));
    }
    Ok(encode_value(&Value::Map(entries)))
}

pub fn get_field(bytes: &[u8], key: &str) -> Option<Value> {
    let Ok(Value::Map(entries)) = parse_value(bytes) else { return None };
    entries.into_iter().find(|(k, _)| matches!(k, Value::Text(t) if t == key)).map(|(_, v)| v)
}
