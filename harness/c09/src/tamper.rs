//! Independent oracle of C09: apply one modification to what the backend holds, then every read path
//! (get, ranged get, get_ranges, head, list, list_with_delimiter, list_with_offset), through a store with
//! a cold and with a warm metadata cache, must return exactly what was originally written — or fail.

use crate::check::RangeSpec;
use crate::metadoc;
use crate::world::{Store, World, classify, get_collect};
use crate::{Failure, Outcome};
use cbor2::Value;
use futures::TryStreamExt;
use object_store::{path::Path, *};
use vh_common::ModelProc;

pub type Undo = Vec<(String, Option<Vec<u8>>)>;

/// `meta:<loc>` | `payload:<loc>` | `hmeta:<k>` | `hpayload:<k>` -> (backend path, current/recorded content)
async fn resolve(w: &World, obj: &str) -> Result<(String, Option<Vec<u8>>), String> {
    let (kind, arg) = obj.split_once(':').ok_or("object reference")?;
    let path = match kind {
        "meta" => format!("meta/{arg}"),
        "payload" => w.truth.get(arg).ok_or("unknown key")?.payload_path.clone(),
        "hmeta" | "hpayload" => {
            let h = w.history.get(arg.parse::<usize>().map_err(|_| "history index")?).ok_or("history index out of range")?;
            return Ok(if kind == "hmeta" { (format!("meta/{}", h.loc), Some(h.meta_bytes.clone())) } else { (h.payload_path.clone(), Some(h.payload_bytes.clone())) });
        }
        "raw" => arg.to_string(),
        _ => return Err("object reference kind".into()),
    };
    let cur = match w.mem.get(&Path::from(path.as_str())).await {
        Ok(r) => Some(r.bytes().await.map_err(|e| e.to_string())?.to_vec()),
        Err(_) => None,
    };
    Ok((path, cur))
}

async fn current(w: &World, path: &str) -> Option<Vec<u8>> {
    match w.mem.get(&Path::from(path)).await {
        Ok(r) => r.bytes().await.ok().map(|b| b.to_vec()),
        Err(_) => None,
    }
}

async fn set(w: &World, undo: &mut Undo, path: &str, content: Option<Vec<u8>>) {
    if !undo.iter().any(|(p, _)| p == path) {
        undo.push((path.to_string(), current(w, path).await));
    }
    match content {
        Some(b) => w.raw_put(path, &b).await,
        None => w.raw_delete(path).await,
    }
}

pub async fn restore(w: &World, undo: Undo) {
    for (path, content) in undo.into_iter().rev() {
        match content {
            Some(b) => w.raw_put(&path, &b).await,
            None => w.raw_delete(&path).await,
        }
    }
}

/// Applies a tamper line. `Err` = not applicable to this world (skipped, not a failure).
pub async fn apply(w: &World, t: &[&str]) -> Result<Undo, String> {
    let mut undo = Undo::new();
    match t {
        ["flip", obj, byte, bit] => {
            let (path, cur) = resolve(w, obj).await?;
            let mut b = cur.ok_or("absent")?;
            let i: usize = byte.parse().map_err(|_| "byte")?;
            let k: u32 = bit.parse().map_err(|_| "bit")?;
            if i >= b.len() || k > 7 {
                return Err("out of range".into());
            }
            b[i] ^= 1 << k;
            set(w, &mut undo, &path, Some(b)).await;
        }
        ["trunc", obj, len] => {
            let (path, cur) = resolve(w, obj).await?;
            let mut b = cur.ok_or("absent")?;
            let n: usize = len.parse().map_err(|_| "len")?;
            if n >= b.len() {
                return Err("not shorter".into());
            }
            b.truncate(n);
            set(w, &mut undo, &path, Some(b)).await;
        }
        ["cuthead", obj, n] => {
            let (path, cur) = resolve(w, obj).await?;
            let b = cur.ok_or("absent")?;
            let n: usize = n.parse().map_err(|_| "n")?;
            if n == 0 || n > b.len() {
                return Err("out of range".into());
            }
            set(w, &mut undo, &path, Some(b[n..].to_vec())).await;
        }
        ["extend", obj, n, fill] => {
            let (path, cur) = resolve(w, obj).await?;
            let mut b = cur.ok_or("absent")?;
            let n: usize = n.parse().map_err(|_| "n")?;
            let f: u8 = fill.parse().map_err(|_| "fill")?;
            b.extend(std::iter::repeat_n(f, n));
            set(w, &mut undo, &path, Some(b)).await;
        }
        ["dup", obj] => {
            // the object followed by a copy of itself
            let (path, cur) = resolve(w, obj).await?;
            let b = cur.ok_or("absent")?;
            if b.is_empty() {
                return Err("empty".into());
            }
            let mut d = b.clone();
            d.extend_from_slice(&b);
            set(w, &mut undo, &path, Some(d)).await;
        }
        ["del", obj] => {
            let (path, cur) = resolve(w, obj).await?;
            cur.ok_or("absent")?;
            set(w, &mut undo, &path, None).await;
        }
        ["swapchunks", loc, i, j] => {
            let (path, cur) = resolve(w, &format!("payload:{loc}")).await?;
            let b = cur.ok_or("absent")?;
            let c = w.chunk as usize;
            let (i, j): (usize, usize) = (i.parse().map_err(|_| "i")?, j.parse().map_err(|_| "j")?);
            let mut chunks: Vec<Vec<u8>> = b.chunks(c).map(|x| x.to_vec()).collect();
            if i >= chunks.len() || j >= chunks.len() || i == j || chunks[i] == chunks[j] {
                return Err("no such distinct chunks".into());
            }
            chunks.swap(i, j);
            set(w, &mut undo, &path, Some(chunks.concat())).await;
        }
        ["movechunk", loc, i, j] => {
            // chunk i overwritten by chunk j (a repeated chunk)
            let (path, cur) = resolve(w, &format!("payload:{loc}")).await?;
            let b = cur.ok_or("absent")?;
            let c = w.chunk as usize;
            let (i, j): (usize, usize) = (i.parse().map_err(|_| "i")?, j.parse().map_err(|_| "j")?);
            let mut chunks: Vec<Vec<u8>> = b.chunks(c).map(|x| x.to_vec()).collect();
            if i >= chunks.len() || j >= chunks.len() || chunks[i] == chunks[j] || chunks[i].len() != chunks[j].len() {
                return Err("no such distinct equal-length chunks".into());
            }
            chunks[i] = chunks[j].clone();
            set(w, &mut undo, &path, Some(chunks.concat())).await;
        }
        ["swapobj", a, b] => {
            let (pa, ca) = resolve(w, a).await?;
            let (pb, cb) = resolve(w, b).await?;
            if pa == pb || ca == cb {
                return Err("same object".into());
            }
            set(w, &mut undo, &pa, cb).await;
            set(w, &mut undo, &pb, ca).await;
        }
        ["copyobj", a, b] => {
            // content of a written over b (b may be a history reference: its *path* is the target)
            let (_, ca) = resolve(w, a).await?;
            let (pb, _) = resolve(w, b).await?;
            let ca = ca.ok_or("absent")?;
            if current(w, &pb).await.as_ref() == Some(&ca) {
                return Err("no change".into());
            }
            set(w, &mut undo, &pb, Some(ca)).await;
        }
        ["rollback", k] => {
            // two sites: the key's metadata document *and* its old payload are put back
            let h = w.history.get(k.parse::<usize>().map_err(|_| "k")?).ok_or("history index")?.clone();
            set(w, &mut undo, &format!("meta/{}", h.loc), Some(h.meta_bytes)).await;
            set(w, &mut undo, &h.payload_path, Some(h.payload_bytes)).await;
        }
        ["strip", loc, fields] => {
            let path = format!("meta/{loc}");
            let b = current(w, &path).await.ok_or("absent")?;
            let keys: Vec<&str> = fields.split(',').collect();
            let nb = metadoc::strip_fields(&b, &keys)?;
            if nb == b {
                return Err("no change".into());
            }
            set(w, &mut undo, &path, Some(nb)).await;
        }
        ["setint", loc, field, val] => {
            let path = format!("meta/{loc}");
            let b = current(w, &path).await.ok_or("absent")?;
            let v: u64 = val.parse().map_err(|_| "val")?;
            let nb = metadoc::set_field(&b, field, Value::Integer(v.into()))?;
            if nb == b {
                return Err("no change".into());
            }
            set(w, &mut undo, &path, Some(nb)).await;
        }
        ["setnull", loc, field] => {
            let path = format!("meta/{loc}");
            let b = current(w, &path).await.ok_or("absent")?;
            let nb = metadoc::set_field(&b, field, Value::Null)?;
            if nb == b {
                return Err("no change".into());
            }
            set(w, &mut undo, &path, Some(nb)).await;
        }
        ["settext", loc, field, hexval] => {
            let path = format!("meta/{loc}");
            let b = current(w, &path).await.ok_or("absent")?;
            let s = String::from_utf8(crate::check::unhex(hexval).ok_or("hex")?).map_err(|_| "utf8")?;
            let nb = metadoc::set_field(&b, field, Value::Text(s))?;
            if nb == b {
                return Err("no change".into());
            }
            set(w, &mut undo, &path, Some(nb)).await;
        }
        ["tags", loc, op, i, j] => {
            let path = format!("meta/{loc}");
            let b = current(w, &path).await.ok_or("absent")?;
            let Some(Value::Array(mut tags)) = metadoc::get_field(&b, "t") else { return Err("no tags".into()) };
            let (i, j): (usize, usize) = (i.parse().map_err(|_| "i")?, j.parse().map_err(|_| "j")?);
            match *op {
                "drop" if i < tags.len() => {
                    tags.remove(i);
                }
                "dup" if i < tags.len() => {
                    let t = tags[i].clone();
                    tags.insert(i, t);
                }
                "swap" if i < tags.len() && j < tags.len() && tags[i] != tags[j] => tags.swap(i, j),
                "push" => tags.push(Value::Bytes(vec![j as u8; 16])),
                _ => return Err("not applicable".into()),
            }
            let nb = metadoc::set_field(&b, "t", Value::Array(tags))?;
            set(w, &mut undo, &path, Some(nb)).await;
        }
        ["strip-forge", loc, fields, field, hexval] => {
            // two sites in one document: authentication fields stripped *and* another field rewritten
            let path = format!("meta/{loc}");
            let b = current(w, &path).await.ok_or("absent")?;
            let keys: Vec<&str> = fields.split(',').collect();
            let nb = metadoc::strip_fields(&b, &keys)?;
            let nb = if *field == "s" {
                let v: u64 = String::from_utf8(crate::check::unhex(hexval).ok_or("hex")?).ok().and_then(|x| x.parse().ok()).ok_or("int")?;
                metadoc::set_field(&nb, field, Value::Integer(v.into()))?
            } else {
                let sv = String::from_utf8(crate::check::unhex(hexval).ok_or("hex")?).map_err(|_| "utf8")?;
                metadoc::set_field(&nb, field, Value::Text(sv))?
            };
            set(w, &mut undo, &path, Some(nb)).await;
        }
        ["forge-legacy-empty", loc] => {
            // what an attacker without the key can write: an unauthenticated pre-0.9 style document
            // describing an empty object, plus an (empty) legacy payload object
            let doc = Value::Map(vec![
                (Value::Text("s".into()), Value::Integer(0u64.into())),
                (Value::Text("e".into()), Value::Null),
                (Value::Text("o".into()), Value::Null),
                (Value::Text("v".into()), Value::Null),
                (Value::Text("n".into()), Value::Bytes(vec![0u8; 12])),
                (Value::Text("t".into()), Value::Array(vec![])),
            ]);
            set(w, &mut undo, &format!("meta/{loc}"), Some(metadoc::encode_value(&doc))).await;
            set(w, &mut undo, &format!("data/{loc}"), Some(vec![])).await;
        }
        ["forge-legacy-phantom", loc, size] => {
            let doc = Value::Map(vec![
                (Value::Text("s".into()), Value::Integer(size.parse::<u64>().map_err(|_| "size")?.into())),
                (Value::Text("e".into()), Value::Text("forged".into())),
                (Value::Text("o".into()), Value::Null),
                (Value::Text("v".into()), Value::Null),
                (Value::Text("n".into()), Value::Bytes(vec![0u8; 12])),
                (Value::Text("t".into()), Value::Array(vec![])),
            ]);
            if w.truth.contains_key(*loc) {
                return Err("key exists".into());
            }
            set(w, &mut undo, &format!("meta/{loc}"), Some(metadoc::encode_value(&doc))).await;
        }
        _ => return Err(format!("unknown tamper {t:?}")),
    }
    Ok(undo)
}

fn probe_ranges(size: u64, c: u64) -> Vec<RangeSpec> {
    let mut v = vec![RangeSpec::None, RangeSpec::Suffix(1), RangeSpec::Offset(size / 2)];
    if size > 0 {
        v.push(RangeSpec::Bounded(0, 1));
        v.push(RangeSpec::Bounded(size - 1, size));
        if size > c {
            v.push(RangeSpec::Bounded(c - 1, c + 1));
            v.push(RangeSpec::Bounded(c, (2 * c).min(size)));
        }
        if size > 2 {
            v.push(RangeSpec::Bounded(1, size - 1));
        }
    }
    v
}

/// What a listing must say about a key: exactly what `head` said right after the write.
fn listing_ok(w: &World, m: &ObjectMeta) -> Result<(), String> {
    let loc = m.location.to_string();
    match w.truth.get(&loc) {
        None => Err(format!("listing shows `{loc}` (size {}) which was never written", m.size)),
        Some(t) => {
            if m.size != t.size || m.e_tag != t.e_tag || (!t.legacy && m.last_modified.timestamp_millis() != t.last_modified_ms) {
                Err(format!("listing entry of `{loc}`: size={} e_tag={:?} lm={} but written size={} e_tag={:?} lm={}", m.size, m.e_tag, m.last_modified.timestamp_millis(), t.size, t.e_tag, t.last_modified_ms))
            } else {
                Ok(())
            }
        }
    }
}

/// All read paths of all keys through `store`; every success is compared with what was written.
pub async fn probe(w: &World, store: &Store, temp: &str, tamper: &str, out: &mut Outcome, rollback_of: Option<&crate::world::Hist>) {
    let kind = tamper.split(' ').next().unwrap_or("?").to_string();
    let mut keys: Vec<String> = w.truth.keys().cloned().collect();
    if let Some(h) = rollback_of
        && !keys.contains(&h.loc)
    {
        keys.push(h.loc.clone());
    }
    if let Some(loc) = tamper.strip_prefix("forge-legacy-phantom ") {
        keys.push(loc.split(' ').next().unwrap_or("").to_string());
    }
    // In compatibility (non-strict) mode an unauthenticated, legacy-shaped document (no seal, no AAD
    // version, no generation) is accepted by design of the code; every oracle failure that goes through
    // such a document is one root cause and carries one key.
    let mut legacy_shaped: Vec<String> = Vec::new();
    if !w.strict {
        for loc in &keys {
            if let Ok(r) = w.mem.get(&Path::from(format!("meta/{loc}"))).await
                && let Ok(b) = r.bytes().await
                && let Ok(d) = metadoc::decode(&b)
                && d.an.is_none() && d.at.is_none() && d.av.is_none() && d.g.is_none()
            {
                legacy_shaped.push(loc.clone());
            }
        }
    }
    let fkey = |path: &str, loc: Option<&str>| {
        let through_legacy = match loc {
            Some(l) => legacy_shaped.iter().any(|x| x == l),
            None => !legacy_shaped.is_empty(),
        };
        if through_legacy { "compat-legacy-forgery".to_string() } else { format!("{kind}:{path}") }
    };
    for loc in &keys {
        let (plain, size, e_tag, lm): (Vec<u8>, u64, Option<String>, i64) = match w.truth.get(loc) {
            Some(t) => (t.plain.clone(), t.size, t.e_tag.clone(), t.last_modified_ms),
            None => (vec![], u64::MAX, None, i64::MIN), // phantom key: every success is wrong
        };
        let phantom = !w.truth.contains_key(loc);
        // a whole-pair rollback may legitimately serve the old commit of the same key (stated limit)
        let alt: Option<&[u8]> = rollback_of.filter(|h| &h.loc == loc).map(|h| &h.plain[..]);
        for r in probe_ranges(if phantom { 4 } else { size }, w.chunk) {
            let o = get_collect(store, loc, r.opts(false)).await;
            let verdict = |want: &[u8]| -> bool {
                match (r.resolve(want.len() as u64), o.err, o.range) {
                    (Some((s, e)), None, Some(got)) => got == (s, e) && o.bytes[..] == want[s as usize..e as usize],
                    (Some((s, _)), Some(_), Some(_)) => {
                        // failed mid-stream: what was yielded must be a correct prefix
                        let rest = &want[s as usize..];
                        o.bytes.len() <= rest.len() && o.bytes[..] == rest[..o.bytes.len()]
                    }
                    (_, Some(_), None) => true,
                    (None, Some(_), Some(_)) => o.bytes.is_empty(),
                    (None, None, _) => false,
                    _ => false,
                }
            };
            let ok = !phantom && verdict(&plain);
            let ok_alt = alt.is_some_and(verdict);
            let served_err = o.err.is_some() && o.range.is_none();
            if served_err || ok {
                out.hit(&format!("oracle:{kind}:get:{}", if o.err.is_some() { o.err.unwrap() } else { "original" }));
            } else if ok_alt {
                out.hit("oracle:rollback:get:old-commit-of-same-key");
            } else {
                out.fail(Failure::new(
                    &fkey("get", Some(loc)),
                    &format!("[{temp} cache] get_opts(`{loc}`, {}) after tamper `{tamper}` returned bytes that were never the content of this key", r.token()),
                    Some(tamper),
                    "the written bytes, or an error",
                    &format!("range={:?} {} bytes (first {:?}) err={:?}", o.range, o.bytes.len(), &o.bytes[..o.bytes.len().min(8)], o.err),
                ));
            }
            out.evals += 1;
        }
        // get_ranges
        if size > 0 && !phantom {
            let mut rs = vec![0..1, size - 1..size];
            if size > w.chunk {
                rs.push(w.chunk - 1..w.chunk + 1);
                rs.push(0..size);
            }
            match store.get_ranges(&Path::from(loc.as_str()), &rs).await {
                Err(e) => out.hit(&format!("oracle:{kind}:get_ranges:{}", classify(&e))),
                Ok(v) => {
                    let same = |want: &[u8]| v.len() == rs.len() && rs.iter().zip(&v).all(|(r, b)| (r.end as usize) <= want.len() && b[..] == want[r.start as usize..r.end as usize]);
                    if same(&plain) {
                        out.hit(&format!("oracle:{kind}:get_ranges:original"));
                    } else if alt.is_some_and(same) {
                        out.hit("oracle:rollback:get_ranges:old-commit-of-same-key");
                    } else {
                        out.fail(Failure::new(&fkey("get_ranges", Some(loc)), &format!("[{temp} cache] get_ranges(`{loc}`, {rs:?}) after tamper `{tamper}` returned other bytes than written"), Some(tamper), "the written bytes, or an error", "different bytes"));
                    }
                }
            }
            out.evals += 1;
        }
        // head
        match store.head(&Path::from(loc.as_str())).await {
            Err(e) => out.hit(&format!("oracle:{kind}:head:{}", classify(&e))),
            Ok(m) => {
                if !phantom && m.size == size && m.e_tag == e_tag && (w.truth.get(loc).is_some_and(|t| t.legacy) || m.last_modified.timestamp_millis() == lm) {
                    out.hit(&format!("oracle:{kind}:head:original"));
                } else if rollback_of.is_some_and(|h| &h.loc == loc && h.size == m.size && h.e_tag == m.e_tag && (h.legacy || h.last_modified_ms == m.last_modified.timestamp_millis())) {
                    out.hit("oracle:rollback:head:old-commit-of-same-key");
                } else {
                    out.fail(Failure::new(&fkey("head", Some(loc)), &format!("[{temp} cache] head(`{loc}`) after tamper `{tamper}` reports an object that was never written"), Some(tamper), &format!("size={size} e_tag={e_tag:?} lm={lm}, or an error"), &format!("size={} e_tag={:?} lm={}", m.size, m.e_tag, m.last_modified.timestamp_millis())));
                }
            }
        }
        out.evals += 1;
    }
    // listings
    let check_listing = |what: &str, entries: Result<Vec<ObjectMeta>, Error>, out: &mut Outcome| {
        match entries {
            Err(e) => out.hit(&format!("oracle:{kind}:{what}:{}", classify(&e))),
            Ok(es) => {
                let mut bad = None;
                let mut rolled = false;
                for m in &es {
                    if let Err(msg) = listing_ok(w, m) {
                        let old_commit = rollback_of.is_some_and(|h| h.loc == m.location.as_ref() && h.size == m.size && h.e_tag == m.e_tag && (h.legacy || h.last_modified_ms == m.last_modified.timestamp_millis()));
                        if old_commit {
                            rolled = true;
                        } else {
                            bad = Some(msg);
                        }
                    }
                }
                match bad {
                    None if rolled => out.hit(&format!("oracle:rollback:{what}:old-commit-of-same-key")),
                    None => out.hit(&format!("oracle:{kind}:{what}:{}", if es.len() == w.truth.len() { "original" } else { "original-subset" })),
                    Some(msg) => out.fail(Failure::new(&fkey(what, None), &format!("[{temp} cache] {what} after tamper `{tamper}`: {msg}"), Some(tamper), "only written keys with their written size/e_tag/time, or an error", &msg)),
                }
            }
        }
        out.evals += 1;
    };
    check_listing("list", store.list(None).try_collect().await, out);
    check_listing("list_with_delimiter", store.list_with_delimiter(None).await.map(|r| r.objects), out);
    check_listing("list_with_offset", store.list_with_offset(None, &Path::from("")).try_collect().await, out);
}

/// One tamper, probed with a cold and a warm metadata cache, then undone.
/// Model vs implementation on a tampered backend (correspondence, not oracle):
///  * for every key whose metadata document is untouched but whose payload object changed, the model's
///    decryption stream over the symbolic payload (position `p` where the byte still equals the original
///    ciphertext byte, "modified" elsewhere) must predict the store's `get` outcome: same error class,
///    same number of bytes yielded before the error;
///  * for every key whose document changed but still decodes, the model's `verify_metadata` decision
///    (given which fields are present and whether the GMAC tag verifies under the *model's* AAD) must
///    predict the outcome class of `head`.
pub async fn model_compare(w: &World, line: &str, undo: &Undo, model: &mut ModelProc, out: &mut Outcome) {
    let gcm = crate::world::Gcm::new(w.key);
    let cold = w.cold();
    let payload_present: std::collections::BTreeSet<String> = w.snapshot().await.into_keys().collect();
    for (loc, t) in &w.truth {
        let meta_path = format!("meta/{loc}");
        let meta_changed = undo.iter().any(|(p, _)| p == &meta_path);
        let payload_orig = undo.iter().find(|(p, _)| p == &t.payload_path).map(|(_, o)| o.clone());
        if !meta_changed {
            let Some(Some(orig)) = payload_orig else { continue };
            if t.size == 0 || t.size > 4096 {
                continue;
            }
            let cur = current(w, &t.payload_path).await;
            let c = w.chunk;
            for r in [RangeSpec::None, RangeSpec::Bounded(t.size / 3, (t.size / 3 + c + 1).min(t.size))] {
                let Some((ps, pe)) = r.resolve(t.size) else { continue };
                if ps >= pe {
                    continue;
                }
                let rr_s = ps / c * c;
                let rr_e = (((pe - 1) / c + 1) * c).min(t.size);
                let model_line = match &cur {
                    None => "err:notfound -".to_string(),
                    Some(cur) if rr_s as usize >= cur.len() => "err:range -".to_string(),
                    Some(cur) => {
                        let end = (rr_e as usize).min(cur.len());
                        let mut runs: Vec<String> = Vec::new();
                        let mut i = rr_s as usize;
                        while i < end {
                            let same = |k: usize| k < orig.len() && cur[k] == orig[k];
                            let mut j = i;
                            if same(i) {
                                while j < end && same(j) {
                                    j += 1;
                                }
                                runs.push(format!("{i}+{}", j - i));
                            } else {
                                while j < end && !same(j) {
                                    j += 1;
                                }
                                runs.push(format!("x{}", j - i));
                            }
                            i = j;
                        }
                        crate::check::ask(model, out, &format!("stream {} {c} {} {} {} {}", t.size, rr_s / c, ps - rr_s, pe - ps, runs.join(",")))
                    }
                };
                let o = get_collect(&cold, loc, r.opts(false)).await;
                let yielded = if o.bytes.is_empty() { "-".to_string() } else { format!("{ps}+{}", o.bytes.len()) };
                let impl_line = match o.err {
                    None => format!("ok {yielded}"),
                    Some(e) => format!("{e} {yielded}"),
                };
                out.model_compared += 1;
                out.hit("tie:tampered-payload-stream");
                if model_line != impl_line {
                    out.disagree(&format!("get_opts(`{loc}`, {}) over a tampered payload (`{line}`), size={} chunk={c}", r.token(), t.size), &model_line, &impl_line);
                }
                // the same request through get_ranges (span fetch, length check, per-chunk open)
                if let (RangeSpec::Bounded(s, e), Some(cur)) = (&r, &cur) {
                    let mut runs: Vec<String> = Vec::new();
                    let mut i = 0usize;
                    while i < cur.len() {
                        let same = |k: usize| k < orig.len() && cur[k] == orig[k];
                        let mut j = i;
                        if same(i) {
                            while j < cur.len() && same(j) {
                                j += 1;
                            }
                            runs.push(format!("{i}+{}", j - i));
                        } else {
                            while j < cur.len() && !same(j) {
                                j += 1;
                            }
                            runs.push(format!("x{}", j - i));
                        }
                        i = j;
                    }
                    let ans = crate::check::ask(model, out, &format!("ranges {} {c} {} {s}:{e}", t.size, if runs.is_empty() { "-".to_string() } else { runs.join(",") }));
                    let model_class = ans.split(' ').next().unwrap_or("").to_string();
                    let impl_class = match cold.get_ranges(&Path::from(loc.as_str()), &[*s..*e]).await {
                        Ok(_) => "ok".to_string(),
                        Err(e) => classify(&e).to_string(),
                    };
                    out.model_compared += 1;
                    out.hit("tie:tampered-payload-get_ranges");
                    if model_class != impl_class {
                        out.disagree(&format!("get_ranges(`{loc}`, [{s}..{e}]) over a tampered payload (`{line}`), size={} chunk={c}", t.size), &ans, &impl_class);
                    }
                }
            }
        } else {
            let Some(bytes) = current(w, &meta_path).await else { continue };
            let ask = |model: &mut ModelProc, out: &mut Outcome, entry: &str| -> String {
                match metadoc::decode(&bytes) {
                    Err(_) => "err:decode".to_string(),
                    Ok(doc) => {
                        let tagok = match (&doc.an, &doc.at) {
                            (Some(an), Some(at)) => {
                                let aad = crate::check::unhex(&crate::check::ask(model, out, &crate::check::maad_line(loc, &doc)));
                                aad.is_some_and(|aad| gcm.open(an, &aad, &[], at).is_some())
                            }
                            _ => false,
                        };
                        let av = doc.av.map(|v| v.to_string()).unwrap_or_else(|| "-".into());
                        let ptr = match &doc.g {
                            Some(g) => format!("gen/{loc}/{g}"),
                            None => format!("data/{loc}"),
                        };
                        let present = payload_present.contains(&ptr);
                        let ans = crate::check::ask(model, out, &format!("verify {} {} {} {av} {} {} {} {entry}", w.strict as u8, doc.an.is_some() as u8, doc.at.is_some() as u8, doc.g.is_some() as u8, tagok as u8, present as u8));
                        if ans.starts_with("ok:") { "ok".to_string() } else { ans }
                    }
                }
            };
            // only documents that are still well-typed for serde are comparable: field-level tampers
            let kind = line.split(' ').next().unwrap_or("");
            if !matches!(kind, "strip" | "strip-forge" | "setint" | "setnull" | "settext" | "tags" | "swapobj" | "copyobj" | "forge-legacy-empty") {
                continue;
            }
            let model_line = ask(model, out, "head");
            let impl_line = match cold.head(&Path::from(loc.as_str())).await {
                Ok(_) => "ok".to_string(),
                Err(e) => classify(&e).to_string(),
            };
            // copy_opts FROM this key: the same verification, then the payload the document names must exist
            {
                let model_copy = ask(model, out, "copy");
                let impl_copy = match cold.copy(&Path::from(loc.as_str()), &Path::from("zz-x/m")).await {
                    Ok(()) => "ok".to_string(),
                    Err(e) => classify(&e).to_string(),
                };
                let mut gone = vec!["meta/zz-x/m".to_string(), "data/zz-x/m".to_string()];
                gone.extend(backend_keys_with_prefix(w, "gen/zz-x/m").await);
                for k in gone {
                    w.raw_delete(&k).await;
                }
                out.model_compared += 1;
                out.hit("tie:tampered-metadata-copy");
                if model_copy != impl_copy {
                    out.disagree(&format!("copy(`{loc}` -> fresh key) over a tampered document (`{line}`), strict={}", w.strict), &model_copy, &impl_copy);
                }
            }
            // listing: the entry of this key (compat mode skips undecodable documents, strict mode fails)
            if undo.len() == 1 {
                let m = ask(model, out, "list");
                let model_list = if m == "err:decode" && !w.strict { "skipped".to_string() } else { m };
                let impl_list = match cold.list(None).try_collect::<Vec<ObjectMeta>>().await {
                    Err(e) => classify(&e).to_string(),
                    Ok(es) => if es.iter().any(|e| e.location.as_ref() == loc.as_str()) { "ok".to_string() } else { "skipped".to_string() },
                };
                out.model_compared += 1;
                out.hit("tie:tampered-metadata-list");
                if model_list != impl_list {
                    out.disagree(&format!("list entry of `{loc}` over a tampered document (`{line}`), strict={}", w.strict), &model_list, &impl_list);
                }
            }
            out.model_compared += 1;
            out.hit("tie:tampered-metadata-verify");
            if model_line != impl_line {
                out.disagree(&format!("head(`{loc}`) over a tampered document (`{line}`), strict={}", w.strict), &model_line, &impl_line);
            }
        }
    }
}

pub async fn tamper_and_probe(w: &World, line: &str, out: &mut Outcome, model: Option<&mut ModelProc>) -> bool {
    let toks: Vec<&str> = line.split(' ').collect();
    // warm a second store *before* the modification
    let warm = w.cold();
    for loc in w.truth.keys() {
        let _ = warm.head(&Path::from(loc.as_str())).await;
    }
    // a second pre-warmed instance, kept untouched for the copy / rename probe below
    let warm2 = w.cold();
    for loc in w.truth.keys() {
        let _ = warm2.head(&Path::from(loc.as_str())).await;
    }
    let undo = match apply(w, &toks).await {
        Ok(u) => u,
        Err(_) => {
            out.hit("tamper:not-applicable");
            return false;
        }
    };
    // a document (and payload) of an *earlier commit of the same key* authenticates by construction
    // (no external freshness anchor): the stated limit of the property, counted separately
    let rollback = match toks.as_slice() {
        ["rollback", k] => k.parse::<usize>().ok().and_then(|k| w.history.get(k)),
        ["copyobj", src, dst] if src.starts_with("hmeta:") => {
            let target = if let Some(l) = dst.strip_prefix("meta:") {
                Some(l.to_string())
            } else if let Some(j) = dst.strip_prefix("hmeta:") {
                j.parse::<usize>().ok().and_then(|j| w.history.get(j)).map(|h| h.loc.clone())
            } else {
                None
            };
            src[6..].parse::<usize>().ok().and_then(|k| w.history.get(k)).filter(|h| Some(&h.loc) == target.as_ref())
        }
        _ => None,
    };
    out.hit(&format!("tamper:{}", toks[0]));
    out.tampers += 1;
    if let Some(m) = model {
        model_compare(w, line, &undo, m, out).await;
    }
    let cold = w.cold();
    probe(w, &cold, "cold", line, out, rollback).await;
    probe(w, &warm, "warm", line, out, rollback).await;
    // copy / rename as read paths: from every key the modification touched, through a warm and a cold
    // instance (the four flavours rotate with the tamper), then all read paths of the target
    let touched: Vec<String> = w.truth.iter().filter(|(loc, t)| undo.iter().any(|(p, _)| p == &format!("meta/{loc}") || p == &t.payload_path || p.starts_with(&format!("gen/{loc}/")) || p == &format!("data/{loc}"))).map(|(loc, _)| loc.clone()).collect();
    if !touched.is_empty() && !toks[0].starts_with("forge-legacy-phantom") {
        let rot = line.bytes().fold(0usize, |h, b| h.wrapping_mul(31).wrapping_add(b as usize));
        let want: Vec<&crate::world::Hist> = rollback.into_iter().collect();
        for (ki, from) in touched.iter().enumerate() {
            let legacy_through = !w.strict
                && current(w, &format!("meta/{from}")).await.and_then(|b| metadoc::decode(&b).ok()).is_some_and(|d| d.an.is_none() && d.at.is_none() && d.av.is_none() && d.g.is_none());
            let want_k: Vec<&crate::world::Hist> = want.iter().copied().filter(|h| &h.loc == from).collect();
            let op_w = XOp::ALL[(rot + ki) % 4];
            let op_c = XOp::ALL[(rot + ki + 1) % 4];
            launder_probe(w, &warm2, "warm", op_w, from, "zz-x/w", toks[0], line, &want_k, legacy_through, out).await;
            let cold2 = w.cold();
            launder_probe(w, &cold2, "cold", op_c, from, "zz-x/c", toks[0], line, &want_k, legacy_through, out).await;
        }
    }
    restore(w, undo).await;
    true
}

// ---------------------------------------------------------------------------------------------------
// Single read paths with an exact verdict (used by the stale-pointer and aligned-cut classes)
// ---------------------------------------------------------------------------------------------------

#[derive(Clone, Debug)]
pub enum ReadPath {
    Get(RangeSpec),
    Ranges(Vec<(u64, u64)>),
    Head,
}

impl ReadPath {
    pub fn name(&self) -> String {
        match self {
            ReadPath::Get(r) => format!("get({})", r.token()),
            ReadPath::Ranges(rs) => format!("get_ranges({rs:?})"),
            ReadPath::Head => "head".into(),
        }
    }
    pub fn key(&self) -> &'static str {
        match self {
            ReadPath::Get(_) => "get",
            ReadPath::Ranges(_) => "get_ranges",
            ReadPath::Head => "head",
        }
    }
}

/// Performs one read; returns (canonical outcome, is it "the bytes/metadata of `want`, exactly — or an error").
/// A *short* answer is wrong bytes: lengths are compared exactly.
pub async fn read_exact(store: &Store, loc: &str, p: &ReadPath, want: &[&crate::world::Hist], truth: Option<&crate::world::Truth>) -> (String, bool) {
    // candidates: (plaintext, size, e_tag, lm)
    let mut cands: Vec<(&[u8], u64, &Option<String>, Option<i64>)> = Vec::new();
    if let Some(t) = truth {
        cands.push((&t.plain, t.size, &t.e_tag, (!t.legacy).then_some(t.last_modified_ms)));
    }
    for h in want {
        cands.push((&h.plain, h.size, &h.e_tag, (!h.legacy).then_some(h.last_modified_ms)));
    }
    match p {
        ReadPath::Get(r) => {
            let o = get_collect(store, loc, r.opts(false)).await;
            let sig = format!("{:?}/{}/{:?}", o.range, o.bytes.len(), o.err);
            let ok = match (o.err, o.range) {
                (Some(_), None) => true,
                (None, Some(got)) => cands.iter().any(|(pl, ..)| r.resolve(pl.len() as u64) == Some(got) && o.bytes[..] == pl[got.0 as usize..got.1 as usize]),
                (Some(_), Some(got)) => cands.iter().any(|(pl, ..)| {
                    let s = got.0 as usize;
                    s <= pl.len() && o.bytes.len() <= pl.len() - s && o.bytes[..] == pl[s..s + o.bytes.len()]
                }),
                (None, None) => false,
            };
            (sig, ok)
        }
        ReadPath::Ranges(rs) => {
            let ranges: Vec<std::ops::Range<u64>> = rs.iter().map(|(s, e)| *s..*e).collect();
            match store.get_ranges(&Path::from(loc), &ranges).await {
                Err(e) => (classify(&e).to_string(), true),
                Ok(v) => {
                    let sig = format!("ok {:?}", v.iter().map(|b| b.len()).collect::<Vec<_>>());
                    let ok = cands.iter().any(|(pl, ..)| {
                        v.len() == rs.len()
                            && rs.iter().zip(&v).all(|((s, e), b)| (*e as usize) <= pl.len() && s < e && b.len() as u64 == e - s && b[..] == pl[*s as usize..*e as usize])
                    });
                    (sig, ok)
                }
            }
        }
        ReadPath::Head => match store.head(&Path::from(loc)).await {
            Err(e) => (classify(&e).to_string(), true),
            Ok(m) => {
                let ok = cands.iter().any(|(_, size, et, lm)| m.size == *size && &m.e_tag == *et && lm.is_none_or(|lm| m.last_modified.timestamp_millis() == lm));
                (format!("ok {} {:?}", m.size, m.e_tag), ok)
            }
        },
    }
}

fn read_paths(size: u64, c: u64) -> Vec<ReadPath> {
    let mut v: Vec<ReadPath> = probe_ranges(size, c).into_iter().map(ReadPath::Get).collect();
    if size > 0 {
        v.push(ReadPath::Ranges(vec![(0, size)]));
        v.push(ReadPath::Ranges(vec![(size - 1, size), (0, 1)]));
        if size > c {
            v.push(ReadPath::Ranges(vec![(c - 1, c + 1)]));
        }
    }
    v.push(ReadPath::Head);
    v
}

/// Tamper class **stale-pointer re-resolve on a warm store** (`stale-repoint <k> <src>`).
///
/// One long-lived store instance has `k`'s document in its metadata cache. Then (1) the payload object of
/// the cached generation disappears, which forces the read path's NotFound retry (`refresh_meta`), and
/// (2) `meta/<k>` has meanwhile been replaced by `<src>` — another key's sealed document, a document of an
/// earlier generation, or a doctored copy of `k`'s own — with matching ciphertext placed under
/// `gen/<k>/<that generation>`. Every read path, each on its *own* warm instance (only the first read of
/// an instance reaches the retry), must fail or return `k`'s own content.
pub async fn stale_repoint(w: &World, line: &str, out: &mut Outcome) -> bool {
    let toks: Vec<&str> = line.split(' ').collect();
    let ["stale-repoint", k, src] = toks.as_slice() else { return false };
    let Some(t) = w.truth.get(*k).cloned() else {
        out.hit("tamper:not-applicable");
        return false;
    };
    let own_meta = current(w, &format!("meta/{k}")).await;
    // replacement document and the ciphertext that goes with it
    let (doc_bytes, payload, same_key_commit): (Vec<u8>, Vec<u8>, Option<crate::world::Hist>) = if let Some(other) = src.strip_prefix("meta:") {
        let Some(ot) = w.truth.get(other) else { return false };
        let (Some(d), Some(p)) = (current(w, &format!("meta/{other}")).await, current(w, &ot.payload_path).await) else { return false };
        (d, p, None)
    } else if let Some(j) = src.strip_prefix("hmeta:") {
        let Some(h) = j.parse::<usize>().ok().and_then(|j| w.history.get(j)) else { return false };
        (h.meta_bytes.clone(), h.payload_bytes.clone(), (h.loc == *k).then(|| h.clone()))
    } else if *src == "own-prefix" {
        // a self-consistent shortened copy of k's own document: last chunk and its tag dropped, size cut to
        // the chunk boundary, pointing at a planted generation that holds the matching ciphertext prefix
        let (Some(d), Some(p)) = (own_meta.clone(), current(w, &t.payload_path).await) else { return false };
        let c = w.chunk;
        let n = t.size.div_ceil(c);
        if n < 2 {
            out.hit("tamper:not-applicable");
            return false;
        }
        let cut = (n - 1) * c;
        let Some(Value::Array(mut tags)) = metadoc::get_field(&d, "t") else { return false };
        tags.pop();
        let Ok(d) = metadoc::set_field(&d, "t", Value::Array(tags)) else { return false };
        let Ok(d) = metadoc::set_field(&d, "s", Value::Integer(cut.into())) else { return false };
        let Ok(d) = metadoc::set_field(&d, "g", Value::Text("0000018bcfe56800-0badf00d".into())) else { return false };
        (d, p[..cut as usize].to_vec(), None)
    } else if *src == "own-short" || *src == "own-stripped" {
        let (Some(d), Some(p)) = (own_meta.clone(), current(w, &t.payload_path).await) else { return false };
        if t.size == 0 {
            out.hit("tamper:not-applicable");
            return false;
        }
        let d = if *src == "own-stripped" { metadoc::strip_fields(&d, &["an", "at"]).unwrap_or(d) } else { d };
        let Ok(d) = metadoc::set_field(&d, "s", Value::Integer((t.size - 1).into())) else { return false };
        let Ok(d) = metadoc::set_field(&d, "g", Value::Text("0000018bcfe56800-0badf00d".into())) else { return false };
        (d, p, None)
    } else {
        return false;
    };
    if Some(&doc_bytes) == own_meta.as_ref() {
        out.hit("tamper:not-applicable");
        return false;
    }
    let new_ptr = match metadoc::decode(&doc_bytes) {
        Ok(d) => match d.g {
            Some(g) => format!("gen/{k}/{g}"),
            None => format!("data/{k}"),
        },
        Err(_) => return false,
    };
    if new_ptr == t.payload_path {
        // mutable legacy layout: the "other generation" lives under the very same key, nothing goes stale
        out.hit("tamper:not-applicable");
        return false;
    }
    // an unsealed legacy-shaped replacement is accepted by design in compat mode (the known root cause)
    let through_legacy = !w.strict && metadoc::decode(&doc_bytes).is_ok_and(|d| d.an.is_none() && d.at.is_none() && d.av.is_none() && d.g.is_none());
    let paths = read_paths(t.size, w.chunk);
    // one warm instance per read path, warmed *before* the modification
    let mut warm: Vec<Store> = Vec::new();
    for i in 0..paths.len() {
        let s = w.cold();
        if i % 2 == 0 {
            let _ = s.head(&Path::from(*k)).await;
        } else {
            let _ = get_collect(&s, k, GetOptions::new()).await;
        }
        warm.push(s);
    }
    // … and one per copy / rename flavour (the operation reads the SOURCE's document on the same retry path)
    let mut warm_x: Vec<Store> = Vec::new();
    for i in 0..XOp::ALL.len() {
        let s = w.cold();
        if i % 2 == 0 {
            let _ = s.head(&Path::from(*k)).await;
        } else {
            let _ = get_collect(&s, k, GetOptions::new()).await;
        }
        warm_x.push(s);
    }
    // what each path answers before the modification (a plan error on the cached document never reaches
    // the payload, hence never the retry)
    let mut base: Vec<String> = Vec::new();
    {
        let s0 = w.cold();
        for p in &paths {
            base.push(read_exact(&s0, k, p, &[], Some(&t)).await.0);
        }
    }
    let mut undo = Undo::new();
    set(w, &mut undo, &t.payload_path, None).await;
    set(w, &mut undo, &format!("meta/{k}"), Some(doc_bytes)).await;
    set(w, &mut undo, &new_ptr, Some(payload)).await;
    out.hit("tamper:stale-repoint");
    out.tampers += 1;
    let want: Vec<&crate::world::Hist> = same_key_commit.iter().collect();
    for (i, p) in paths.iter().enumerate() {
        let (warm_sig, ok) = read_exact(&warm[i], k, p, &want, Some(&t)).await;
        let cold = w.cold();
        let (cold_sig, cold_ok) = read_exact(&cold, k, p, &want, Some(&t)).await;
        out.evals += 2;
        out.hit(&format!("oracle:stale-repoint:{}:{}", p.key(), if warm_sig.starts_with("err") || warm_sig.contains("Some(\"err") { "error" } else { "served" }));
        if !ok {
            out.fail(Failure::new(
                &(if through_legacy { "compat-legacy-forgery".to_string() } else { format!("stale-repoint:{}", p.key()) }),
                &format!("[warm instance, cached generation gone, `meta/{k}` replaced by {src}] {} on `{k}` returned content that is not `{k}`'s (strict={})", p.name(), w.strict),
                Some(line),
                "an error, or the bytes / metadata written under this key",
                &warm_sig,
            ));
        }
        if !cold_ok {
            out.fail(Failure::new(&(if through_legacy { "compat-legacy-forgery".to_string() } else { format!("stale-repoint-cold:{}", p.key()) }), &format!("[cold instance] {} on `{k}` after `{line}` returned foreign content", p.name()), Some(line), "an error, or the bytes written under this key", &cold_sig));
        }
        // model: a warm read whose cached payload is gone re-resolves and then behaves exactly like a cold
        // read (`getObjectWarm_retry_eq_cold`)
        out.model_compared += 1;
        out.hit("tie:warm-retry-equals-cold");
        let base_failed = base[i].starts_with("err") || base[i].contains("Some(\"err");
        let expect = if base_failed { &base[i] } else { &cold_sig };
        if &warm_sig != expect {
            out.disagree(&format!("warm read after a forced re-resolve: {} on `{k}` after `{line}` (before the modification: {})", p.name(), base[i]), &format!("{expect} (= {})", if base_failed { "the plan error on the cached document" } else { "a cold read" }), &warm_sig);
        }
    }
    // copy / rename FROM the key whose pointer went stale, by a warm and by a cold instance; then the target
    for (i, op) in XOp::ALL.iter().enumerate() {
        launder_probe(w, &warm_x[i], "warm", *op, k, &format!("zz-x/w{i}"), "stale-repoint", line, &want, through_legacy, out).await;
        let cold = w.cold();
        launder_probe(w, &cold, "cold", *op, k, &format!("zz-x/c{i}"), "stale-repoint", line, &want, through_legacy, out).await;
    }
    restore(w, undo).await;
    true
}

/// Tamper class **chunk-aligned truncation** (`aligned-cut <loc> <cut> <budget>`): the ciphertext object is cut
/// at a chunk boundary (every surviving chunk still authenticates). Every range that starts unaligned
/// inside a surviving chunk and ends past the cut — alone, and together with 1–2 other ranges in both
/// orders — through `get_ranges`, and as a ranged `get`, must be an error or exactly the requested bytes;
/// a short answer is wrong bytes.
pub async fn aligned_cut(w: &World, line: &str, out: &mut Outcome, mut model: Option<&mut ModelProc>) -> bool {
    let toks: Vec<&str> = line.split(' ').collect();
    let ["aligned-cut", loc, cut, budget] = toks.as_slice() else { return false };
    let (Ok(cut), Ok(budget)) = (cut.parse::<u64>(), budget.parse::<usize>()) else { return false };
    let Some(t) = w.truth.get(*loc).cloned() else { return false };
    let c = w.chunk;
    let Some(payload) = current(w, &t.payload_path).await else { return false };
    if cut % c != 0 || cut >= payload.len() as u64 {
        out.hit("tamper:not-applicable");
        return false;
    }
    let mut undo = Undo::new();
    set(w, &mut undo, &t.payload_path, Some(payload[..cut as usize].to_vec())).await;
    out.hit("tamper:aligned-cut");
    out.tampers += 1;
    let size = t.size;
    // all (start, end): start unaligned before the cut, end beyond it
    let mut all: Vec<(u64, u64)> = Vec::new();
    let total = (cut - cut / c).saturating_mul(size - cut);
    if total <= budget as u64 {
        for s in 0..cut {
            if s % c != 0 {
                for e in cut + 1..=size {
                    all.push((s, e));
                }
            }
        }
    } else {
        // deterministic sample; two thirds are the short ranges around the cut (length <= cut - aligned start)
        let mut rng = vh_common::Rng::new(cut ^ (size << 20) ^ c);
        let mut seen = std::collections::BTreeSet::new();
        let mut tries = 0;
        while all.len() < budget && tries < budget * 20 {
            tries += 1;
            let short = all.len() % 3 != 2;
            let s = if short && rng.chance(1, 2) { cut - 1 - rng.below(c.min(cut)) } else { rng.below(cut) };
            if s % c != 0 {
                let max_e = if short { size.min(s / c * c + cut - s / c * c + (s - s / c * c)).min(s + (cut - s / c * c)) } else { size };
                if max_e > cut {
                    let e = cut + 1 + rng.below(max_e - cut);
                    if seen.insert((s, e)) {
                        all.push((s, e));
                    }
                }
            }
        }
    }
    let store = w.cold();
    let inside = if cut >= 2 { Some((0u64, (cut / 2).max(1))) } else { None };
    for (s, e) in all {
        let mut variants: Vec<ReadPath> = vec![ReadPath::Ranges(vec![(s, e)]), ReadPath::Get(RangeSpec::Bounded(s, e))];
        if let Some(inr) = inside {
            variants.push(ReadPath::Ranges(vec![inr, (s, e)]));
            variants.push(ReadPath::Ranges(vec![(s, e), inr]));
            variants.push(ReadPath::Ranges(vec![(s, (s + 1).min(cut)), (s, e), inr]));
            variants.push(ReadPath::Ranges(vec![inr, (s, e), (s, e)]));
        }
        for (vi, p) in variants.iter().enumerate() {
            let (sig, ok) = read_exact(&store, loc, p, &[], Some(&t)).await;
            out.evals += 1;
            out.hit(&format!("oracle:aligned-cut:{}:{}", p.key(), if sig.starts_with("err") || sig.contains("Some(\"err") { "error" } else { "served" }));
            if !ok {
                out.fail(Failure::new(
                    &format!("aligned-cut:{}", p.key()),
                    &format!("{} on `{loc}` (size {size}, chunk {c}) after the ciphertext was cut to {cut} bytes returned other bytes than requested (a short answer counts)", p.name()),
                    Some(line),
                    "an error, or exactly the requested plaintext bytes",
                    &sig,
                ));
            }
            if vi == 0
                && size <= 4096
                && let Some(m) = model.as_deref_mut()
            {
                let ans = crate::check::ask(m, out, &format!("ranges {size} {c} 0+{cut} {s}:{e}"));
                let model_class = ans.split(' ').next().unwrap_or("").to_string();
                let impl_class = if sig.starts_with("ok") { "ok".to_string() } else { sig.clone() };
                out.model_compared += 1;
                out.hit("tie:aligned-cut-get_ranges");
                if model_class != impl_class {
                    out.disagree(&format!("get_ranges([{s}..{e}]) on `{loc}` (size {size}, chunk {c}) with the payload cut to {cut}"), &ans, &sig);
                }
            }
        }
    }
    restore(w, undo).await;
    true
}


// ---------------------------------------------------------------------------------------------------
// copy / rename as a read path: the store reads the SOURCE's document and re-seals it for the target.
// Whatever ends up readable under the target must be the source's original content.
// ---------------------------------------------------------------------------------------------------

#[derive(Clone, Copy, Debug, PartialEq)]
pub enum XOp {
    Copy,
    CopyIfNotExists,
    Rename,
    RenameIfNotExists,
}

impl XOp {
    pub const ALL: [XOp; 4] = [XOp::Copy, XOp::CopyIfNotExists, XOp::Rename, XOp::RenameIfNotExists];
    pub fn name(&self) -> &'static str {
        match self {
            XOp::Copy => "copy",
            XOp::CopyIfNotExists => "copy_if_not_exists",
            XOp::Rename => "rename",
            XOp::RenameIfNotExists => "rename_if_not_exists",
        }
    }
    pub fn is_rename(&self) -> bool {
        matches!(self, XOp::Rename | XOp::RenameIfNotExists)
    }
    pub async fn run(&self, store: &Store, from: &str, to: &str) -> Result<()> {
        let (f, t) = (Path::from(from), Path::from(to));
        match self {
            XOp::Copy => store.copy(&f, &t).await,
            XOp::CopyIfNotExists => store.copy_if_not_exists(&f, &t).await,
            XOp::Rename => store.rename(&f, &t).await,
            XOp::RenameIfNotExists => store.rename_if_not_exists(&f, &t).await,
        }
    }
}

async fn backend_keys_with_prefix(w: &World, prefix: &str) -> Vec<String> {
    let metas: Vec<ObjectMeta> = w.mem.list(Some(&Path::from(prefix))).try_collect().await.unwrap_or_default();
    metas.into_iter().map(|m| m.location.to_string()).collect()
}

/// `op from -> to` through `actor` on the current (tampered) backend, then every read path of the TARGET
/// through `actor` and through a cold instance: what is readable under `to` must be exactly the content
/// written under `from` (or an earlier commit of `from` in `want`) — or the operation / the reads fail.
/// The target is removed again and whatever a rename deleted is put back.
#[allow(clippy::too_many_arguments)]
pub async fn launder_probe(w: &World, actor: &Store, temp: &str, op: XOp, from: &str, to: &str, kind: &str, line: &str, want: &[&crate::world::Hist], through_legacy: bool, out: &mut Outcome) {
    let Some(src) = w.truth.get(from).cloned() else { return };
    // what a rename may delete: the commit point and every payload object of the source
    let mut saved: Vec<(String, Vec<u8>)> = Vec::new();
    if op.is_rename() {
        let mut keys = vec![format!("meta/{from}"), format!("data/{from}")];
        keys.extend(backend_keys_with_prefix(w, &format!("gen/{from}")).await);
        for k in keys {
            if let Some(b) = current(w, &k).await {
                saved.push((k, b));
            }
        }
    }
    let res = op.run(actor, from, to).await;
    out.evals += 1;
    match &res {
        Err(e) => out.hit(&format!("oracle:{kind}:{}:{}", op.name(), classify(e))),
        Ok(()) => {
            out.hit(&format!("oracle:{kind}:{}:done", op.name()));
            // candidates for the target: the source's content (size/plain); e_tag and time are new by design
            let mut plains: Vec<&[u8]> = vec![&src.plain];
            for h in want {
                plains.push(&h.plain);
            }
            let cold = w.cold();
            for (rtemp, reader) in [(temp, actor), ("cold", &cold)] {
                for p in read_paths(src.size, w.chunk) {
                    let (sig, ok) = match &p {
                        ReadPath::Head => match reader.head(&Path::from(to)).await {
                            Err(e) => (classify(&e).to_string(), true),
                            Ok(m) => (format!("ok {}", m.size), plains.iter().any(|pl| pl.len() as u64 == m.size)),
                        },
                        _ => {
                            // judge against each candidate plaintext (exact bytes, exact lengths)
                            let mut verdict = (String::new(), false);
                            for (ci, pl) in plains.iter().enumerate() {
                                let t = crate::world::Truth { plain: pl.to_vec(), size: pl.len() as u64, e_tag: None, last_modified_ms: 0, payload_path: String::new(), legacy: true };
                                if ci > 0 && verdict.1 {
                                    break;
                                }
                                verdict = read_exact(reader, to, &p, &[], Some(&t)).await;
                            }
                            verdict
                        }
                    };
                    out.evals += 1;
                    if !ok {
                        let key = if through_legacy { "compat-legacy-forgery".to_string() } else { format!("{kind}:{}-target:{}", if op.is_rename() { "rename" } else { "copy" }, p.key()) };
                        out.fail(Failure::new(
                            &key,
                            &format!("[{} by a {temp} instance, target read by a {rtemp} instance] after `{line}`, {}(`{from}` -> `{to}`) succeeded and {} on the TARGET returned content that was never written under `{from}` (strict={})", op.name(), op.name(), p.name(), w.strict),
                            Some(line),
                            "the operation or the read fails, or the target holds exactly the source's original bytes",
                            &sig,
                        ));
                    }
                }
            }
        }
    }
    // remove the target again, put back what a rename removed
    let mut gone = vec![format!("meta/{to}"), format!("data/{to}")];
    gone.extend(backend_keys_with_prefix(w, &format!("gen/{to}")).await);
    for k in gone {
        w.raw_delete(&k).await;
    }
    for (k, b) in saved {
        if current(w, &k).await.as_ref() != Some(&b) {
            w.raw_put(&k, &b).await;
        }
    }
}
