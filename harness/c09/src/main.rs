//! vh-c09 — correspondence and oracle for property C09 (EncryptedStore: tampering is detected,
//! plaintext never reaches the backend, no nonce carries two chunks).
//!
//! A case is a list of op lines:
//!   cfg <key_seed> <chunk_size> <strict 0|1>
//!   put <loc> <size> <seed> | mput <loc> <seed> <part,part,…> | copy <from> <to> | rename <from> <to> | del <loc>
//!   check <seed>            correspondence with the Lean model + clean-state oracle (see check.rs)
//!   tamper <tamper line>    one modification of the backend, all read paths, oracle (see tamper.rs)
//!   sweep full|<n>          every single-site tamper of the current backend (or a sample of n)

mod check;
mod metadoc;
mod recstore;
mod tamper;
mod world;

use std::collections::BTreeMap;
use std::panic::AssertUnwindSafe;
use vh_common::{Args, ModelProc, Report, Rng, hex, read_corpus, read_replay, serde_json::json, shrink};
use world::World;

#[derive(Clone, Debug)]
pub struct Failure {
    pub key: String,
    pub what: String,
    pub tamper: Option<String>,
    pub expected: String,
    pub observed: String,
}

impl Failure {
    pub fn new(key: &str, what: &str, tamper: Option<&str>, expected: &str, observed: &str) -> Failure {
        Failure { key: key.into(), what: what.into(), tamper: tamper.map(|s| s.to_string()), expected: expected.into(), observed: observed.into() }
    }
}

#[derive(Default)]
pub struct Outcome {
    pub hits: BTreeMap<String, u64>,
    pub disagreements: Vec<(String, String, String)>,
    pub failures: Vec<Failure>,
    pub model_compared: u64,
    pub cases: Vec<(String, bool)>,
    pub evals: u64,
    pub tampers: u64,
    pub measured_nonces: u64,
    pub errors: Vec<String>,
}

impl Outcome {
    pub fn hit(&mut self, k: &str) {
        *self.hits.entry(k.to_string()).or_insert(0) += 1;
    }
    pub fn hit_n(&mut self, k: &str, n: u64) {
        *self.hits.entry(k.to_string()).or_insert(0) += n;
    }
    pub fn fail(&mut self, f: Failure) {
        // keep the first failure per (key, tamper kind): enough to report, cheap to shrink
        if self.failures.len() < 50 && !self.failures.iter().any(|g| g.key == f.key) {
            self.failures.push(f);
        } else {
            self.hit("oracle_failures_not_listed");
        }
    }
    pub fn disagree(&mut self, what: &str, model: &str, implementation: &str) {
        if self.disagreements.len() < 10 {
            self.disagreements.push((what.into(), model.into(), implementation.into()));
        } else {
            self.hit("disagreements_not_listed");
        }
    }
    pub fn eval(&mut self, canon: &str, nontrivial: bool) {
        self.cases.push((canon.to_string(), nontrivial));
    }
}

/// Every single-site tamper of the current backend state (plus the few named multi-site ones).
async fn sweep_lines(w: &World, rng: &mut Rng, full_bits: bool) -> Vec<String> {
    let snap = w.snapshot().await;
    let mut v: Vec<String> = Vec::new();
    let keys: Vec<String> = w.truth.keys().cloned().collect();
    let c = w.chunk as usize;
    for (ki, loc) in keys.iter().enumerate() {
        let t = &w.truth[loc];
        let meta = snap.get(&format!("meta/{loc}")).cloned().unwrap_or_default();
        let payload = snap.get(&t.payload_path).cloned().unwrap_or_default();
        for (obj, len, all_bits) in [(format!("meta:{loc}"), meta.len(), full_bits || ki == 0), (format!("payload:{loc}"), payload.len(), full_bits || payload.len() <= 96)] {
            for i in 0..len {
                if all_bits {
                    for b in 0..8 {
                        v.push(format!("flip {obj} {i} {b}"));
                    }
                } else {
                    v.push(format!("flip {obj} {i} {}", rng.below(8)));
                }
            }
            for n in 0..len {
                v.push(format!("trunc {obj} {n}"));
            }
            for n in [1, c, c + 1] {
                v.push(format!("cuthead {obj} {n}"));
                v.push(format!("extend {obj} {n} 0"));
                v.push(format!("extend {obj} {n} 165"));
            }
            v.push(format!("dup {obj}"));
            v.push(format!("del {obj}"));
        }
        let n_chunks = payload.len().div_ceil(c.max(1));
        let mut pairs = 0;
        'p: for i in 0..n_chunks {
            for j in 0..n_chunks {
                if i != j {
                    if i < j {
                        v.push(format!("swapchunks {loc} {i} {j}"));
                    }
                    v.push(format!("movechunk {loc} {i} {j}"));
                    pairs += 1;
                    if pairs > 24 {
                        break 'p;
                    }
                }
            }
        }
        // field level
        let opt = ["c", "av", "an", "at", "g", "m"];
        for mask in 1u32..64 {
            let fs: Vec<&str> = (0..6).filter(|b| mask & (1 << b) != 0).map(|b| opt[b]).collect();
            v.push(format!("strip {loc} {}", fs.join(",")));
        }
        for f in ["s", "e", "o", "v", "n", "t"] {
            v.push(format!("strip {loc} {f}"));
        }
        let size = t.size;
        for s in [0, size.saturating_sub(1), size + 1, w.chunk, size + w.chunk] {
            v.push(format!("setint {loc} s {s}"));
        }
        for cc in [0, 1, w.chunk.saturating_sub(1), w.chunk + 1, 2 * w.chunk, u64::MAX] {
            v.push(format!("setint {loc} c {cc}"));
        }
        for av in [0, 2, 255] {
            v.push(format!("setint {loc} av {av}"));
        }
        for m in [0u64, 1, u64::MAX / 2] {
            v.push(format!("setint {loc} m {m}"));
        }
        for f in ["e", "g", "c", "av", "m", "an", "at"] {
            v.push(format!("setnull {loc} {f}"));
        }
        v.push(format!("settext {loc} e {}", hex(b"forged")));
        v.push(format!("settext {loc} o {}", hex(b"x")));
        v.push(format!("settext {loc} v {}", hex(b"x")));
        for h in &w.history {
            if let Some(g) = h.payload_path.rsplit('/').next() {
                v.push(format!("settext {loc} g {}", hex(g.as_bytes())));
            }
        }
        for (op, i, j) in [("drop", 0, 0), ("drop", n_chunks.saturating_sub(1), 0), ("dup", 0, 0), ("swap", 0, 1), ("swap", 0, n_chunks.saturating_sub(1)), ("push", 0, 7)] {
            v.push(format!("tags {loc} {op} {i} {j}"));
        }
        for fs in ["an,at", "an,at,av", "an,at,g", "an,at,m", "an,at,av,g", "an,at,av,g,m", "c,av,an,at,g,m"] {
            v.push(format!("strip-forge {loc} {fs} e {}", hex(b"forged")));
            v.push(format!("strip-forge {loc} {fs} s {}", hex(size.saturating_sub(1).to_string().as_bytes())));
            v.push(format!("strip-forge {loc} {fs} s {}", hex(b"0")));
        }
        v.push(format!("forge-legacy-empty {loc}"));
        // stale pointer on a warm instance: cached generation gone, commit point replaced
        for other in &keys {
            if other != loc {
                v.push(format!("stale-repoint {loc} meta:{other}"));
            }
        }
        for k in 0..w.history.len() {
            v.push(format!("stale-repoint {loc} hmeta:{k}"));
        }
        v.push(format!("stale-repoint {loc} own-prefix"));
        v.push(format!("stale-repoint {loc} own-short"));
        v.push(format!("stale-repoint {loc} own-stripped"));
        // every chunk-aligned cut of the ciphertext object
        if c > 1 {
            let mut cut = c;
            while cut < payload.len() {
                v.push(format!("aligned-cut {loc} {cut} {}", if full_bits { 4000 } else { 160 }));
                cut += c;
            }
        }
        // objects exchanged between keys
        for other in &keys {
            if other != loc {
                v.push(format!("swapobj meta:{loc} meta:{other}"));
                v.push(format!("swapobj payload:{loc} payload:{other}"));
                v.push(format!("copyobj meta:{other} meta:{loc}"));
                v.push(format!("copyobj payload:{other} payload:{loc}"));
                v.push(format!("swapobj meta:{loc} payload:{loc}"));
            }
        }
        // documents / payloads of earlier generations and of other keys' history put in place
        for k in 0..w.history.len() {
            v.push(format!("copyobj hmeta:{k} meta:{loc}"));
            v.push(format!("copyobj hpayload:{k} payload:{loc}"));
        }
    }
    for k in 0..w.history.len() {
        v.push(format!("copyobj hpayload:{k} hpayload:{k}"));
        v.push(format!("copyobj hmeta:{k} hmeta:{k}"));
        v.push(format!("rollback {k}"));
    }
    v.push("forge-legacy-phantom zz-phantom 12345".into());
    v.push("forge-legacy-phantom zz-phantom 0".into());
    v
}

/// Runs one case on the real code (+ model when a driver is given).
async fn run_case(ops: &[String], mut model: Option<&mut ModelProc>, thorough: bool, out: &mut Outcome) {
    let mut w: Option<World> = None;
    let sig = ops.iter().filter(|l| !l.starts_with("sweep") && !l.starts_with("tamper") && !l.starts_with("check")).cloned().collect::<Vec<_>>().join(";");
    for line in ops {
        let toks: Vec<&str> = line.split(' ').filter(|t| !t.is_empty()).collect();
        match toks.as_slice() {
            ["cfg", k, c, s] => {
                let (Ok(k), Ok(c)) = (k.parse::<u64>(), c.parse::<u64>()) else {
                    out.errors.push(format!("bad cfg: {line}"));
                    return;
                };
                w = Some(World::new(k, c.max(1), *s == "1"));
                out.hit(&format!("cfg:chunk={c}"));
                out.hit(if *s == "1" { "cfg:strict" } else { "cfg:compat" });
            }
            ["check", seed] => {
                let Some(w) = w.as_mut() else { return };
                let mut rng = Rng::new(seed.parse().unwrap_or(1));
                check::check_world(w, &mut rng, model.as_deref_mut(), out, thorough).await;
            }
            ["tamper", rest @ ..] => {
                let Some(w) = w.as_ref() else { return };
                let t = rest.join(" ");
                let applied = if t.starts_with("stale-repoint") {
                    tamper::stale_repoint(w, &t, out).await
                } else if t.starts_with("aligned-cut") {
                    tamper::aligned_cut(w, &t, out, model.as_deref_mut()).await
                } else {
                    tamper::tamper_and_probe(w, &t, out, model.as_deref_mut()).await
                };
                out.eval(&format!("{sig}|{t}"), applied && w.truth.values().any(|t| t.size > 0));
            }
            ["sweep", mode] => {
                let Some(w) = w.as_ref() else { return };
                let mut rng = Rng::new(0x5EE9 ^ sig.len() as u64);
                let mut lines = sweep_lines(w, &mut rng, thorough).await;
                if let Ok(n) = mode.parse::<usize>() {
                    // the two state-dependent classes are never sampled away
                    let (special, mut rest): (Vec<String>, Vec<String>) = lines.into_iter().partition(|l| l.starts_with("stale-repoint") || l.starts_with("aligned-cut"));
                    rng.shuffle(&mut rest);
                    rest.truncate(n);
                    lines = special;
                    lines.extend(rest);
                }
                let nontriv = w.truth.values().any(|t| t.size > 0);
                for t in lines {
                    let before = out.failures.len();
                    let applied = if t.starts_with("stale-repoint") {
                        tamper::stale_repoint(w, &t, out).await
                    } else if t.starts_with("aligned-cut") {
                        tamper::aligned_cut(w, &t, out, model.as_deref_mut()).await
                    } else {
                        tamper::tamper_and_probe(w, &t, out, model.as_deref_mut()).await
                    };
                    out.eval(&format!("{sig}|{t}"), applied && nontriv);
                    if out.failures.len() > before {
                        // remember the tamper line so the failure replays without the sweep
                        for f in out.failures[before..].iter_mut() {
                            f.tamper.get_or_insert(t.clone());
                        }
                    }
                }
            }
            _ => {
                let Some(w) = w.as_mut() else {
                    out.errors.push(format!("op before cfg: {line}"));
                    return;
                };
                match w.write(&toks).await {
                    Ok(()) => out.hit(&format!("op:{}", toks[0])),
                    Err(e) => {
                        out.hit(&format!("op:{}:failed", toks[0]));
                        out.errors.push(format!("{line}: {e}"));
                    }
                }
            }
        }
    }
}

fn run_case_blocking(ops: &[String], model: Option<&mut ModelProc>, thorough: bool) -> Outcome {
    let mut out = Outcome::default();
    let rt = tokio::runtime::Builder::new_current_thread().enable_all().build().expect("runtime");
    let r = std::panic::catch_unwind(AssertUnwindSafe(|| rt.block_on(run_case(ops, model, thorough, &mut out))));
    if let Err(p) = r {
        let msg = p.downcast_ref::<String>().cloned().or_else(|| p.downcast_ref::<&str>().map(|s| s.to_string())).unwrap_or_else(|| "panic".into());
        out.fail(Failure::new("panic", &format!("the code under test (or the harness) panicked: {msg}"), None, "no panic", &msg));
    }
    out
}

fn gen_case(seed: u64, i: u64, thorough: bool) -> Vec<String> {
    let mut r = Rng::for_case(seed, i);
    let chunk = *r.pick(&[1u64, 2, 3, 5, 7, 16, 16, 32, 64]);
    let big = i % 8 == 7; // large chunks / objects: correspondence and a sampled sweep only
    let chunk = if big { *r.pick(&[4096u64, 65536, 262144]) } else { chunk };
    let strict = i % 2 == 0;
    let mut ops = vec![format!("cfg {} {chunk} {}", r.below(1 << 20), strict as u8)];
    let size_of = |r: &mut Rng| -> u64 {
        let c = chunk;
        let cap = if big { 3 * c + 17 } else { 160 };
        (match r.below(10) {
            0 => 0,
            1 => 1,
            2 => c.saturating_sub(1),
            3 => c,
            4 => c + 1,
            5 => 2 * c,
            6 => 2 * c + 1,
            7 => 3 * c - 1,
            _ => r.below(5 * c + 1),
        })
        .min(cap)
    };
    let names = ["a", "dir/b", "c.c", "d"];
    let mut live: Vec<&str> = Vec::new();
    let n_ops = 2 + r.usize(3);
    for k in 0..n_ops {
        let choice = if live.is_empty() { if i % 5 == 3 && !big { 7 } else { 0 } } else { r.below(9) };
        match choice {
            7 => {
                // a genuine pre-0.10 object (unsealed only where the store accepts it: compat mode)
                let loc = names[r.usize(3)];
                let kind = if !strict && r.chance(1, 2) { "unsealed" } else { "sealedv1" };
                ops.push(format!("legacy {loc} {} {} {kind}", size_of(&mut r), r.below(1 << 30)));
                if !live.contains(&loc) {
                    live.push(loc);
                }
            }
            8 => {
                let loc = names[r.usize(3)];
                ops.push(format!("puta {loc} {} {}", size_of(&mut r), r.below(1 << 30)));
                if !live.contains(&loc) {
                    live.push(loc);
                }
            }
            0 | 1 => {
                let loc = names[r.usize(if k == 0 { 1 } else { 3 })];
                ops.push(format!("put {loc} {} {}", size_of(&mut r), r.below(1 << 30)));
                if !live.contains(&loc) {
                    live.push(loc);
                }
            }
            2 | 3 => {
                let loc = names[r.usize(3)];
                let total = size_of(&mut r);
                let mut parts = Vec::new();
                let mut left = total;
                while left > 0 && parts.len() < 6 {
                    let p = (1 + r.below(2 * chunk + 1)).min(left);
                    parts.push(p.to_string());
                    left -= p;
                }
                if left > 0 {
                    parts.push(left.to_string());
                }
                ops.push(format!("mput {loc} {} {}", r.below(1 << 30), if parts.is_empty() { "-".into() } else { parts.join(",") }));
                if !live.contains(&loc) {
                    live.push(loc);
                }
            }
            4 => {
                let from = live[r.usize(live.len())];
                let to = names[r.usize(4)];
                if from != to {
                    ops.push(format!("copy {from} {to}"));
                    if !live.contains(&to) {
                        live.push(to);
                    }
                }
            }
            5 => {
                let from = live[r.usize(live.len())];
                let to = names[r.usize(4)];
                if from != to {
                    ops.push(format!("rename {from} {to}"));
                    live.retain(|x| *x != from);
                    if !live.contains(&to) {
                        live.push(to);
                    }
                }
            }
            _ => {
                // overwrite: leaves an older generation in the history
                let loc = live[r.usize(live.len())];
                ops.push(format!("put {loc} {} {}", size_of(&mut r), r.below(1 << 30)));
            }
        }
    }
    ops.push(format!("check {}", r.below(1 << 30)));
    if big {
        ops.push(format!("sweep {}", if thorough { 400 } else { 60 }));
    } else if thorough || i % 2 == 1 || i < 4 {
        ops.push("sweep full".into());
    } else {
        ops.push("sweep 1500".into());
    }
    ops
}

fn merge(report: &mut Report, o: Outcome, ops: &[String], driver: Option<&std::path::Path>, thorough: bool, reported: &mut std::collections::BTreeSet<String>) {
    for (k, n) in &o.hits {
        report.hit_n(k, *n);
    }
    for (canon, nt) in &o.cases {
        report.case(canon, *nt);
    }
    report.model_compared += o.model_compared;
    for e in &o.errors {
        report.notes.push(format!("case error: {e} in {ops:?}"));
    }
    for (what, m, i) in &o.disagreements {
        report.disagreement(what, ops, m, i);
    }
    for f in &o.failures {
        if !reported.insert(f.key.clone()) {
            report.hit(&format!("oracle_failure_repeats:{}", f.key));
            continue;
        }
        // the replayable form: writes + the one tamper line (instead of the sweep)
        let mut rops: Vec<String> = ops.iter().filter(|l| !l.starts_with("sweep") && !(f.tamper.is_some() && l.starts_with("tamper"))).cloned().collect();
        if let Some(t) = &f.tamper {
            rops.retain(|l| !l.starts_with("check"));
            rops.push(format!("tamper {t}"));
        }
        let key = f.key.clone();
        let shrunk = shrink(
            rops,
            |cand| {
                let mut m = driver.and_then(|_| None::<ModelProc>);
                run_case_blocking(cand, m.as_mut(), thorough).failures.iter().any(|g| g.key == key)
            },
            40,
        );
        report.oracle_failure(&f.key, &f.what, &shrunk, &f.expected, &f.observed);
    }
}

fn main() {
    let args = Args::parse();
    let thorough = args.thorough() || args.focus.is_some();
    let mut report = Report::new(
        "C09",
        &args,
        "a tamper case counts when the modification changed at least one backend byte of a world holding a non-empty object and all read paths were probed (cold and warm cache); a clean read case counts when it returned a non-empty answer; distinctness is over (write history, tamper line) resp. (size, chunk size, request)",
    );
    report.max_samples = 6;
    // silence panic backtraces of expected-failure probes
    std::panic::set_hook(Box::new(|info| eprintln!("[C09] panic: {info}")));

    // 1. replay
    if let Some(p) = &args.replay {
        let ops = read_replay(p);
        let mut model = ModelProc::from_args(&args);
        let o = run_case_blocking(&ops, model.as_mut(), thorough);
        report.sample(json!({"replay": ops}));
        merge(&mut report, o, &ops, args.driver.as_deref(), thorough, &mut Default::default());
        report.write(&args);
        return;
    }

    // 2. corpus first
    let mut cases: Vec<(String, Vec<String>)> = Vec::new();
    if let Some(dir) = &args.corpus {
        for (name, ops) in read_corpus(dir) {
            cases.push((format!("corpus:{name}"), ops));
        }
    }
    let n = args.budget(64, 320);
    for i in 0..n {
        cases.push((format!("gen:{i}"), gen_case(args.seed, i, thorough)));
    }
    for (_, ops) in cases.iter().take(3) {
        report.sample(json!({"ops": ops}));
    }

    // 3. shard over threads; every worker owns a driver process
    let workers = std::thread::available_parallelism().map(|n| n.get()).unwrap_or(4).min(16).min(cases.len().max(1));
    let cases = std::sync::Arc::new(cases);
    let next = std::sync::Arc::new(std::sync::atomic::AtomicUsize::new(0));
    let (tx, rx) = std::sync::mpsc::channel::<(usize, Outcome)>();
    let mut handles = Vec::new();
    for _ in 0..workers {
        let cases = cases.clone();
        let next = next.clone();
        let tx = tx.clone();
        let args = args.clone();
        handles.push(std::thread::spawn(move || {
            let mut model = ModelProc::from_args(&args);
            loop {
                let i = next.fetch_add(1, std::sync::atomic::Ordering::SeqCst);
                if i >= cases.len() {
                    break;
                }
                let o = run_case_blocking(&cases[i].1, model.as_mut(), thorough);
                if tx.send((i, o)).is_err() {
                    break;
                }
            }
        }));
    }
    drop(tx);
    let mut outs: Vec<(usize, Outcome)> = rx.into_iter().collect();
    for h in handles {
        let _ = h.join();
    }
    outs.sort_by_key(|(i, _)| *i);
    let mut nonces = 0u64;
    let mut tampers = 0u64;
    let mut reported = std::collections::BTreeSet::new();
    for (i, o) in outs {
        nonces += o.measured_nonces;
        tampers += o.tampers;
        let ops = cases[i].1.clone();
        merge(&mut report, o, &ops, args.driver.as_deref(), thorough, &mut reported);
    }
    report.measured.insert("nonces_rederived_without_repeat_measured_not_proved".into(), json!(nonces));
    report.measured.insert("tampers_applied".into(), json!(tampers));
    report.exhaustive = false;
    report.write(&args);
}
