//! Harness for property C09 (stub: not built yet).
fn main() {
    let a = vh_common::Args::parse();
    let r = vh_common::Report::new("C09", &a, "stub");
    r.write(&a);
}
